// pvrace is the concurrent driver of C20 built WITHOUT the verif tag and WITH the Go race detector: the interpreter
// packages are exactly the production code (no hook is compiled in, so no hook can add synchronisation that would
// hide an unsynchronised access).  It reads one JSON request from stdin:
//
//	{"n": 8, "progs": [...], "rounds": [{"warm": "...", "prog": "..."}]}
//
// phase 1: for every round, `warm` is evaluated once on the main goroutine, then n goroutines evaluate `prog`
// at the same moment (released by one barrier), then `prog` is evaluated once more sequentially (reference);
// phase 2: n goroutines evaluate progs round-robin, each program in a scope of its own of the same interpreter.
// The race detector's reports go to GORACE=log_path; results go to stdout as JSON.
package main

import (
	"bufio"
	"encoding/json"
	"fmt"
	"io"
	"net"
	"net/http"
	"os"
	"sort"
	"strconv"
	"strings"
	"sync"
	"time"

	"github.com/Syuparn/pangaea/di"
	"github.com/Syuparn/pangaea/evaluator"
	"github.com/Syuparn/pangaea/object"
	"github.com/Syuparn/pangaea/parser"
)

type round struct {
	Warm  string `json:"warm"`
	Prog  string `json:"prog"`
	Prog2 string `json:"prog2"` // if set, the odd-numbered goroutines evaluate this program instead (two roles meeting in one round)
	Reps  int    `json:"reps"`  // every goroutine evaluates its program this many times (default 1); @R@ is the repetition number
}

type httpReq struct {
	Method  string            `json:"method"`
	Path    string            `json:"path"`
	Headers map[string]string `json:"headers"`
	Body    string            `json:"body"`
}

// httpPhase: Script (with @PORT@) starts a background server of the http module and leaves its stop function in
// `stop`; Clients goroutines send Requests round-robin while the main goroutine evaluates Main.
type httpPhase struct {
	Script   string    `json:"script"`
	Requests []httpReq `json:"requests"`
	Main     []string  `json:"main"`
	Pre      string    `json:"pre"` // evaluated in the global scope before the server starts (variables the handlers read)
	Scoped   bool      `json:"scoped"` // the script's top level is a scope of its own (an imported module, a file run by `pangaea test`): Pre and Main are evaluated there
	Clients  int       `json:"clients"`
	Blocking bool      `json:"blocking"` // the script calls the blocking serve: it is evaluated on a goroutine of its own and never returns
}

type req struct {
	N      int        `json:"n"`
	Progs  []string   `json:"progs"`
	Rounds []round    `json:"rounds"`
	HTTP   *httpPhase `json:"http"`
	HTTP2  *httpPhase `json:"http2"`
	HTTP3  *httpPhase `json:"http3"`
}

type httpRes struct {
	Start string   `json:"start"`
	Conc  []string `json:"conc"`
	Ref   []string `json:"ref"`
	Main  []string `json:"main"`
	Stop  string   `json:"stop"`
}

type roundRes struct {
	Conc []string `json:"conc"`
	Ref  string   `json:"ref"`
}

type resp struct {
	End    string     `json:"end"`
	Phase1 []string   `json:"phase1"`
	Rounds []roundRes `json:"rounds"`
	HTTP   *httpRes   `json:"http,omitempty"`
	HTTP2  *httpRes   `json:"http2,omitempty"`
	HTTP3  *httpRes   `json:"http3,omitempty"`
}

func evalIn(env *object.Env, src string) (out string) {
	defer func() {
		if e := recover(); e != nil {
			out = "panic:" + strings.SplitN(fmt.Sprintf("%v", e), "\n", 2)[0]
		}
	}()
	node, err := parser.Parse(parser.NewReader(strings.NewReader(src), "<pvrace>"))
	if err != nil {
		return "syntax:" + err.Error()
	}
	v := evaluator.Eval(node, env)
	if e, ok := v.(*object.PanErr); ok {
		return "err:" + string(e.ErrKind) + ":" + e.Msg
	}
	return "val:" + v.Repr()
}

func send(client *http.Client, port int, r httpReq) string {
	rq, err := http.NewRequest(r.Method, fmt.Sprintf("http://127.0.0.1:%d%s", port, r.Path), strings.NewReader(r.Body))
	if err != nil {
		return "badrequest:" + err.Error()
	}
	for k, v := range r.Headers {
		rq.Header.Set(k, v)
	}
	res, err := client.Do(rq)
	if err != nil {
		return "transport:" + err.Error()
	}
	defer res.Body.Close()
	b, _ := io.ReadAll(res.Body)
	var hs []string
	for k, v := range res.Header {
		if strings.HasPrefix(k, "X-") {
			hs = append(hs, k+"="+strings.Join(v, ","))
		}
	}
	sort.Strings(hs)
	return fmt.Sprintf("%d %s %s", res.StatusCode, strings.Join(hs, ";"), string(b))
}

func runHTTP(global *object.Env, h *httpPhase) *httpRes {
	out := &httpRes{}
	l, err := net.Listen("tcp", "127.0.0.1:0")
	if err != nil {
		out.Start = "nolisten:" + err.Error()
		return out
	}
	port := l.Addr().(*net.TCPAddr).Port
	l.Close()
	env := object.NewEnclosedEnv(global)
	mainEnv := global
	if h.Scoped {
		mainEnv = env
	}
	if h.Pre != "" {
		evalIn(mainEnv, h.Pre)
	}
	if h.Blocking {
		go evalIn(env, strings.ReplaceAll(h.Script, "@PORT@", strconv.Itoa(port)))
		out.Start = "val:blocking"
	} else {
		out.Start = evalIn(env, strings.ReplaceAll(h.Script, "@PORT@", strconv.Itoa(port)))
	}
	if !strings.HasPrefix(out.Start, "val:") {
		return out
	}
	up := false
	for i := 0; i < 100 && !up; i++ {
		c, err := net.DialTimeout("tcp", fmt.Sprintf("127.0.0.1:%d", port), 100*time.Millisecond)
		if err == nil {
			c.Close()
			up = true
		} else {
			time.Sleep(30 * time.Millisecond)
		}
	}
	if !up {
		out.Start = "server did not come up"
		return out
	}
	n := h.Clients
	if n < 1 {
		n = 4
	}
	out.Conc = make([]string, len(h.Requests))
	var wg sync.WaitGroup
	start := make(chan struct{})
	for g := 0; g < n; g++ {
		wg.Add(1)
		go func(g int) {
			defer wg.Done()
			client := &http.Client{Timeout: 20 * time.Second}
			<-start
			for i := g; i < len(h.Requests); i += n {
				out.Conc[i] = send(client, port, h.Requests[i])
			}
		}(g)
	}
	close(start)
	for _, src := range h.Main { // the main script goes on while the handlers run: like `pangaea script`, directly in the global scope
		out.Main = append(out.Main, evalIn(mainEnv, src))
	}
	wg.Wait()
	client := &http.Client{Timeout: 20 * time.Second}
	for _, r := range h.Requests {
		out.Ref = append(out.Ref, send(client, port, r))
	}
	if h.Blocking {
		out.Stop = "val:nil" // the blocking server ends with the process
		return out
	}
	out.Stop = evalIn(env, "stop()")
	return out
}

func eval(global *object.Env, src string) (out string) {
	defer func() {
		if e := recover(); e != nil {
			out = "panic:" + strings.SplitN(fmt.Sprintf("%v", e), "\n", 2)[0]
		}
	}()
	if src == "" {
		return ""
	}
	node, err := parser.Parse(parser.NewReader(strings.NewReader(src), "<pvrace>"))
	if err != nil {
		return "syntax"
	}
	v := evaluator.Eval(node, object.NewEnclosedEnv(global))
	if e, ok := v.(*object.PanErr); ok {
		return "err:" + string(e.ErrKind) + ":" + e.Msg
	}
	return "val:" + v.Repr()
}

func main() {
	var rq req
	dec := json.NewDecoder(bufio.NewReaderSize(os.Stdin, 1<<20))
	if err := dec.Decode(&rq); err != nil {
		fmt.Println(`{"end":"harness-error:bad request"}`)
		return
	}
	if rq.N < 1 {
		rq.N = 4
	}
	global := object.NewEnvWithConsts()
	global.InjectIO(strings.NewReader(""), &strings.Builder{})
	di.InjectBuiltInProps(global) // loads the native sources on goroutines of its own (interpreter start-up)
	global.InjectFrom(object.BuiltInKernelObj)

	rs := resp{End: "ok"}
	var wg sync.WaitGroup
	for _, r := range rq.Rounds {
		eval(global, r.Warm)
		res := roundRes{Conc: make([]string, rq.N)}
		start := make(chan struct{})
		for g := 0; g < rq.N; g++ {
			wg.Add(1)
			go func(g int) {
				defer wg.Done()
				<-start
				src := r.Prog
				if r.Prog2 != "" && g%2 == 1 {
					src = r.Prog2
				}
				src = strings.ReplaceAll(src, "@G@", strconv.Itoa(g))
				reps := r.Reps
				if reps < 1 {
					reps = 1
				}
				for k := 0; k < reps; k++ {
					res.Conc[g] = eval(global, strings.ReplaceAll(src, "@R@", strconv.Itoa(k)))
				}
			}(g)
		}
		close(start)
		wg.Wait()
		if r.Prog2 == "" && r.Reps <= 1 {
			res.Ref = eval(global, strings.ReplaceAll(r.Prog, "@G@", strconv.Itoa(rq.N)))
		} else {
			res.Ref = "" // roles / repetitions: results are not compared, the round exists for the race detector
			for g := range res.Conc {
				res.Conc[g] = ""
			}
		}
		rs.Rounds = append(rs.Rounds, res)
	}
	p1 := make([][]string, rq.N)
	for g := 0; g < rq.N; g++ {
		wg.Add(1)
		go func(g int) {
			defer wg.Done()
			for i := g; i < len(rq.Progs); i += rq.N {
				p1[g] = append(p1[g], eval(global, rq.Progs[i]))
			}
		}(g)
	}
	wg.Wait()
	for _, e := range p1 {
		rs.Phase1 = append(rs.Phase1, e...)
	}
	if rq.HTTP != nil {
		rs.HTTP = runHTTP(global, rq.HTTP)
	}
	if rq.HTTP3 != nil {
		rs.HTTP3 = runHTTP(global, rq.HTTP3)
	}
	if rq.HTTP2 != nil {
		rs.HTTP2 = runHTTP(global, rq.HTTP2)
	}
	b, _ := json.Marshal(rs)
	fmt.Println(string(b))
}

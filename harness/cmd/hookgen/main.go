// hookgen instruments /repo/object for C20 at build time (never writes into /repo):
// it finds the package-level variables declared in object/hashtable.go (the interpreter-wide
// tables and their lock), and inserts a verifTrace event at every statement, anywhere in the
// package, that touches one of them:
//
//	AutoRead/AutoWrite <var>   before a statement reading / writing a table
//	AutoRLock/AutoLock         after acquiring, AutoRUnlock/AutoUnlock before releasing the lock
//
// Output: copies of the modified files plus a `go build -overlay` JSON.  Because the events
// follow the code, an access added or moved by a later change is still observed.
package main

import (
	"encoding/json"
	"fmt"
	"go/ast"
	"go/parser"
	"go/printer"
	"go/token"
	"os"
	"path/filepath"
	"strings"
)

var tables = map[string]bool{}
var locks = map[string]bool{}
var curFunc = ""

func main() {
	if len(os.Args) != 3 {
		fmt.Fprintln(os.Stderr, "usage: hookgen <repo>/object <outdir>")
		os.Exit(2)
	}
	dir, out := os.Args[1], os.Args[2]
	os.MkdirAll(out, 0o755)
	fset := token.NewFileSet()
	pkgs, err := parser.ParseDir(fset, dir, func(fi os.FileInfo) bool {
		return !strings.HasSuffix(fi.Name(), "_test.go") && !strings.HasPrefix(fi.Name(), "verif_")
	}, parser.ParseComments)
	if err != nil {
		fmt.Fprintln(os.Stderr, err)
		os.Exit(2)
	}
	pkg := pkgs["object"]
	if pkg == nil {
		fmt.Fprintln(os.Stderr, "package object not found")
		os.Exit(2)
	}
	// package-level vars of hashtable.go
	for name, f := range pkg.Files {
		if filepath.Base(name) != "hashtable.go" {
			continue
		}
		for _, d := range f.Decls {
			gd, ok := d.(*ast.GenDecl)
			if !ok || gd.Tok != token.VAR {
				continue
			}
			for _, s := range gd.Specs {
				vs := s.(*ast.ValueSpec)
				isLock := false
				if vs.Type != nil {
					if se, ok := vs.Type.(*ast.SelectorExpr); ok && strings.Contains(se.Sel.Name, "Mutex") {
						isLock = true
					}
				}
				for _, n := range vs.Names {
					if isLock {
						locks[n.Name] = true
					} else {
						tables[n.Name] = true
					}
				}
			}
		}
	}
	overlay := map[string]string{}
	sites := 0
	for name, f := range pkg.Files {
		n := 0
		for _, d := range f.Decls {
			fd, ok := d.(*ast.FuncDecl)
			if !ok || fd.Body == nil {
				continue
			}
			curFunc = fd.Name.Name
			n += instrumentBlock(fd.Body)
		}
		if n == 0 {
			continue
		}
		sites += n
		dst := filepath.Join(out, filepath.Base(name))
		fh, err := os.Create(dst)
		if err != nil {
			fmt.Fprintln(os.Stderr, err)
			os.Exit(2)
		}
		// drop positions so the printer lays the new statements out on their own lines
		if err := printer.Fprint(fh, token.NewFileSet(), f); err != nil {
			fmt.Fprintln(os.Stderr, err)
			os.Exit(2)
		}
		fh.Close()
		abs, _ := filepath.Abs(name)
		overlay[abs] = dst
	}
	js, _ := json.Marshal(map[string]any{"Replace": overlay})
	os.WriteFile(filepath.Join(out, "overlay.json"), js, 0o644)
	var tn, ln []string
	for k := range tables {
		tn = append(tn, k)
	}
	for k := range locks {
		ln = append(ln, k)
	}
	fmt.Printf("{\"sites\": %d, \"tables\": %q, \"locks\": %q, \"files\": %d}\n", sites, strings.Join(tn, ","), strings.Join(ln, ","), len(overlay))
}

func trace(ev, key string) ast.Stmt {
	return &ast.ExprStmt{X: traceCall(ev, key)}
}

func traceCall(ev, key string) *ast.CallExpr {
	return &ast.CallExpr{Fun: ast.NewIdent("verifTrace"), Args: []ast.Expr{
		&ast.BasicLit{Kind: token.STRING, Value: fmt.Sprintf("%q", ev)},
		&ast.BasicLit{Kind: token.STRING, Value: fmt.Sprintf("%q", key)}}}
}

// lockOp returns the method name if call is <lock>.<Method>().
func lockOp(e ast.Expr) string {
	c, ok := e.(*ast.CallExpr)
	if !ok {
		return ""
	}
	se, ok := c.Fun.(*ast.SelectorExpr)
	if !ok {
		return ""
	}
	id, ok := se.X.(*ast.Ident)
	if !ok || !locks[id.Name] {
		return ""
	}
	return se.Sel.Name
}

// access describes how the "header" of a statement (without nested blocks) touches the tables.
type access struct {
	read  map[string]bool
	write map[string]bool
}

func headerExprs(s ast.Stmt) (nodes []ast.Node) {
	switch v := s.(type) {
	case *ast.IfStmt:
		if v.Init != nil {
			nodes = append(nodes, v.Init)
		}
		nodes = append(nodes, v.Cond)
	case *ast.ForStmt:
		for _, n := range []ast.Node{v.Init, v.Cond, v.Post} {
			if n != nil && !isNilNode(n) {
				nodes = append(nodes, n)
			}
		}
	case *ast.RangeStmt:
		nodes = append(nodes, v.X)
	case *ast.SwitchStmt:
		if v.Init != nil {
			nodes = append(nodes, v.Init)
		}
		if v.Tag != nil {
			nodes = append(nodes, v.Tag)
		}
	case *ast.TypeSwitchStmt:
		if v.Init != nil {
			nodes = append(nodes, v.Init)
		}
		nodes = append(nodes, v.Assign)
	case *ast.BlockStmt, *ast.SelectStmt, *ast.LabeledStmt:
	default:
		nodes = append(nodes, s)
	}
	return
}

func isNilNode(n ast.Node) bool {
	switch v := n.(type) {
	case ast.Stmt:
		return v == nil
	case ast.Expr:
		return v == nil
	}
	return false
}

func scan(s ast.Stmt) access {
	a := access{read: map[string]bool{}, write: map[string]bool{}}
	for _, n := range headerExprs(s) {
		// writes: table[...] = v, table = v, table[...]++, delete(table, k)
		ast.Inspect(n, func(x ast.Node) bool {
			switch v := x.(type) {
			case *ast.AssignStmt:
				for _, l := range v.Lhs {
					if t := tableOf(l); t != "" {
						a.write[t] = true
					}
				}
			case *ast.IncDecStmt:
				if t := tableOf(v.X); t != "" {
					a.write[t] = true
				}
			case *ast.CallExpr:
				if id, ok := v.Fun.(*ast.Ident); ok && (id.Name == "delete" || id.Name == "clear") && len(v.Args) > 0 {
					if t := tableOf(v.Args[0]); t != "" {
						a.write[t] = true
					}
				}
			case *ast.Ident:
				if tables[v.Name] && v.Obj != nil && v.Obj.Kind == ast.Var {
					a.read[v.Name] = true
				} else if tables[v.Name] && v.Obj == nil {
					a.read[v.Name] = true
				}
			}
			return true
		})
	}
	for t := range a.write {
		delete(a.read, t)
	}
	return a
}

func tableOf(e ast.Expr) string {
	switch v := e.(type) {
	case *ast.IndexExpr:
		return tableOf(v.X)
	case *ast.Ident:
		if tables[v.Name] {
			return v.Name
		}
	case *ast.ParenExpr:
		return tableOf(v.X)
	}
	return ""
}

func instrumentList(list []ast.Stmt) ([]ast.Stmt, int) {
	var out []ast.Stmt
	n := 0
	for _, s := range list {
		n += instrumentNested(s)
		var before, after []ast.Stmt
		a := scan(s)
		for t := range a.write {
			before = append(before, trace("AutoWrite", t+"@"+curFunc))
		}
		for t := range a.read {
			before = append(before, trace("AutoRead", t+"@"+curFunc))
		}
		switch v := s.(type) {
		case *ast.ExprStmt:
			switch lockOp(v.X) {
			case "RLock":
				after = append(after, trace("AutoRLock", ""))
			case "Lock":
				after = append(after, trace("AutoLock", ""))
			case "RUnlock":
				before = append(before, trace("AutoRUnlock", ""))
			case "Unlock":
				before = append(before, trace("AutoUnlock", ""))
			}
		case *ast.DeferStmt:
			switch lockOp(v.Call) {
			case "RUnlock":
				after = append(after, &ast.DeferStmt{Call: traceCall("AutoRUnlock", "")})
			case "Unlock":
				after = append(after, &ast.DeferStmt{Call: traceCall("AutoUnlock", "")})
			}
		}
		n += len(before) + len(after)
		out = append(out, before...)
		out = append(out, s)
		out = append(out, after...)
	}
	return out, n
}

func instrumentBlock(b *ast.BlockStmt) int {
	if b == nil {
		return 0
	}
	l, n := instrumentList(b.List)
	b.List = l
	return n
}

// instrumentNested descends into the nested statement lists of s (and function literals).
func instrumentNested(s ast.Stmt) int {
	n := 0
	switch v := s.(type) {
	case *ast.BlockStmt:
		n += instrumentBlock(v)
	case *ast.IfStmt:
		n += instrumentBlock(v.Body)
		if v.Else != nil {
			if eb, ok := v.Else.(*ast.BlockStmt); ok {
				n += instrumentBlock(eb)
			} else {
				n += instrumentNested(v.Else)
			}
		}
	case *ast.ForStmt:
		n += instrumentBlock(v.Body)
	case *ast.RangeStmt:
		n += instrumentBlock(v.Body)
	case *ast.SwitchStmt:
		n += instrumentBlock(v.Body)
	case *ast.TypeSwitchStmt:
		n += instrumentBlock(v.Body)
	case *ast.SelectStmt:
		n += instrumentBlock(v.Body)
	case *ast.CaseClause:
		l, k := instrumentList(v.Body)
		v.Body = l
		n += k
	case *ast.CommClause:
		l, k := instrumentList(v.Body)
		v.Body = l
		n += k
	case *ast.LabeledStmt:
		n += instrumentNested(v.Stmt)
	}
	// function literals inside the statement header
	for _, h := range headerExprs(s) {
		ast.Inspect(h, func(x ast.Node) bool {
			if fl, ok := x.(*ast.FuncLit); ok {
				n += instrumentBlock(fl.Body)
				return false
			}
			return true
		})
	}
	return n
}

// pvworker executes requests against the real Pangaea interpreter built from
// /repo's working tree (build tag verif) and reports observations as ndjson.
//
// One request per stdin line, one response per stdout line.  All observations
// are canonical strings so that the TLA+ side and the Go side compare plain
// sequences of strings (see DESIGN.md §3.2a).
package main

import (
	"bufio"
	"bytes"
	"encoding/json"
	"fmt"
	"io"
	"os"
	"runtime"
	"runtime/debug"
	"sort"
	"strconv"
	"strings"
	"sync"
	"time"

	"github.com/Syuparn/pangaea/ast"
	"github.com/Syuparn/pangaea/di"
	"github.com/Syuparn/pangaea/evaluator"
	"github.com/Syuparn/pangaea/object"
	"github.com/Syuparn/pangaea/parser"
)

// Req is one request.
type Req struct {
	ID       string   `json:"id"`
	Mode     string   `json:"mode"` // prog (default) | tokens | parse | session | conc | surface | runsource | repl | replchunks
	Src      string   `json:"src"`
	Stdin    string   `json:"stdin"`
	Fuel     int64    `json:"fuel"`
	Depth    int64    `json:"depth"`
	Repeat   int      `json:"repeat"`   // prog: evaluate the parsed AST this many times (>=1)
	Reparse  bool     `json:"reparse"`  // prog+repeat: parse again for every repetition
	Chunks   []int    `json:"chunks"`   // tokens/parse/prog: reader chunk schedule (cycled); empty = whole
	Detail   bool     `json:"detail"`   // use fingerprints (function source, stack traces) instead of abstract canon
	Progs    []string `json:"progs"`    // session
	Embed    string   `json:"embed"`    // session: playground | evalenv | runtest
	Files    map[string]string `json:"files"` // runsource: a tree of source files (relative path -> text); Main is run as `pangaea <dir>/<Main>`
	Main     string   `json:"main"`
	Helpers  []string `json:"helpers"`
	Shared   map[string]string `json:"shared"` // session: files every program of the session can reach (path relative to the session directory -> text)  // session: per program, the source of ./helper.pangaea next to it ("" = none)
	Dir      string   `json:"dir"`      // session/runtest: scratch directory
	N        int      `json:"n"`        // conc: goroutines
	Fresh    bool     `json:"fresh"`    // prog: build a brand-new interpreter environment for this request
	DeadlineMs int    `json:"deadline_ms"`
}

// Resp is one response.
type Resp struct {
	ID     string     `json:"id"`
	Events []string   `json:"events"`
	End    string     `json:"end"`
	Steps  int64      `json:"steps,omitempty"`
	Runs   [][]string `json:"runs,omitempty"` // repeat>1: events+end of every repetition
	Extra  any        `json:"extra,omitempty"`
}

var (
	outMu    sync.Mutex
	outW     *bufio.Writer
	protoNames map[object.PanObject]string
)

func writeResp(r *Resp) {
	outMu.Lock()
	defer outMu.Unlock()
	var buf bytes.Buffer
	enc := json.NewEncoder(&buf)
	enc.SetEscapeHTML(false)
	if err := enc.Encode(r); err != nil {
		buf.Reset()
		enc.Encode(&Resp{ID: r.ID, End: "harness-error:" + err.Error()})
	}
	outW.Write(buf.Bytes())
	outW.Flush()
}

// ---------------------------------------------------------------- recorder

type recorder struct {
	mu     sync.Mutex
	events []string
}

func (r *recorder) add(e string) {
	r.mu.Lock()
	r.events = append(r.events, e)
	r.mu.Unlock()
}

// Write implements io.Writer for the interpreter's stdout; consecutive writes are merged.
func (r *recorder) Write(p []byte) (int, error) {
	r.mu.Lock()
	defer r.mu.Unlock()
	n := len(r.events)
	if n > 0 && strings.HasPrefix(r.events[n-1], "io:") {
		r.events[n-1] += string(p)
	} else {
		r.events = append(r.events, "io:"+string(p))
	}
	return len(p), nil
}

func (r *recorder) take() []string {
	r.mu.Lock()
	defer r.mu.Unlock()
	ev := r.events
	r.events = nil
	if ev == nil {
		ev = []string{}
	}
	return ev
}

// ---------------------------------------------------------------- interpreter

type interp struct {
	constEnv *object.Env
	rec      *recorder
	detail   bool
	kept     []object.PanObject // values handed to keep(x): live values of a C06 history that no variable names
	views    [][2]string        // name, fingerprint of the views handed to the current fp(...) call
	topEnv   *object.Env        // frame of the first fp() call (the top level of the history)
}

func newInterp(stdin string) *interp {
	return newInterpIO(stdin, true)
}

// newInterpIO with inject == false prepares the constants WITHOUT an IO object, as web/wasm/executor.go does (IO is injected when a
// source is evaluated): the first program of a session then sees the first injection, like the first execution in the playground
func newInterpIO(stdin string, inject bool) *interp {
	it := &interp{rec: &recorder{}}
	env := object.NewEnvWithConsts()
	if inject {
		env.InjectIO(strings.NewReader(stdin), it.rec)
	}
	di.InjectBuiltInProps(env)
	env.InjectFrom(object.BuiltInKernelObj)
	it.constEnv = env
	it.injectProbes()
	return it
}

func (it *interp) setIO(stdin string) {
	it.constEnv.InjectIO(strings.NewReader(stdin), it.rec)
}

func (it *interp) injectProbes() {
	say := func(env *object.Env, kwargs *object.PanObj, args ...object.PanObject) object.PanObject {
		if len(args) == 0 {
			it.rec.add("out:")
			return object.BuiltInNil
		}
		it.rec.add("out:" + it.show(args[0]))
		return args[0]
	}
	probe := func(env *object.Env, kwargs *object.PanObj, args ...object.PanObject) object.PanObject {
		k := ""
		if len(args) > 0 {
			k = it.show(args[0])
		}
		it.rec.add("probe:" + k + "|" + it.frames(env))
		return object.BuiltInNil
	}
	snapshot := func(env *object.Env) {
		// fingerprints of every variable of the top-level frame and of every kept value (C06 / C19)
		type kv struct{ k, v string }
		var kvs []kv
		for h, v := range env.Store {
			s, ok := object.SymHash2Str(h)
			if !ok {
				continue
			}
			kvs = append(kvs, kv{s.(*object.PanStr).Value, fingerprint(v, 0)})
		}
		sort.Slice(kvs, func(i, j int) bool { return kvs[i].k < kvs[j].k })
		parts := make([]string, 0, len(kvs)+len(it.kept))
		for _, x := range kvs {
			parts = append(parts, x.k+"="+x.v)
		}
		for i, v := range it.kept {
			if v != nil {
				parts = append(parts, "#k"+strconv.Itoa(i+1)+"="+fingerprint(v, 0))
			}
		}
		sort.Slice(it.views, func(i, j int) bool { return it.views[i][0] < it.views[j][0] })
		for _, v := range it.views {
			parts = append(parts, "#v"+v[0]+"="+v[1])
		}
		it.rec.add("fp:" + strings.Join(parts, "\x1f"))
	}
	fp := func(env *object.Env, kwargs *object.PanObj, args ...object.PanObject) object.PanObject {
		if it.topEnv == nil {
			it.topEnv = env
		}
		// fp({name: view, ...}): views of live values computed by the program itself (through the interpreter's own
		// accessors) are live values of the snapshot too
		if len(args) > 0 {
			if o, ok := args[0].(*object.PanObj); ok && o.Pairs != nil {
				it.views = nil
				for _, p := range *o.Pairs {
					it.views = append(it.views, [2]string{keyText(p.Key), fingerprint(p.Value, 0)})
				}
			}
		}
		snapshot(it.topEnv) // the views stay: a keep(x) snapshot repeats the ones computed last
		return object.BuiltInNil
	}
	// keep(x): x becomes a live value of the history at this very moment (in the middle of an evaluation),
	// a snapshot of all live values is recorded, x is returned
	keep := func(env *object.Env, kwargs *object.PanObj, args ...object.PanObject) object.PanObject {
		if len(args) == 0 {
			return object.BuiltInNil
		}
		it.kept = append(it.kept, args[0])
		if it.topEnv != nil {
			snapshot(it.topEnv)
		}
		return args[0]
	}
	it.constEnv.Set(object.GetSymHash("fp"), object.NewPanBuiltInFunc(fp))
	it.constEnv.Set(object.GetSymHash("keep"), object.NewPanBuiltInFunc(keep))
	it.constEnv.Set(object.GetSymHash("say"), object.NewPanBuiltInFunc(say))
	it.constEnv.Set(object.GetSymHash("probe"), object.NewPanBuiltInFunc(probe))
}

func (it *interp) show(o object.PanObject) string {
	if it.detail {
		return fingerprint(o, 0)
	}
	return canon(o, 0)
}

// frames renders the variable frames from the caller's frame outwards, up to
// (excluding) the constant environment.
func (it *interp) frames(env *object.Env) string {
	var fs []string
	for e := env; e != nil && e != it.constEnv; e = e.Outer() {
		fs = append(fs, it.frame(e))
	}
	return strings.Join(fs, "|")
}

func (it *interp) frame(e *object.Env) string {
	type kv struct{ k, v string }
	var kvs []kv
	for h, v := range e.Store {
		s, ok := object.SymHash2Str(h)
		if !ok {
			continue
		}
		name := s.(*object.PanStr).Value
		if strings.HasPrefix(name, `\`) || name == "recur" {
			continue
		}
		kvs = append(kvs, kv{name, it.show(v)})
	}
	sort.Slice(kvs, func(i, j int) bool { return kvs[i].k < kvs[j].k })
	parts := make([]string, len(kvs))
	for i, x := range kvs {
		parts[i] = x.k + "=" + x.v
	}
	return strings.Join(parts, ",")
}

// ---------------------------------------------------------------- canonical rendering

func initProtoNames() {
	protoNames = map[object.PanObject]string{}
	env := object.NewEnvWithConsts()
	for h, v := range env.Store {
		s, ok := object.SymHash2Str(h)
		if !ok {
			continue
		}
		name := s.(*object.PanStr).Value
		if _, isObj := v.(*object.PanObj); isObj {
			protoNames[v] = name
		}
	}
}

func protoSuffix(p object.PanObject, def object.PanObject, depth int, f func(object.PanObject, int) string) string {
	if p == def {
		return ""
	}
	if p == nil {
		return "^<nilproto>"
	}
	return "^" + f(p, depth+1)
}

const maxCanonDepth = 12

func canon(o object.PanObject, depth int) string          { return render(o, depth, false) }
func fingerprint(o object.PanObject, depth int) string    { return render(o, depth, true) }

func render(o object.PanObject, depth int, detail bool) string {
	rec := func(x object.PanObject, d int) string { return render(x, d, detail) }
	if o == nil {
		return "<gonil>"
	}
	if depth > maxCanonDepth {
		return "<deep>"
	}
	switch v := o.(type) {
	case *object.PanInt:
		return strconv.FormatInt(v.Value, 10) + protoSuffix(v.Proto(), object.BuiltInIntObj, depth, rec)
	case *object.PanFloat:
		return floatText(v.Value) + protoSuffix(v.Proto(), object.BuiltInFloatObj, depth, rec)
	case *object.PanStr:
		return strconv.Quote(v.Value) + protoSuffix(v.Proto(), object.BuiltInStrObj, depth, rec)
	case *object.PanBool:
		if v.Value {
			return "true"
		}
		return "false"
	case *object.PanNil:
		return "nil" + protoSuffix(v.Proto(), object.BuiltInNilObj, depth, rec)
	case *object.PanArr:
		parts := make([]string, len(v.Elems))
		for i, e := range v.Elems {
			parts[i] = rec(e, depth+1)
		}
		return "[" + strings.Join(parts, ", ") + "]" + protoSuffix(v.Proto(), object.BuiltInArrObj, depth, rec)
	case *object.PanObj:
		if n, ok := protoNames[o]; ok {
			return n
		}
		var parts []string
		if v.Pairs != nil {
			if v.Keys != nil {
				for _, h := range *v.Keys {
					p := (*v.Pairs)[h]
					parts = append(parts, keyText(p.Key)+": "+rec(p.Value, depth+1))
				}
			}
			if v.PrivateKeys != nil {
				for _, h := range *v.PrivateKeys {
					p := (*v.Pairs)[h]
					parts = append(parts, keyText(p.Key)+": "+rec(p.Value, depth+1))
				}
			}
		} else {
			parts = append(parts, "<nilpairs>")
		}
		out := "{" + strings.Join(parts, ", ") + "}" + protoSuffix(v.Proto(), object.BuiltInObjObj, depth, rec)
		if detail && v.Pairs != nil {
			// everything the pairs map holds (the key lists above may be stale), and what the object prints
			var all []string
			for _, p := range *v.Pairs {
				all = append(all, keyText(p.Key)+": "+rec(p.Value, depth+1))
			}
			sort.Strings(all)
			out += "|pairs{" + strings.Join(all, ", ") + "}"
		}
		return out
	case *object.PanMap:
		var parts []string
		if v.HashKeys != nil {
			for _, h := range *v.HashKeys {
				p := (*v.Pairs)[h]
				parts = append(parts, rec(p.Key, depth+1)+": "+rec(p.Value, depth+1))
			}
		}
		if v.NonHashablePairs != nil {
			for _, p := range *v.NonHashablePairs {
				parts = append(parts, rec(p.Key, depth+1)+": "+rec(p.Value, depth+1))
			}
		}
		out := "%{" + strings.Join(parts, ", ") + "}" + protoSuffix(v.Proto(), object.BuiltInMapObj, depth, rec)
		if detail && v.Pairs != nil {
			var all []string
			for _, p := range *v.Pairs {
				all = append(all, rec(p.Key, depth+1)+": "+rec(p.Value, depth+1))
			}
			sort.Strings(all)
			out += "|pairs{" + strings.Join(all, ", ") + "}"
		}
		return out
	case *object.PanRange:
		return "(" + rec(v.Start, depth+1) + ":" + rec(v.Stop, depth+1) + ":" + rec(v.Step, depth+1) + ")" +
			protoSuffix(v.Proto(), object.BuiltInRangeObj, depth, rec)
	case *object.PanFunc:
		kind := "func"
		if v.FuncKind == object.IterFunc {
			kind = "iter"
		}
		if detail {
			out := "<" + kind + " " + v.Inspect() + ">"
			// the function's own frame (what its literal's scope holds besides the enclosing scopes): calls bind their arguments in
			// a copy, so for a plain function it never changes; an iterator's frame is the state next / recur advance
			if v.FuncKind != object.IterFunc && v.Env != nil {
				if items, ok := v.Env.Items().(*object.PanObj); ok && items.Pairs != nil {
					var all []string
					for _, p := range *items.Pairs {
						all = append(all, keyText(p.Key)+": "+rec(p.Value, depth+3))
					}
					sort.Strings(all)
					out += "|frame{" + strings.Join(all, ", ") + "}"
				}
			}
			return out
		}
		return "<" + kind + ">"
	case *object.PanErrWrapper:
		s := "<err " + string(v.ErrKind) + ": " + v.Msg
		if detail {
			s += " @" + strconv.Quote(v.StackTrace)
		}
		return s + ">"
	case *object.PanErr:
		s := "<RAISED " + string(v.ErrKind) + ": " + v.Msg
		if detail {
			s += " @" + strconv.Quote(v.StackTrace)
		}
		return s + ">"
	case *object.PanBuiltIn:
		return "<builtin>"
	case *object.PanBuiltInIter:
		return "<builtiniter>"
	case *object.PanIO:
		return "<io>"
	case *object.PanMatch:
		if detail {
			return "<match " + v.Inspect() + ">"
		}
		return "<match>"
	}
	return "<" + string(o.Type()) + ">"
}

func keyText(k object.PanObject) string {
	if s, ok := k.(*object.PanStr); ok {
		return s.Value
	}
	return "<key " + string(k.Type()) + ">"
}

func floatText(f float64) string {
	s := strconv.FormatFloat(f, 'f', -1, 64)
	if !strings.ContainsAny(s, ".NI") {
		s += ".0"
	}
	return s
}

// ---------------------------------------------------------------- evaluation

type chunkReader struct {
	data        []byte
	chunks      []int
	i           int
	eofWithData bool // the final read returns its bytes together with io.EOF (allowed by io.Reader, done by http bodies)
	emptyReads  bool // every other read returns (0, nil) (allowed by io.Reader)
	calls       int
}

func (c *chunkReader) Read(p []byte) (int, error) {
	c.calls++
	if len(c.data) == 0 {
		return 0, io.EOF
	}
	if c.emptyReads && c.calls%2 == 0 {
		return 0, nil
	}
	n := len(p)
	if len(c.chunks) > 0 {
		k := c.chunks[c.i%len(c.chunks)]
		c.i++
		if k < 1 {
			k = 1
		}
		if k < n {
			n = k
		}
	}
	if n > len(c.data) {
		n = len(c.data)
	}
	copy(p, c.data[:n])
	c.data = c.data[n:]
	if c.eofWithData && len(c.data) == 0 {
		return n, io.EOF
	}
	return n, nil
}

// srcReader: chunks is the read-size schedule (cycled); an entry 0 asks for "last bytes together with io.EOF", an entry -1 for empty reads in between
func srcReader(src string, chunks []int) io.Reader {
	if len(chunks) == 0 {
		return strings.NewReader(src)
	}
	r := &chunkReader{data: []byte(src)}
	for _, k := range chunks {
		switch {
		case k == 0:
			r.eofWithData = true
		case k < 0:
			r.emptyReads = true
		default:
			r.chunks = append(r.chunks, k)
		}
	}
	return r
}

func parseSrc(src string, chunks []int) (prog *ast.Program, err error, panicText string) {
	defer func() {
		if e := recover(); e != nil {
			panicText = fmt.Sprintf("%v", e)
		}
	}()
	prog, err = parser.Parse(parser.NewReader(srcReader(src, chunks), "<verif>"))
	return
}

func endOf(it *interp, v object.PanObject) string {
	if e, ok := v.(*object.PanErr); ok {
		s := "err:" + string(e.ErrKind) + ":" + e.Msg
		if it.detail {
			s += "\n@" + e.StackTrace
		}
		return s
	}
	return "val:" + it.show(v)
}

// evalNode evaluates node in env with fuel; never panics.
func evalNode(it *interp, node ast.Node, env *object.Env, fuel, depth int64) (end string) {
	defer func() {
		if e := recover(); e != nil {
			if f, ok := e.(evaluator.VerifFuel); ok {
				end = "fuel:" + f.Why
				return
			}
			end = "panic:" + firstLines(fmt.Sprintf("%v", e), 3) + " @ " + panicSite()
		}
	}()
	evaluator.VerifSetFuel(fuel, depth)
	v := evaluator.Eval(node, env)
	return endOf(it, v)
}

func firstLines(s string, n int) string {
	ls := strings.Split(s, "\n")
	if len(ls) > n {
		ls = ls[:n]
	}
	return strings.Join(ls, " / ")
}

// panicSite returns the innermost repository frames of the panicking stack.
func panicSite() string {
	buf := make([]byte, 1<<16)
	n := runtime.Stack(buf, false)
	var sites []string
	for _, l := range strings.Split(string(buf[:n]), "\n") {
		l = strings.TrimSpace(l)
		// frames of the repository under test, wherever it is checked out
		for _, pkg := range []string{"/evaluator/", "/props/", "/object/", "/parser/", "/di/", "/runscript/", "/third_party/simplexer/", "/native/", "/ast/"} {
			if i := strings.Index(l, pkg); i >= 0 && strings.HasPrefix(l, "/") && !strings.Contains(l, "/harness/") {
				l = l[i+1:]
				if j := strings.Index(l, " +"); j > 0 {
					l = l[:j]
				}
				sites = append(sites, l)
				break
			}
		}
		if len(sites) >= 3 {
			break
		}
	}
	return strings.Join(sites, " < ")
}

func defaults(rq *Req) {
	if rq.Fuel == 0 {
		rq.Fuel = 2000000
	}
	if rq.Depth == 0 {
		rq.Depth = 400
	}
	if rq.Repeat < 1 {
		rq.Repeat = 1
	}
}

var shared *interp

func getInterp(rq *Req) *interp {
	if rq.Fresh {
		it := newInterp(rq.Stdin)
		it.detail = rq.Detail
		return it
	}
	if shared == nil {
		shared = newInterp("")
	}
	shared.detail = rq.Detail
	shared.setIO(rq.Stdin)
	shared.rec.take()
	return shared
}

func doProg(rq *Req) *Resp {
	defaults(rq)
	it := getInterp(rq)
	resp := &Resp{ID: rq.ID}
	var prog *ast.Program
	for i := 0; i < rq.Repeat; i++ {
		if prog == nil || rq.Reparse {
			p, err, ptxt := parseSrc(rq.Src, rq.Chunks)
			if ptxt != "" {
				resp.Events, resp.End = it.rec.take(), "panic:parse:"+firstLines(ptxt, 2)
				return resp
			}
			if err != nil {
				resp.Events, resp.End = it.rec.take(), "syntax"
				if rq.Detail {
					resp.End = "syntax:" + err.Error()
				}
				return resp
			}
			prog = p
		}
		if i > 0 {
			it.setIO(rq.Stdin)
		}
		env := object.NewEnclosedEnv(it.constEnv)
		it.kept, it.views, it.topEnv = nil, nil, env
		end := evalNode(it, prog, env, rq.Fuel, rq.Depth)
		ev := it.rec.take()
		if i == 0 {
			resp.Events, resp.End = ev, end
			resp.Steps = evaluator.VerifStepsUsed()
		}
		if rq.Repeat > 1 {
			resp.Runs = append(resp.Runs, append(ev, end))
		}
	}
	return resp
}

func doTokens(rq *Req) *Resp {
	resp := &Resp{ID: rq.ID, Events: []string{}}
	func() {
		defer func() {
			if e := recover(); e != nil {
				resp.End = "panic:" + firstLines(fmt.Sprintf("%v", e), 2)
			}
		}()
		toks, err := parser.VerifTokens(srcReader(rq.Src, rq.Chunks), "<verif>")
		for _, t := range toks {
			resp.Events = append(resp.Events, t.Name+"|"+strconv.Itoa(t.Line)+"|"+strconv.Itoa(t.Col)+"|"+t.Literal)
		}
		if err != nil {
			resp.End = "lexerr"
			if rq.Detail {
				resp.End = "lexerr:" + err.Error()
			}
		} else {
			resp.End = "ok"
		}
	}()
	return resp
}

func doParse(rq *Req) *Resp {
	resp := &Resp{ID: rq.ID, Events: []string{}}
	p, err, ptxt := parseSrc(rq.Src, rq.Chunks)
	switch {
	case ptxt != "":
		resp.End = "panic:parse:" + firstLines(ptxt, 2)
	case err != nil:
		resp.End = "syntax"
		if rq.Detail {
			resp.End = "syntax:" + err.Error()
		}
	default:
		func() {
			defer func() {
				if e := recover(); e != nil {
					resp.End = "panic:string:" + firstLines(fmt.Sprintf("%v", e), 2)
				}
			}()
			resp.End = "ast:" + p.String()
		}()
	}
	return resp
}

// ---------------------------------------------------------------- main loop

func handle(rq *Req) *Resp {
	switch rq.Mode {
	case "", "prog":
		return doProg(rq)
	case "tokens":
		return doTokens(rq)
	case "parse":
		return doParse(rq)
	case "session":
		return doSession(rq)
	case "conc":
		return doConc(rq)
	case "surface":
		return doSurface(rq)
	case "runsource":
		return doRunSource(rq)
	case "repl":
		return doRepl(rq)
	case "replchunks":
		return doReplChunks(rq)
	}
	return &Resp{ID: rq.ID, End: "harness-error:unknown mode " + rq.Mode}
}

func main() {
	debug.SetMaxStack(512 << 20)
	outW = bufio.NewWriterSize(os.Stdout, 1<<20)
	initProtoNames()
	go memWatchdog()

	in := bufio.NewReaderSize(os.Stdin, 1<<20)
	for {
		line, err := in.ReadBytes('\n')
		if len(strings.TrimSpace(string(line))) > 0 {
			var rq Req
			if jerr := json.Unmarshal(line, &rq); jerr != nil {
				writeResp(&Resp{ID: "?", End: "harness-error:bad request: " + jerr.Error()})
			} else {
				runWithDeadline(&rq)
			}
		}
		if err != nil {
			break
		}
	}
}

func runWithDeadline(rq *Req) {
	ms := rq.DeadlineMs
	if ms <= 0 {
		ms = 10000
	}
	done := make(chan struct{})
	go func() {
		select {
		case <-done:
		case <-time.After(time.Duration(ms) * time.Millisecond):
			writeResp(&Resp{ID: rq.ID, Events: []string{}, End: "discarded:timeout"})
			os.Exit(3)
		}
	}()
	resp := handle(rq)
	close(done)
	if resp.Events == nil {
		resp.Events = []string{}
	}
	writeResp(resp)
}

func memWatchdog() {
	var ms runtime.MemStats
	for {
		time.Sleep(200 * time.Millisecond)
		runtime.ReadMemStats(&ms)
		if ms.HeapAlloc > 3<<30 {
			fmt.Fprintln(os.Stderr, "pvworker: heap limit exceeded")
			os.Exit(4)
		}
	}
}

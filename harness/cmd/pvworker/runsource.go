package main

import (
	"bytes"
	"fmt"
	"io"
	"os"
	"strings"

	"github.com/Syuparn/pangaea/evaluator"
	"github.com/Syuparn/pangaea/runscript"
)

// doRunSource runs the program through runscript.RunSource, the path of `pangaea file` / `pangaea -e`:
// observation = exit status, stdout, stderr (or the recovered host panic).
func doRunSource(rq *Req) (resp *Resp) {
	defaults(rq)
	resp = &Resp{ID: rq.ID, Events: []string{}}
	var out bytes.Buffer
	oldErr := os.Stderr
	r, w, _ := os.Pipe()
	os.Stderr = w
	errCh := make(chan string)
	go func() { b, _ := io.ReadAll(r); errCh <- string(b) }()
	func() {
		defer func() {
			if e := recover(); e != nil {
				if f, ok := e.(evaluator.VerifFuel); ok {
					resp.End = "fuel:" + f.Why
					return
				}
				resp.End = "panic:" + firstLines(fmt.Sprintf("%v", e), 3) + " @ " + panicSite()
			}
		}()
		evaluator.VerifSetFuel(rq.Fuel, rq.Depth)
		code := runscript.RunSource(rq.Src, "<verif>", strings.NewReader(rq.Stdin), &out)
		resp.End = fmt.Sprintf("exit:%d", code)
	}()
	w.Close()
	os.Stderr = oldErr
	stderr := <-errCh
	resp.Events = []string{"io:" + out.String(), "stderr:" + stderr}
	return resp
}

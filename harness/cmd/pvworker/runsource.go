package main

import (
	"bytes"
	"fmt"
	"io"
	"os"
	"path/filepath"
	"strings"

	"github.com/Syuparn/pangaea/evaluator"
	"github.com/Syuparn/pangaea/runscript"
)

// doRunSource runs the program through runscript.RunSource, the path of `pangaea file` / `pangaea -e`:
// observation = exit status, stdout, stderr (or the recovered host panic).
func doRunSource(rq *Req) (resp *Resp) {
	defaults(rq)
	resp = &Resp{ID: rq.ID, Events: []string{}}
	var out bytes.Buffer
	dir := ""
	if len(rq.Files) > 0 {
		d, err := os.MkdirTemp("", "pvtree")
		if err != nil {
			return &Resp{ID: rq.ID, End: "harness-error:" + err.Error()}
		}
		dir = d
		defer os.RemoveAll(dir)
	}
	oldErr := os.Stderr
	r, w, _ := os.Pipe()
	os.Stderr = w
	errCh := make(chan string)
	go func() { b, _ := io.ReadAll(r); errCh <- string(b) }()
	func() {
		defer func() {
			if e := recover(); e != nil {
				if f, ok := e.(evaluator.VerifFuel); ok {
					resp.End = "fuel:" + f.Why
					return
				}
				resp.End = "panic:" + firstLines(fmt.Sprintf("%v", e), 3) + " @ " + panicSite()
			}
		}()
		evaluator.VerifSetFuel(rq.Fuel, rq.Depth)
		src, name := rq.Src, "<verif>"
		if len(rq.Files) > 0 {
			for rel, text := range rq.Files {
				os.MkdirAll(filepath.Dir(filepath.Join(dir, rel)), 0o755)
				os.WriteFile(filepath.Join(dir, rel), []byte(text), 0o644)
			}
			if rq.Main != "" {
				name = filepath.Join(dir, rq.Main)
				src = rq.Files[rq.Main]
			} else {
				// a one-liner (`pangaea -e src`) started in the directory of the files: no source path, relative paths resolve against the cwd
				name = "<string>"
				if wd, err := os.Getwd(); err == nil {
					defer os.Chdir(wd)
				}
				os.Chdir(dir)
			}
		}
		code := runscript.RunSource(src, name, strings.NewReader(rq.Stdin), &out)
		resp.End = fmt.Sprintf("exit:%d", code)
	}()
	w.Close()
	os.Stderr = oldErr
	stderr := <-errCh
	o, e := out.String(), stderr
	if dir != "" {
		o, e = strings.ReplaceAll(o, dir, "<dir>"), strings.ReplaceAll(e, dir, "<dir>")
	}
	resp.Events = []string{"io:" + o, "stderr:" + e}
	return resp
}

package main

import (
	"sort"

	"github.com/Syuparn/pangaea/object"
)

// doSurface lists, for every built-in object of the constant scope, its own property names
// (public and private) after start-up, plus a fingerprint of each property value.
func doSurface(rq *Req) *Resp {
	it := newInterp("")
	type entry struct {
		Name  string            `json:"name"`
		Props []string          `json:"props"`
		Kinds map[string]string `json:"kinds"`
	}
	var out []entry
	for h, v := range it.constEnv.Store {
		s, ok := object.SymHash2Str(h)
		if !ok {
			continue
		}
		o, isObj := v.(*object.PanObj)
		if !isObj || o.Pairs == nil {
			continue
		}
		e := entry{Name: s.(*object.PanStr).Value, Kinds: map[string]string{}}
		for _, p := range *o.Pairs {
			k, ok := p.Key.(*object.PanStr)
			if !ok {
				continue
			}
			e.Props = append(e.Props, k.Value)
			e.Kinds[k.Value] = string(p.Value.Type())
		}
		sort.Strings(e.Props)
		out = append(out, e)
	}
	sort.Slice(out, func(i, j int) bool { return out[i].Name < out[j].Name })
	return &Resp{ID: rq.ID, End: "ok", Extra: out}
}

package main

import (
	"sort"

	"github.com/Syuparn/pangaea/evaluator"

	"github.com/Syuparn/pangaea/object"
)

// doSurface lists, for every built-in object of the constant scope, its own property names
// (public and private) after start-up, plus a fingerprint of each property value.
func doSurface(rq *Req) *Resp {
	it := newInterp("")
	type entry struct {
		Name  string            `json:"name"`
		Props []string          `json:"props"`
		Kinds map[string]string `json:"kinds"`
	}
	var out []entry
	for h, v := range it.constEnv.Store {
		s, ok := object.SymHash2Str(h)
		if !ok {
			continue
		}
		o, isObj := v.(*object.PanObj)
		if !isObj || o.Pairs == nil {
			continue
		}
		e := entry{Name: s.(*object.PanStr).Value, Kinds: map[string]string{}}
		for _, p := range *o.Pairs {
			k, ok := p.Key.(*object.PanStr)
			if !ok {
				continue
			}
			e.Props = append(e.Props, k.Value)
			e.Kinds[k.Value] = string(p.Value.Type())
		}
		sort.Strings(e.Props)
		out = append(out, e)
	}
	sort.Slice(out, func(i, j int) bool { return out[i].Name < out[j].Name })
	// reachable property names of arbitrary receiver expressions (rq.Progs): own pairs along the prototype chain
	var reach [][]string
	for _, src := range rq.Progs {
		names := map[string]bool{}
		prog, err, ptxt := parseSrc(src, nil)
		if err == nil && ptxt == "" {
			func() {
				defer func() { recover() }()
				v := evaluator.Eval(prog, object.NewEnclosedEnv(it.constEnv))
				for o, depth := v, 0; o != nil && depth < 20; o, depth = o.Proto(), depth+1 {
					if po, ok := o.(*object.PanObj); ok && po.Pairs != nil {
						for _, p := range *po.Pairs {
							if k, ok := p.Key.(*object.PanStr); ok {
								names[k.Value] = true
							}
						}
					}
					if o == object.BuiltInBaseObj {
						break
					}
				}
			}()
		}
		var ns []string
		for n := range names {
			ns = append(ns, n)
		}
		sort.Strings(ns)
		reach = append(reach, ns)
	}
	return &Resp{ID: rq.ID, End: "ok", Extra: map[string]any{"builtins": out, "reach": reach}}
}

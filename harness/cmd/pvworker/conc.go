package main

import (
	"bytes"
	"fmt"
	"runtime"
	"strconv"
	"strings"
	"sync"

	"github.com/Syuparn/pangaea/evaluator"
	"github.com/Syuparn/pangaea/object"
)

type lockEvent struct {
	g   int64
	ev  string
	key string
}

func goid() int64 {
	var buf [64]byte
	n := runtime.Stack(buf[:], false)
	f := bytes.Fields(buf[:n])
	if len(f) < 2 {
		return -1
	}
	id, _ := strconv.ParseInt(string(f[1]), 10, 64)
	return id
}

// doConc records the lock / table-access events (emitted by the auto-instrumented object package,
// see cmd/hookgen) of (a) interpreter start-up, which loads the native sources on 19 goroutines, and
// (b) rq.N goroutines evaluating rq.Progs (round-robin) in separate scopes of that one interpreter.
func doConc(rq *Req) *Resp {
	var mu sync.Mutex
	var events []lockEvent
	object.VerifTracer = func(ev string, key string) {
		if !strings.HasPrefix(ev, "Auto") {
			return
		}
		g := goid()
		mu.Lock()
		events = append(events, lockEvent{g, ev, key})
		mu.Unlock()
	}
	defer func() { object.VerifTracer = nil }()
	evaluator.VerifSetFuel(0, 0)

	it := newInterp("")
	mu.Lock()
	startupN := len(events)
	mu.Unlock()

	n := rq.N
	if n < 1 {
		n = 4
	}
	var wg sync.WaitGroup
	ends := make([][]string, n)
	for g := 0; g < n; g++ {
		wg.Add(1)
		go func(g int) {
			defer wg.Done()
			defer func() {
				if e := recover(); e != nil {
					ends[g] = append(ends[g], "panic:"+firstLines(fmt.Sprintf("%v", e), 2))
				}
			}()
			for i := g; i < len(rq.Progs); i += n {
				prog, err, ptxt := parseSrc(rq.Progs[i], nil)
				if err != nil || ptxt != "" {
					ends[g] = append(ends[g], "syntax")
					continue
				}
				env := object.NewEnclosedEnv(it.constEnv)
				v := evaluator.Eval(prog, env)
				ends[g] = append(ends[g], endOf(it, v))
			}
		}(g)
	}
	wg.Wait()
	mu.Lock()
	defer mu.Unlock()
	ids := map[int64]int{}
	render := func(evs []lockEvent) []string {
		out := make([]string, len(evs))
		for i, e := range evs {
			k, ok := ids[e.g]
			if !ok {
				k = len(ids) + 1
				ids[e.g] = k
			}
			out[i] = strconv.Itoa(k) + " " + e.ev + " " + e.key
		}
		return out
	}
	startup := render(events[:startupN])
	nStartupProcs := len(ids)
	run := render(events[startupN:])
	var flat []string
	for _, e := range ends {
		flat = append(flat, e...)
	}
	return &Resp{ID: rq.ID, Events: flat, End: "ok", Extra: map[string]any{
		"startup": startup, "startup_procs": nStartupProcs, "run": run, "procs": len(ids)}}
}

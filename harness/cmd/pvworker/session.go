package main

import (
	"bytes"
	"crypto/sha1"
	"encoding/hex"
	"fmt"
	"io"
	"os"
	"path/filepath"
	"sort"
	"strings"

	"github.com/Syuparn/pangaea/object"
	"github.com/Syuparn/pangaea/runscript"
)

// sharedProjection fingerprints the interpreter-wide state a fresh evaluation may depend on: every built-in object
// of the constant scope (own keys and values, functions by source) and the shared `_` error (message and stack trace).
// The symbol table is excluded on purpose (interning is allowed).
func sharedProjection(it *interp) string {
	var parts []string
	for h, v := range it.constEnv.Store {
		s, ok := object.SymHash2Str(h)
		if !ok {
			continue
		}
		name := s.(*object.PanStr).Value
		if name == "IO" || name == "say" || name == "probe" || name == "fp" {
			continue
		}
		switch o := v.(type) {
		case *object.PanObj:
			var ps []string
			if o.Pairs != nil {
				for _, p := range *o.Pairs {
					ps = append(ps, keyText(p.Key)+"="+fingerprint(p.Value, 3))
				}
			}
			sort.Strings(ps)
			parts = append(parts, name+"{"+strings.Join(ps, ";")+"}")
		case *object.PanErr:
			parts = append(parts, name+"!"+string(o.ErrKind)+":"+o.Msg+"@"+o.StackTrace)
		default:
			parts = append(parts, name+"="+fingerprint(v, 3))
		}
	}
	sort.Strings(parts)
	sum := sha1.Sum([]byte(strings.Join(parts, "\n")))
	return hex.EncodeToString(sum[:8])
}

// doSession evaluates rq.Progs one after the other, each in a fresh scope of ONE interpreter, under the embedding
// rq.Embed, and reports per program what a user observes (output, value or error message, stack trace) and the
// shared-state projection after it.
func doSession(rq *Req) *Resp {
	defaults(rq)
	resp := &Resp{ID: rq.ID, Events: []string{}, End: "ok"}
	var obs, shared []string
	switch rq.Embed {
	case "", "playground", "evalenv":
		it := newInterpIO("", false)
		it.detail = true
		shared = append(shared, sharedProjection(it))
		dir := ""
		for i, src := range rq.Progs {
			it.setIO(rq.Stdin)
			it.rec.take()
			env := object.NewEnclosedEnv(it.constEnv)
			if i < len(rq.Helpers) && rq.Helpers[i] != "" {
				// the program is a file main.pangaea in a directory of its own, next to helper.pangaea
				if dir == "" {
					d, err := os.MkdirTemp("", "pvsession")
					if err != nil {
						return &Resp{ID: rq.ID, End: "harness-error:" + err.Error()}
					}
					dir = d
					defer os.RemoveAll(dir)
				}
				for rel, text := range rq.Shared {
					os.MkdirAll(filepath.Dir(filepath.Join(dir, rel)), 0o755)
					os.WriteFile(filepath.Join(dir, rel), []byte(text), 0o644)
				}
				sub := filepath.Join(dir, fmt.Sprintf("t%02d", i))
				os.MkdirAll(sub, 0o755)
				os.WriteFile(filepath.Join(sub, "helper.pangaea"), []byte(rq.Helpers[i]), 0o644)
				env.SetSourceFilePath(filepath.Join(sub, "main.pangaea"))
			}
			text := src
			if rq.Embed == "evalenv" {
				text = "`" + src + "`.evalEnv"
			}
			prog, err, ptxt := parseSrc(text, nil)
			var end string
			switch {
			case ptxt != "":
				end = "panic:parse:" + firstLines(ptxt, 2)
			case err != nil:
				end = "syntax:" + err.Error()
			default:
				end = evalNode(it, prog, env, rq.Fuel, rq.Depth)
			}
			ev := it.rec.take()
			o := strings.Join(ev, "\x1e") + "\x1d" + end
			if dir != "" {
				o = strings.ReplaceAll(o, dir, "<dir>")
			}
			obs = append(obs, o)
			shared = append(shared, sharedProjection(it))
		}
	case "runtest":
		// the real `pangaea test` driver over a directory of files (one interpreter, one scope per file)
		dir, err := os.MkdirTemp("", "pvsession")
		if err != nil {
			return &Resp{ID: rq.ID, End: "harness-error:" + err.Error()}
		}
		defer os.RemoveAll(dir)
		// every program is the test file of a directory of its own (the driver walks them in order), next to its helper
		for i, src := range rq.Progs {
			sub := filepath.Join(dir, fmt.Sprintf("t%02d", i))
			os.MkdirAll(sub, 0o755)
			os.WriteFile(filepath.Join(sub, fmt.Sprintf("t%02d_test.pangaea", i)), []byte(src), 0o644)
			if i < len(rq.Helpers) && rq.Helpers[i] != "" {
				os.WriteFile(filepath.Join(sub, "helper.pangaea"), []byte(rq.Helpers[i]), 0o644)
			}
		}
		var out bytes.Buffer
		oldErr := os.Stderr
		r, w, _ := os.Pipe()
		os.Stderr = w
		errCh := make(chan string)
		go func() { b, _ := io.ReadAll(r); errCh <- string(b) }()
		code := runscript.RunTest(dir, strings.NewReader(rq.Stdin), &out)
		w.Close()
		os.Stderr = oldErr
		stderr := <-errCh
		// split the driver's output per file
		text := strings.ReplaceAll(out.String(), dir, "<dir>")
		stderr = strings.ReplaceAll(stderr, dir, "<dir>")
		// one observation per program: the driver's output for the files of its directory (helper first, if any)
		chunks := strings.Split(text, "run:  ")
		last := ""
		for _, c := range chunks[1:] {
			sub := ""
			if strings.HasPrefix(c, "<dir>/t") && len(c) >= 9 {
				sub = c[:9]
			}
			if sub != "" && sub == last {
				obs[len(obs)-1] += "run:  " + c
			} else {
				obs = append(obs, c)
			}
			last = sub
		}
		if len(obs) > 0 {
			obs[len(obs)-1] += "\x1dstderr:" + stderr + fmt.Sprintf("\x1dexit:%d", code)
		}
	default:
		return &Resp{ID: rq.ID, End: "harness-error:unknown embedding " + rq.Embed}
	}
	resp.Extra = map[string]any{"obs": obs, "shared": shared}
	return resp
}

package main


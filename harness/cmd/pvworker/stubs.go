package main

func doRunSource(rq *Req) *Resp { return &Resp{ID: rq.ID, End: "harness-error:not implemented"} }

package main

func doSession(rq *Req) *Resp   { return &Resp{ID: rq.ID, End: "harness-error:not implemented"} }
func doRunSource(rq *Req) *Resp { return &Resp{ID: rq.ID, End: "harness-error:not implemented"} }

package main

import (
	"bytes"
	"fmt"
	"strings"

	"github.com/Syuparn/pangaea/di"
	"github.com/Syuparn/pangaea/evaluator"
	"github.com/Syuparn/pangaea/object"
	"github.com/Syuparn/pangaea/parser"
	"github.com/Syuparn/pangaea/runscript"
)

// doRepl feeds rq.Stdin to the real interactive interpreter (runscript.StartREPL): observation = everything it
// writes (prompts, values, errors) or the recovered host panic.
func doRepl(rq *Req) (resp *Resp) {
	defaults(rq)
	resp = &Resp{ID: rq.ID, Events: []string{}}
	var out bytes.Buffer
	func() {
		defer func() {
			if e := recover(); e != nil {
				if f, ok := e.(evaluator.VerifFuel); ok {
					resp.End = "fuel:" + f.Why
					return
				}
				resp.End = "panic:" + firstLines(fmt.Sprintf("%v", e), 3) + " @ " + panicSite()
			}
		}()
		evaluator.VerifSetFuel(rq.Fuel, rq.Depth)
		runscript.StartREPL("", strings.NewReader(rq.Stdin), &out)
		resp.End = "exit:0"
	}()
	resp.Events = []string{"io:" + out.String()}
	return resp
}

// doReplChunks is the reference for a REPL session: rq.Progs are evaluated one after the other in ONE scope, each
// chunk giving what the REPL prints for it (whatever the chunk writes, then the value / error, or the syntax report).
func doReplChunks(rq *Req) (resp *Resp) {
	defaults(rq)
	resp = &Resp{ID: rq.ID, Events: []string{}, End: "ok"}
	var out bytes.Buffer
	env := object.NewEnvWithConsts()
	env.InjectIO(strings.NewReader(""), &out)
	di.InjectBuiltInProps(env)
	env.InjectFrom(object.BuiltInKernelObj)
	for _, src := range rq.Progs {
		func() {
			defer func() {
				if e := recover(); e != nil {
					if f, ok := e.(evaluator.VerifFuel); ok {
						resp.End = "fuel:" + f.Why
						return
					}
					resp.End = "panic:" + firstLines(fmt.Sprintf("%v", e), 3) + " @ " + panicSite()
				}
			}()
			evaluator.VerifSetFuel(rq.Fuel, rq.Depth)
			program, err := parser.Parse(parser.NewReader(strings.NewReader(src), object.StdinFileName))
			if err != nil {
				out.WriteString(err.Error())
			} else {
				out.WriteString(evaluator.Eval(program, env).Repr() + "\n")
			}
		}()
		resp.Events = append(resp.Events, "io:"+out.String())
		out.Reset()
	}
	return resp
}

INIT Init
NEXT Next
CHECK_DEADLOCK FALSE
INVARIANTS AddOK SubOK MulOK CmpOK DivOK PowOK BigMulOK BigDivOK Emit

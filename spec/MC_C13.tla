------------------------------- MODULE MC_C13 -------------------------------
EXTENDS PanEither, Json
Emit == Done => PrintT("CASE " \o ToJson([chain |-> chain, ran |-> ran, ok |-> st.ok, v |-> st.v, kind |-> st.kind, msg |-> st.msg,
                       missing |-> MissingPropClass, noncallable |-> NonCallableClass,
                       acc |-> [i \in 1..Len(Accessors) |-> [a |-> Accessors[i], x |-> Acc(Accessors[i])]]]))
=============================================================================

------------------------------ MODULE PanArith ------------------------------
(***************************************************************************)
(* C10: what the result of an Int operator must be, as exact relations     *)
(* over BigInt.  A case is a record                                         *)
(*   [op, a, b : Big, k : "int"|"float"|"err"|"other", r : Big, kind : STRING,*)
(*    fm : Big (float significand), fe : Int (binary exponent), small : Int] *)
(* recorded from the real interpreter.  Results that do not fit in 64 bits  *)
(* are unconstrained (the property's proviso).                              *)
(***************************************************************************)
EXTENDS BigInt

IsInt(c, x) == c.k = "int" /\ Eq(c.r, x)
IsErr(c, kind) == c.k = "err" /\ c.kind = kind
Fit(c, exact) == Fits64(exact) => IsInt(c, exact)

(* |num/den - x| <= 1/2 ulp(x), x = fm * 2^fe with 2^52 <= |fm| < 2^53:      *)
(* correctly rounded quotient, stated with integers only.                   *)
MAbsDiff(p, q) == IF MCmp(p, q) >= 0 THEN MSub(p, q) ELSE MSub(q, p)
RoundedQuotient(a, b, fm, fe) ==
  LET s    == IF fe < 0 THEN -fe ELSE 0              \* scale so that everything is integral
      lhsA == MShl(a.m, s + 1)                        \* 2 * |a| * 2^s
      lhsX == MShl(MMul(fm.m, b.m), fe + s + 1)       \* 2 * |x*b| * 2^s
      ulpb == MShl(b.m, fe + s)                       \* ulp * |b| * 2^s
  IN /\ (fm.neg = (a.neg # b.neg)) \/ fm.m = <<>> \/ a.m = <<>>
     /\ MCmp(MAbsDiff(lhsA, lhsX), ulpb) <= 0
(* relative bracket 2^-50 for operands that are themselves rounded first *)
BracketQuotient(a, b, fm, fe) ==
  LET s    == IF fe < 0 THEN -fe ELSE 0
      lhsA == MShl(a.m, s)
      lhsX == MShl(MMul(fm.m, b.m), fe + s)
  IN /\ (fm.neg = (a.neg # b.neg)) \/ fm.m = <<>> \/ a.m = <<>>
     /\ MCmp(MShl(MAbsDiff(lhsA, lhsX), 50), lhsA) <= 0
Two53 == MPow2(53)

Holds(c) ==
  CASE c.op = "+"   -> Fit(c, Add(c.a, c.b))
    [] c.op = "-"   -> Fit(c, Sub(c.a, c.b))
    [] c.op = "*"   -> Fit(c, Mul(c.a, c.b))
    [] c.op = "neg" -> Fit(c, Neg(c.a))
    [] c.op = "**"  ->
         IF c.b.neg THEN TRUE                                   \* negative exponent: not in the property
         ELSE IF c.a.m = <<>> THEN IsInt(c, IF c.b.m = <<>> THEN One ELSE Zero)
         ELSE IF c.a.m = <<1>> THEN IsInt(c, IF c.a.neg /\ L(c.b.m, 1) % 2 = 1 THEN Neg(One) ELSE One)
         ELSE IF MCmp(c.b.m, <<64>>) > 0 THEN TRUE               \* |a| >= 2, b > 64: cannot fit
         ELSE Fit(c, Pow(c.a, ToInt(c.b)))
    [] c.op = "//"  ->
         IF IsZero(c.b) THEN IsErr(c, "ZeroDivisionErr")
         ELSE Fit(c, FloorDivMod(c.a, c.b).q)
    [] c.op = "%"   ->
         IF IsZero(c.b) THEN IsErr(c, "ZeroDivisionErr")
         ELSE /\ c.k = "int"
              /\ MCmp(c.r.m, c.b.m) < 0                         \* |r| < |b|
              /\ IsZero(FloorDivMod(Sub(c.a, c.r), c.b).r)      \* b divides a - r
    [] c.op = "<=>" -> IsInt(c, FromInt(Cmp(c.a, c.b)))
    [] c.op = "/"   ->
         IF IsZero(c.b) THEN IsErr(c, "ZeroDivisionErr")
         ELSE /\ c.k = "float"
              /\ IF MCmp(c.a.m, Two53) <= 0 /\ MCmp(c.b.m, Two53) <= 0
                 THEN RoundedQuotient(c.a, c.b, c.fm, c.fe)
                 ELSE BracketQuotient(c.a, c.b, c.fm, c.fe)
    [] OTHER -> FALSE
=============================================================================

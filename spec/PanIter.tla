------------------------------- MODULE PanIter -------------------------------
(***************************************************************************)
(* C14: iterator literals.  An iterator's state is the argument tuple <<a,b>>*)
(* given by `new` or by the latest `recur`.  One `next`:                    *)
(*    guard false  -> StopIterErr, state unchanged (so it keeps raising)    *)
(*    guard true   -> returns Yield(a, b), state' = Recur(a, b)             *)
(* Bodies that call recur BEFORE the guarded yield (EagerRecur) advance on   *)
(* every next, also on the one that raises: recur takes effect when called.  *)
(* `new` makes a fresh iterator, `_iter` a copy of the current state,       *)
(* assignment an alias (same iterator).  A / list chain / reduce chain walk *)
(* a copy: they return what successive `next` calls would, up to the first  *)
(* StopIterErr, and do not advance the iterator they are applied to.        *)
(* Body selects the literal (see checks/c14.py for the source of each).     *)
(***************************************************************************)
EXTENDS Integers, Sequences, TLC
CONSTANTS Body, MaxOps, Lim
VARIABLES its, x, y, log
vars == <<its, x, y, log>>

Guard(a, b) == CASE Body = "unguarded" -> TRUE
                 [] Body \in {"fib", "step"} -> a < 3 * Lim
                 [] Body = "argvar"    -> a # Lim
                 [] Body = "twoyields" -> a # Lim
                 [] Body \in {"recurfirst", "deferrecur"} -> a # 1 /\ a < Lim + 2       \* a hole at 1, then an end
                 [] Body = "nested"    -> a <= Lim
                 [] Body = "raisingrecur" -> a < Lim + 2
                 [] OTHER              -> a < Lim
EagerRecur == Body \in {"recurfirst", "deferrecur"}
(* "twice" keeps a flag in the iterator's own scope (assigned by the body, not given by recur): every value is visited twice, *)
(* the first visit only sets the flag; "nested" builds another iterator inside its body on every next and asks it for 1, 2   *)
NilVal == -999          \* stands for a yielded nil (body "yieldsnil" yields nil at argument 1)
Yield(a, b) == IF Body = "local" THEN 2 * a ELSE IF Body = "nested" THEN a * 100 + 12 ELSE IF Body = "yieldsnil" /\ a = 1 THEN NilVal ELSE a
Recur(a, b) == CASE Body = "fib"  -> <<b, a + b>>
                 [] Body = "step" -> <<a + b, b>>
                 [] Body = "twice" -> IF b = 1 THEN <<a + 1, 0>> ELSE <<a, 1>>
                 [] OTHER         -> <<a + 1, b>>
Start(n) == IF Body \in {"fib", "step"} THEN <<n, n + 1>> ELSE <<n, 0>>
Finite == Body # "unguarded"
(* "raisingrecur": at argument 1 the expression given to recur raises, after the yield has been executed: that next raises, *)
(* yields nothing and leaves the iterator where it was; a walk that reaches this point raises too                           *)
ErrAt(a) == Body = "raisingrecur" /\ a = 1

RECURSIVE Rest(_), WalkRaises(_)
(* the values successive next calls return from state s, up to the first StopIterErr *)
Rest(s) == IF Guard(s[1], s[2]) THEN <<Yield(s[1], s[2])>> \o Rest(Recur(s[1], s[2])) ELSE <<>>
WalkRaises(s) == Guard(s[1], s[2]) /\ (ErrAt(s[1]) \/ WalkRaises(Recur(s[1], s[2])))
RECURSIVE Sum(_)
Sum(q) == IF q = <<>> THEN 0 ELSE Head(q) + Sum(Tail(q))

Init == its = <<Start(0)>> /\ x = 1 /\ y = 0 /\ log = <<>>
Log(op, v, r) == log' = Append(log, [op |-> op, v |-> v, r |-> r])
Var(v) == IF v = "x" THEN x ELSE y
Defined(v) == Var(v) # 0

Next_(v) == /\ Defined(v)
            /\ LET s == its[Var(v)] IN
               IF Guard(s[1], s[2]) /\ ErrAt(s[1])
               THEN UNCHANGED its /\ Log("next", v, <<"err">>)
               ELSE IF Guard(s[1], s[2])
               THEN its' = [its EXCEPT ![Var(v)] = Recur(s[1], s[2])] /\ Log("next", v, <<"val", Yield(s[1], s[2])>>)
               ELSE /\ Log("next", v, <<"stop">>)
                    /\ IF EagerRecur THEN its' = [its EXCEPT ![Var(v)] = Recur(s[1], s[2])] ELSE UNCHANGED its
            /\ UNCHANGED <<x, y>>
WalkA(v)   == Finite /\ Defined(v) /\ UNCHANGED <<its, x, y>>
              /\ IF WalkRaises(its[Var(v)]) THEN Log("A", v, <<"err">>) ELSE Log("A", v, <<"list", Rest(its[Var(v)])>>)
WalkList(v) == Finite /\ Body # "yieldsnil" /\ Defined(v) /\ UNCHANGED <<its, x, y>>
              /\ IF WalkRaises(its[Var(v)]) THEN Log("list", v, <<"err">>)
                 ELSE Log("list", v, <<"list", [k \in 1..Len(Rest(its[Var(v)])) |-> 10 * Rest(its[Var(v)])[k]]>>)
WalkRed(v) == Finite /\ Body # "yieldsnil" /\ Defined(v) /\ UNCHANGED <<its, x, y>>
              /\ IF WalkRaises(its[Var(v)]) THEN Log("reduce", v, <<"err">>) ELSE Log("reduce", v, <<"val", 100 + Sum(Rest(its[Var(v)]))>>)
(* a list chain over v whose function asks the OTHER variable for its next value: `v@{|e| [e, w.next]}`.  The walk runs on a copy of v, *)
(* every visited element advances w for real; when w stops first, its StopIterErr is handed on (the chain does not end quietly)        *)
NextOf(t) == IF Guard(t[1], t[2]) /\ ErrAt(t[1]) THEN [k |-> "err", v |-> 0, t |-> t]
             ELSE IF Guard(t[1], t[2]) THEN [k |-> "val", v |-> Yield(t[1], t[2]), t |-> Recur(t[1], t[2])]
             ELSE [k |-> "stop", v |-> 0, t |-> IF EagerRecur THEN Recur(t[1], t[2]) ELSE t]
RECURSIVE Zip(_, _, _)
Zip(s, t, acc) == LET n == NextOf(s) IN
                  IF n.k = "stop" THEN [k |-> "list", acc |-> acc, t |-> t]
                  ELSE IF n.k = "err" THEN [k |-> "err", acc |-> <<>>, t |-> t]
                  ELSE LET m == NextOf(t) IN
                       IF m.k = "val" THEN Zip(n.t, m.t, acc \o <<n.v, m.v>>)
                       ELSE [k |-> m.k, acc |-> <<>>, t |-> m.t]
Other(v) == IF v = "x" THEN "y" ELSE "x"
WalkZip(v) == /\ Finite /\ Defined(v) /\ Defined(Other(v))
              /\ LET z == Zip(its[Var(v)], its[Var(Other(v))], <<>>) IN
                 /\ its' = [its EXCEPT ![Var(Other(v))] = z.t]
                 /\ Log("zip", v, IF z.k = "list" THEN <<"list", z.acc>> ELSE <<z.k>>)
              /\ UNCHANGED <<x, y>>
NewY(n)    == its' = Append(its, Start(n)) /\ y' = Len(its) + 1 /\ Log("new", "y", <<"n", n>>) /\ UNCHANGED x
NewFromX   == its' = Append(its, Start(1)) /\ y' = Len(its) + 1 /\ Log("newfrom", "y", <<"n", 1>>) /\ UNCHANGED x   \* y := x.new(1)
CopyX      == its' = Append(its, its[x]) /\ y' = Len(its) + 1 /\ Log("copy", "y", <<"n", 0>>) /\ UNCHANGED x        \* y := x._iter
AliasX     == y' = x /\ Log("alias", "y", <<"n", 0>>) /\ UNCHANGED <<its, x>>                                        \* y := x
Step == \/ \E v \in {"x", "y"} : Next_(v) \/ WalkA(v) \/ WalkList(v) \/ WalkRed(v) \/ WalkZip(v)
        \/ NewY(2) \/ NewFromX \/ CopyX \/ AliasX
Next == Len(log) < MaxOps /\ Step
Spec == Init /\ [][Next]_vars

(* ---- properties ------------------------------------------------------------ *)
(* a next on one iterator never changes another one *)
OnlyTargetMoves == [][\A j \in 1..Len(its) : its'[j] # its[j] =>
                        (Len(log') > Len(log) /\ ((log'[Len(log')].op = "next" /\ j = Var(log'[Len(log')].v))
                                               \/ (log'[Len(log')].op = "zip" /\ j = Var(Other(log'[Len(log')].v)))))]_vars
(* walks do not advance anything *)
WalksArePure == [][(Len(log') > Len(log) /\ log'[Len(log')].op \in {"A", "list", "reduce"}) => its' = its]_vars
(* a stopped iterator stays stopped *)
StoppedStays == ~EagerRecur => \A j \in 1..Len(its) : ~Guard(its[j][1], its[j][2]) => Rest(its[j]) = <<>>
=============================================================================

------------------------------ MODULE Trace_C16 ------------------------------
(* Token streams (and the printed tree, as a last pseudo-token AST) recorded    *)
(* from the real lexer/parser for a base text and a variant of it are compared *)
(* with PanLexer's relations:                                                  *)
(*   chunk : same input through a different read schedule  => identical stream *)
(*   layout: a line break replaced by more layout           => SameModuloLayout *)
(*   long  : a token made longer                            => same kinds, and  *)
(*           the long token carries its full text (length recorded)            *)
EXTENDS Integers, Sequences, TLC, Json
CONSTANTS Policy, T, R
VARIABLES input, rest, buf, toks
INSTANCE PanLexer
Rows == ndJsonDeserialize("c16.ndjson")
K == 32
VARIABLE i
Init == i = 0 /\ input = <<>> /\ rest = <<>> /\ buf = <<>> /\ toks = <<>>
Next == /\ UNCHANGED <<input, rest, buf, toks>>
        /\ \/ i = 0 /\ i' \in {-k : k \in 1..K}
           \/ i < 0 /\ i' \in {n \in 1..Len(Rows) : n % K = (-i) % K}
LayoutKinds == {"RET"}
SameModLayout(a, b) ==
  /\ Len(a) = Len(b)
  /\ \A n \in 1..Len(a) : a[n].k = b[n].k /\ (a[n].k \notin LayoutKinds => a[n].t = b[n].t)
Holds(r) ==
  CASE r.mode = "chunk"  -> r.a = r.b
    [] r.mode = "layout" -> SameModLayout(r.a, r.b)
    [] r.mode = "long"   -> Kinds(r.a) = Kinds(r.b) /\ r.got = r.want
    [] OTHER -> FALSE
Verdict == i > 0 => PrintT("V " \o ToJson([id |-> Rows[i].id, ok |-> Holds(Rows[i])]))
=============================================================================

------------------------------- MODULE BigInt -------------------------------
(***************************************************************************)
(* Arbitrary-precision integers for TLC (whose Int is a 32-bit Java int).   *)
(* A magnitude is a little-endian sequence of limbs in base 2^15 without    *)
(* trailing zero limbs (<<>> is 0); every partial product stays below 2^31. *)
(* A signed integer is [neg |-> BOOLEAN, m |-> magnitude], zero is not neg. *)
(***************************************************************************)
EXTENDS Integers, Sequences

B == 32768

RECURSIVE MNorm(_)
MNorm(a) == IF a = <<>> THEN a
            ELSE IF a[Len(a)] = 0 THEN MNorm(SubSeq(a, 1, Len(a) - 1)) ELSE a

L(a, i) == IF i <= Len(a) THEN a[i] ELSE 0
Max2(x, y) == IF x > y THEN x ELSE y

RECURSIVE MAddC(_, _, _, _)
MAddC(a, b, i, c) ==
  IF i > Max2(Len(a), Len(b)) THEN (IF c = 0 THEN <<>> ELSE <<c>>)
  ELSE LET s == L(a, i) + L(b, i) + c IN <<s % B>> \o MAddC(a, b, i + 1, s \div B)
MAdd(a, b) == MNorm(MAddC(a, b, 1, 0))

(* comparison of magnitudes: -1, 0, 1 *)
RECURSIVE MCmpAt(_, _, _)
MCmpAt(a, b, i) == IF i = 0 THEN 0
                   ELSE IF a[i] < b[i] THEN -1 ELSE IF a[i] > b[i] THEN 1 ELSE MCmpAt(a, b, i - 1)
MCmp(a, b) == IF Len(a) < Len(b) THEN -1 ELSE IF Len(a) > Len(b) THEN 1 ELSE MCmpAt(a, b, Len(a))

(* a - b for a >= b *)
RECURSIVE MSubC(_, _, _, _)
MSubC(a, b, i, c) ==
  IF i > Len(a) THEN <<>>
  ELSE LET s == a[i] - L(b, i) - c IN
       IF s < 0 THEN <<s + B>> \o MSubC(a, b, i + 1, 1) ELSE <<s>> \o MSubC(a, b, i + 1, 0)
MSub(a, b) == MNorm(MSubC(a, b, 1, 0))

RECURSIVE MMulLimb(_, _, _, _)
MMulLimb(a, d, i, c) ==
  IF i > Len(a) THEN (IF c = 0 THEN <<>> ELSE <<c>>)
  ELSE LET s == a[i] * d + c IN <<s % B>> \o MMulLimb(a, d, i + 1, s \div B)
RECURSIVE MMulR(_, _, _)
MMulR(a, b, j) == IF j > Len(b) THEN <<>>
                  ELSE MAdd(MNorm(MMulLimb(a, b[j], 1, 0)),
                            LET t == MMulR(a, b, j + 1) IN IF t = <<>> THEN <<>> ELSE <<0>> \o t)
MMul(a, b) == IF a = <<>> \/ b = <<>> THEN <<>> ELSE MNorm(MMulR(a, b, 1))

MDouble(a) == MAdd(a, a)

(* binary long division of magnitudes, b # 0: [q, r] with a = q*b + r, r < b *)
RECURSIVE MDivMod(_, _)
MDivMod(a, b) ==
  IF MCmp(a, b) < 0 THEN [q |-> <<>>, r |-> a]
  ELSE LET h  == MDivMod(a, MDouble(b))
           q2 == MDouble(h.q)
       IN IF MCmp(h.r, b) >= 0 THEN [q |-> MAdd(q2, <<1>>), r |-> MSub(h.r, b)]
          ELSE [q |-> q2, r |-> h.r]

RECURSIVE MPow2(_)
MPow2(k) == IF k = 0 THEN <<1>> ELSE IF k >= 15 THEN <<0>> \o MPow2(k - 15) ELSE MDouble(MPow2(k - 1))
MShl(a, k) == MMul(a, MPow2(k))

RECURSIVE MFromNat(_)
MFromNat(n) == IF n = 0 THEN <<>> ELSE <<n % B>> \o MFromNat(n \div B)

-----------------------------------------------------------------------------
Big(neg, m) == [neg |-> (neg /\ m # <<>>), m |-> m]
Zero == Big(FALSE, <<>>)
One  == Big(FALSE, <<1>>)
FromInt(n) == IF n < 0 THEN Big(TRUE, MFromNat(-n)) ELSE Big(FALSE, MFromNat(n))
IsZero(x) == x.m = <<>>
Neg(x) == Big(~x.neg, x.m)
Abs(x) == Big(FALSE, x.m)
Sign(x) == IF x.m = <<>> THEN 0 ELSE IF x.neg THEN -1 ELSE 1

Add(x, y) ==
  IF x.neg = y.neg THEN Big(x.neg, MAdd(x.m, y.m))
  ELSE LET c == MCmp(x.m, y.m) IN
       IF c = 0 THEN Zero
       ELSE IF c > 0 THEN Big(x.neg, MSub(x.m, y.m)) ELSE Big(y.neg, MSub(y.m, x.m))
Sub(x, y) == Add(x, Neg(y))
Mul(x, y) == Big(x.neg # y.neg, MMul(x.m, y.m))
Cmp(x, y) == IF x.neg # y.neg THEN (IF x.neg THEN -1 ELSE 1)
             ELSE IF x.neg THEN MCmp(y.m, x.m) ELSE MCmp(x.m, y.m)
Eq(x, y) == x.neg = y.neg /\ x.m = y.m

(* floor division and the matching remainder (sign of the divisor), y # 0 *)
FloorDivMod(x, y) ==
  LET d == MDivMod(x.m, y.m) IN
  IF x.neg = y.neg THEN [q |-> Big(FALSE, d.q), r |-> Big(y.neg, d.r)]
  ELSE IF d.r = <<>> THEN [q |-> Big(TRUE, d.q), r |-> Zero]
  ELSE [q |-> Big(TRUE, MAdd(d.q, <<1>>)), r |-> Big(y.neg, MSub(y.m, d.r))]

RECURSIVE Pow(_, _)     \* k a small natural number
Pow(x, k) == IF k = 0 THEN One
             ELSE IF k % 2 = 1 THEN Mul(x, Pow(x, k - 1))
             ELSE LET h == Pow(x, k \div 2) IN Mul(h, h)

Two63 == <<0, 0, 0, 0, 8>>      \* 2^63 = 8 * (2^15)^4
Fits64(x) == IF x.neg THEN MCmp(x.m, Two63) <= 0 ELSE MCmp(x.m, Two63) < 0
MinInt64 == Big(TRUE, Two63)

(* small values back to TLC integers (|x| < 2^30) *)
RECURSIVE MToNat(_)
MToNat(a) == IF a = <<>> THEN 0 ELSE a[1] + B * MToNat(Tail(a))
ToInt(x) == IF x.neg THEN -MToNat(x.m) ELSE MToNat(x.m)
=============================================================================

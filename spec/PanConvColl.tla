------------------------------ MODULE PanConvColl ------------------------------
(***************************************************************************)
(* Conversions between the collection types (props/arr_props.go, Iterable): *)
(*   arr.O   every element must be an array of exactly two elements whose   *)
(*           first can be treated as a str; the FIRST offending element, in *)
(*           order, is reported (ValueErr naming it); the object holds the  *)
(*           first value given for each name                                *)
(*   arr.M   the same without the str requirement; scalar keys (str, int,   *)
(*           nil, ...) keep their first value.  DEVIATION kept as is: other *)
(*           keys (arrays, ...) are not compared - every occurrence stays   *)
(*   obj.A   the public pairs in sorted name order;  map.A  the pairs in    *)
(*           iteration order (scalar keys first)                            *)
(* An element is [k |-> "pair", key |-> [t, s], v |-> int]                  *)
(*            or [k |-> "notarr" | "badlen", txt |-> its printed form].     *)
(***************************************************************************)
EXTENDS Integers, Sequences, FiniteSets, TLC
None == [k |-> "none"]
ErrOf(e, forObj) ==
  CASE e.k = "notarr" -> [k |-> "err", msg |-> "element " \o e.txt \o " cannot be treated as arr"]
    [] e.k = "badlen" -> [k |-> "err", msg |-> "element " \o e.txt \o " must have two elements"]
    [] e.k = "pair" /\ forObj /\ e.key.t # "str" -> [k |-> "err", msg |-> "element key " \o e.key.s \o " cannot be treated as str"]
    [] OTHER -> None
RECURSIVE FirstErr(_, _)
FirstErr(es, forObj) == IF es = <<>> THEN None ELSE IF ErrOf(Head(es), forObj) # None THEN ErrOf(Head(es), forObj) ELSE FirstErr(Tail(es), forObj)
Scalar(key) == key.t \in {"str", "int", "nil"}
FirstOf(es, i) == \A j \in 1..(i - 1) : es[j].key # es[i].key
(* pairs kept by arr.O, in the order given; printing / A sorts them by name *)
ObjPairs(es) == SelectSeq([i \in 1..Len(es) |-> [i |-> i, e |-> es[i]]], LAMBDA x : FirstOf(es, x.i))
MapPairs(es) == SelectSeq([i \in 1..Len(es) |-> [i |-> i, e |-> es[i]]], LAMBDA x : Scalar(x.e.key) /\ FirstOf(es, x.i))
                \o SelectSeq([i \in 1..Len(es) |-> [i |-> i, e |-> es[i]]], LAMBDA x : ~Scalar(x.e.key))
ToObj(es) == IF FirstErr(es, TRUE) # None THEN FirstErr(es, TRUE) ELSE [k |-> "obj", ps |-> [j \in 1..Len(ObjPairs(es)) |-> ObjPairs(es)[j].e]]
ToMap(es) == IF FirstErr(es, FALSE) # None THEN FirstErr(es, FALSE) ELSE [k |-> "map", ps |-> [j \in 1..Len(MapPairs(es)) |-> MapPairs(es)[j].e]]

(* laws *)
Laws(es) == /\ (ToMap(es).k = "err" => ToObj(es).k = "err")                       \* whatever arr.M rejects, arr.O rejects
            /\ (ToObj(es).k = "obj" => \A a, b \in 1..Len(ToObj(es).ps) : a # b => ToObj(es).ps[a].key # ToObj(es).ps[b].key)
            /\ (ToMap(es).k = "map" => \A a, b \in 1..Len(ToMap(es).ps) : a # b /\ Scalar(ToMap(es).ps[a].key) => ToMap(es).ps[a].key # ToMap(es).ps[b].key)
            /\ (ToMap(es).k = "map" => \A a, b \in 1..Len(ToMap(es).ps) : a < b => (Scalar(ToMap(es).ps[b].key) => Scalar(ToMap(es).ps[a].key)))
            /\ (ToObj(es).k = "obj" /\ ToMap(es).k = "map" => Len(ToObj(es).ps) <= Len(ToMap(es).ps))
=============================================================================

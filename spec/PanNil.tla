------------------------------- MODULE PanNil -------------------------------
(***************************************************************************)
(* nil in arithmetic over ints (props/nil_props.go, props/int_props.go):    *)
(* nil stands for the NEUTRAL element of the operator it meets -            *)
(*   x + nil = x + 0,  x - nil = x - 0,  x * nil = x * 1,  x // nil = x // 1,*)
(*   x ** nil = x ** 1,  nil + x = 0 + x,  nil - x = 0 - x,  nil * x = 1 * x,*)
(*   nil // x = 1 // x  (floor division; ZeroDivisionErr for x = 0)          *)
(* so a nil operand never changes what the other operands contribute, and    *)
(* Iterable#sum skips nils.  DEVIATION kept as is: `x % nil` treats nil as 0 *)
(* and raises ZeroDivisionErr.  Values: [t |-> "int" | "zerodiv", v |-> n].  *)
(***************************************************************************)
EXTENDS Integers
Ops == {"+", "-", "*", "//", "**"}
LeftOps == {"+", "-", "*", "//"}                 \* operators Nil itself answers
Neutral(op) == IF op \in {"+", "-"} THEN 0 ELSE 1
I(n) == [t |-> "int", v |-> n]
ZeroDiv == [t |-> "zerodiv", v |-> 0]
FloorDiv(a, b) == IF b > 0 THEN a \div b ELSE (-a) \div (-b)
RECURSIVE Pow(_, _)
Pow(a, n) == IF n <= 0 THEN 1 ELSE a * Pow(a, n - 1)
Apply(op, a, b) ==
  IF a.t # "int" THEN a ELSE IF b.t # "int" THEN b
  ELSE CASE op = "+" -> I(a.v + b.v) [] op = "-" -> I(a.v - b.v) [] op = "*" -> I(a.v * b.v)
         [] op = "//" -> (IF b.v = 0 THEN ZeroDiv ELSE I(FloorDiv(a.v, b.v)))
         [] op = "**" -> I(Pow(a.v, b.v))
NilRight(op, x) == Apply(op, I(x), I(Neutral(op)))       \* x op nil
NilLeft(op, x) == Apply(op, I(Neutral(op)), I(x))        \* nil op x
ModNil(x) == ZeroDiv                                      \* x % nil   (deviation)

Laws(x, y) ==
  /\ \A op \in Ops : NilRight(op, x) = I(x)                           \* nil on the right changes nothing
  /\ NilLeft("+", x) = I(x) /\ NilLeft("*", x) = I(x) /\ NilLeft("-", x) = I(-x)
  /\ (x # 0 => NilLeft("//", x) = I(IF x = 1 THEN 1 ELSE IF x < 0 THEN -1 ELSE 0)) /\ NilLeft("//", 0) = ZeroDiv
  /\ \A op \in Ops, op2 \in LeftOps : Apply(op2, NilRight(op, x), I(y)) = Apply(op2, I(x), I(y))
  /\ \A b \in -3..3 : /\ (b > 0 => FloorDiv(x, b) * b <= x /\ x < (FloorDiv(x, b) + 1) * b)
                      /\ (b < 0 => FloorDiv(x, b) * b >= x /\ x > (FloorDiv(x, b) + 1) * b)
=============================================================================

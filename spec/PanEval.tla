------------------------------- MODULE PanEval -------------------------------
(***************************************************************************)
(* Big-step semantics of the core of Pangaea, structured like the Go        *)
(* evaluator (one operator per eval_*.go concern).  It threads an explicit  *)
(* state                                                                    *)
(*    st = [fr : Seq(frame), ev : Seq(STRING), fuel : Nat, names : Seq]     *)
(*    frame = [vars : name -> value, av : argvar -> value, par : frame id]  *)
(* and returns outcomes [k, v, st] with k one of                            *)
(*    "val" "err" "ret" "unsupported" "fuel"                                *)
(* (the Go code encodes the same cases in the dynamic type of the result:   *)
(* PanErr, ReturnObj, plain value).  ev is the list of observable events    *)
(* ("out:<canon>", "probe:<k>|frame|frame...") in the canonical rendering   *)
(* that the worker (harness/cmd/pvworker) produces from the real objects.   *)
(*                                                                         *)
(* Programs are JSON records (field t = node type), produced by the         *)
(* generators in checks/panlang.py, which also print them as source text.   *)
(* A construct outside the modelled fragment yields "unsupported": such     *)
(* programs are discarded, never judged.                                    *)
(***************************************************************************)
EXTENDS Integers, Sequences, TLC

(* ------------------------------- values -------------------------------- *)
NilV        == [t |-> "nil"]
BoolV(b)    == [t |-> "bool", b |-> b]
IntV(n)     == [t |-> "int", i |-> n]
StrV(s)     == [t |-> "str", s |-> s]
ArrV(es)    == [t |-> "arr", es |-> es]
ObjV(ps)    == [t |-> "obj", ps |-> ps]          \* ps: Seq([k, v]) sorted by name, unique
RangeV(a, b, c) == [t |-> "range", a |-> a, b |-> b, c |-> c]
ErrWV(kd, m) == [t |-> "errw", kind |-> kd, msg |-> m]   \* a caught error (ordinary value)
DeferV      == [t |-> "deferobj"]
ErrV(kd, m) == [kind |-> kd, msg |-> m]           \* payload of a raised error; msg "*" = any text

R(k, v, st) == [k |-> k, v |-> v, st |-> st]
Ok(r)  == r.k = "val"
Bad(r) == r.k \in {"unsupported", "fuel"}
Unsupported(st) == R("unsupported", NilV, st)

(* ---------------------------- rendering -------------------------------- *)
RECURSIVE Show(_), ShowSeq(_, _), ShowPairs(_, _)
ShowSeq(es, i) == IF i > Len(es) THEN ""
                  ELSE (IF i > 1 THEN ", " ELSE "") \o Show(es[i]) \o ShowSeq(es, i + 1)
ShowPairs(ps, i) == IF i > Len(ps) THEN ""
                    ELSE (IF i > 1 THEN ", " ELSE "") \o ps[i].k \o ": " \o Show(ps[i].v) \o ShowPairs(ps, i + 1)
Show(v) ==
  CASE v.t = "int"   -> ToString(v.i)
    [] v.t = "str"   -> "\"" \o v.s \o "\""
    [] v.t = "nil"   -> "nil"
    [] v.t = "bool"  -> IF v.b THEN "true" ELSE "false"
    [] v.t = "arr"   -> "[" \o ShowSeq(v.es, 1) \o "]"
    [] v.t = "obj"   -> "{" \o ShowPairs(v.ps, 1) \o "}"
    [] v.t = "range" -> "(" \o Show(v.a) \o ":" \o Show(v.b) \o ":" \o Show(v.c) \o ")"
    [] v.t = "fn"    -> IF v.kind = "iter" THEN "<iter>" ELSE "<func>"
    [] v.t = "errw"  -> "<err " \o v.kind \o ": " \o v.msg \o ">"
    [] v.t = "deferobj" -> "<DeferType>"
    [] v.t = "view" -> "<view>"
    [] OTHER -> "<?>"

(* ---------------------------- equality, truth --------------------------- *)
RECURSIVE VEq(_, _)
VEq(a, b) ==
  IF a.t # b.t THEN FALSE
  ELSE CASE a.t = "int"  -> a.i = b.i
         [] a.t = "str"  -> a.s = b.s
         [] a.t = "nil"  -> TRUE
         [] a.t = "bool" -> a.b = b.b
         [] a.t = "arr"  -> Len(a.es) = Len(b.es) /\ \A k \in 1..Len(a.es) : VEq(a.es[k], b.es[k])
         [] OTHER -> FALSE
EqSupported(a) == a.t \in {"int", "str", "nil", "bool"} \/ (a.t = "arr" /\ \A k \in 1..Len(a.es) : a.es[k].t \in {"int", "str", "nil", "bool"})

OwnProp(o, n) == IF o.t = "obj" /\ \E k \in 1..Len(o.ps) : o.ps[k].k = n
                 THEN [found |-> TRUE, v |-> o.ps[CHOOSE k \in 1..Len(o.ps) : o.ps[k].k = n].v]
                 ELSE [found |-> FALSE, v |-> NilV]

(* ------------------------------ frames --------------------------------- *)
Upd(f, n, v) == [x \in DOMAIN f \cup {n} |-> IF x = n THEN v ELSE f[x]]
EmptyFn == [x \in {} |-> NilV]
SetVar(st, fid, n, v) == [st EXCEPT !.fr[fid].vars = Upd(@, n, v)]
RECURSIVE Lookup(_, _, _), LookupAv(_, _, _)
Lookup(fr, fid, n) == IF fid = 0 THEN [found |-> FALSE, v |-> NilV]
                      ELSE IF n \in DOMAIN fr[fid].vars THEN [found |-> TRUE, v |-> fr[fid].vars[n]]
                      ELSE Lookup(fr, fr[fid].par, n)
LookupAv(fr, fid, n) == IF fid = 0 THEN [found |-> FALSE, v |-> NilV]
                        ELSE IF n \in DOMAIN fr[fid].av THEN [found |-> TRUE, v |-> fr[fid].av[n]]
                        ELSE LookupAv(fr, fr[fid].par, n)
Emit(st, e) == [st EXCEPT !.ev = Append(@, e)]

(* names of a frame in the table's (byte) order, rendered a=1,b=2 *)
RECURSIVE ShowVars(_, _, _, _)
ShowVars(names, vars, i, first) ==
  IF i > Len(names) THEN ""
  ELSE IF names[i] \in DOMAIN vars
       THEN (IF first THEN "" ELSE ",") \o names[i] \o "=" \o Show(vars[names[i]]) \o ShowVars(names, vars, i + 1, FALSE)
       ELSE ShowVars(names, vars, i + 1, first)
RECURSIVE ShowFrames(_, _)
ShowFrames(st, fid) == IF fid = 0 THEN ""
                       ELSE ShowVars(st.names, st.fr[fid].vars, 1, TRUE)
                            \o (IF st.fr[fid].par = 0 THEN "" ELSE "|" \o ShowFrames(st, st.fr[fid].par))

(* pairs: first occurrence wins, listed in the order of the name table *)
HasKey(ps, n) == \E k \in 1..Len(ps) : ps[k].k = n
FirstOf(ps, n) == ps[CHOOSE k \in 1..Len(ps) : ps[k].k = n /\ \A j \in 1..(k - 1) : ps[j].k # n]
RECURSIVE SortPairs(_, _, _)
SortPairs(names, ps, i) == IF i > Len(names) THEN <<>>
                           ELSE (IF HasKey(ps, names[i]) THEN <<FirstOf(ps, names[i])>> ELSE <<>>) \o SortPairs(names, ps, i + 1)

IntStr(n) == ToString(n)

(* --------------------------- the evaluator ------------------------------ *)
RECURSIVE Ev(_, _, _), EvList(_, _, _, _), EvElems(_, _, _, _), EvPairs(_, _, _, _), EvArgs(_, _, _, _, _, _),
          EvKw(_, _, _, _, _), EvStmts(_, _, _, _, _, _), RunDefers(_, _, _, _), RunBody(_, _, _),
          Apply(_, _, _, _), CallProp(_, _, _, _, _), Truthy(_, _), EvParts(_, _, _, _, _), CallValue(_, _, _, _),
          ListLoop(_, _, _, _, _, _, _, _, _), RedLoop(_, _, _, _, _, _, _, _, _), RangeElems(_, _, _)

(* truthiness = the value's B property is the object true (identity) *)
Truthy(v, st) ==
  CASE v.t = "bool" -> R("val", BoolV(v.b), st)
    [] v.t = "int"  -> R("val", BoolV(v.i # 0), st)
    [] v.t = "str"  -> R("val", BoolV(v.s # ""), st)
    [] v.t = "nil"  -> R("val", BoolV(FALSE), st)
    [] v.t = "arr"  -> R("val", BoolV(v.es # <<>>), st)
    [] v.t = "obj"  ->
         LET p == OwnProp(v, "B") IN
         IF ~p.found THEN R("val", BoolV(v.ps # <<>>), st)
         ELSE IF p.v.t = "fn" THEN
                LET r == Apply(p.v, <<v>>, <<>>, st) IN
                IF r.k = "val" THEN R("val", BoolV(r.v.t = "bool" /\ r.v.b), r.st)
                ELSE IF r.k = "err" THEN Unsupported(r.st)      \* errors in conversion hooks are outside the properties
                ELSE r
              ELSE R("val", BoolV(p.v.t = "bool" /\ p.v.b), st)
    [] OTHER -> Unsupported(st)

(* call a function value: positional values pos, keyword pairs kw (source order, first wins) *)
Apply(fn, pos, kw, st) ==
  IF st.fuel = 0 THEN R("fuel", NilV, st)
  ELSE IF fn.t # "fn" \/ fn.kind # "func" THEN Unsupported(st)
  ELSE
  LET np   == Len(fn.ps)
      args == IF Len(pos) >= np THEN pos ELSE pos \o [j \in 1..(np - Len(pos)) |-> NilV]      \* parameters are padded with nil; the \-variables are made from pos, the arguments received
      pnames == {fn.ps[j] : j \in 1..np}
      knames == {fn.kps[j].k : j \in 1..Len(fn.kps)}
      PV(n)  == args[CHOOSE j \in 1..np : fn.ps[j] = n /\ \A m \in (j + 1)..np : fn.ps[m] # n]
      KV(n)  == IF HasKey(kw, n) THEN FirstOf(kw, n).v ELSE FirstOf(fn.kps, n).v
      vars == [n \in pnames \cup knames |-> IF n \in knames THEN KV(n) ELSE PV(n)]
      avn  == {"\\" \o IntStr(j) : j \in 1..Len(pos)} \cup {"\\0", "\\_"} \cup (IF Len(pos) > 0 THEN {"\\"} ELSE {})
              \cup {"\\" \o kw[j].k : j \in 1..Len(kw)}
      av   == [n \in avn |->
                 IF n = "\\0" THEN ArrV(pos)
                 ELSE IF n = "\\_" THEN ObjV(SortPairs(st.names, kw, 1))
                 ELSE IF n = "\\" THEN pos[1]
                 ELSE IF \E j \in 1..Len(pos) : n = "\\" \o IntStr(j)
                      THEN pos[CHOOSE j \in 1..Len(pos) : n = "\\" \o IntStr(j)]
                      ELSE FirstOf(kw, CHOOSE m \in {kw[j].k : j \in 1..Len(kw)} : n = "\\" \o m).v]
      nf   == Len(st.fr) + 1
      st2  == [st EXCEPT !.fr = Append(@, [vars |-> vars, av |-> av, par |-> fn.env]), !.fuel = @ - 1]
      r    == RunBody(fn.body, nf, st2)
  IN IF r.k = "ret" THEN R("val", r.v, r.st) ELSE r

(* a body: statements, then the deferred expressions that were reached, on every way out *)
RunBody(ss, f, st) ==
  LET b == EvStmts(ss, 1, f, st, <<>>, NilV) IN
  IF Bad(b.r) THEN b.r
  ELSE LET d == RunDefers(b.dfs, 1, f, b.r.st) IN
       IF d.k # "val" THEN d                       \* a raising defer replaces the outcome (and stops the rest)
       ELSE R(b.r.k, b.r.v, d.st)
RunDefers(dfs, i, f, st) ==
  IF i > Len(dfs) THEN R("val", NilV, st)
  ELSE LET r == Ev(dfs[i], f, st) IN
       IF r.k # "val" THEN r ELSE RunDefers(dfs, i + 1, f, r.st)

(* returns [r |-> outcome, dfs |-> deferred expressions reached so far] *)
EvStmts(ss, i, f, st, dfs, last) ==
  IF i > Len(ss) THEN [r |-> R("val", last, st), dfs |-> dfs]
  ELSE LET s == ss[i] IN
  IF s.t = "jump" THEN
     LET g == IF s.g.t = "none" THEN R("val", BoolV(TRUE), st)
              ELSE LET c == Ev(s.g, f, st) IN IF c.k # "val" THEN c ELSE Truthy(c.v, c.st)
     IN IF g.k # "val" THEN [r |-> g, dfs |-> dfs]
        ELSE IF ~g.v.b THEN EvStmts(ss, i + 1, f, g.st, dfs, NilV)
        ELSE IF s.k = "defer" THEN EvStmts(ss, i + 1, f, g.st, Append(dfs, s.x), NilV)          \* a defer statement has no value of its own
        ELSE LET x == Ev(s.x, f, g.st) IN
             IF x.k # "val" THEN [r |-> x, dfs |-> dfs]
             ELSE IF s.k = "return" THEN [r |-> R("ret", x.v, x.st), dfs |-> dfs]
             ELSE IF s.k = "raise" THEN
                    IF x.v.t = "errw" THEN [r |-> R("err", ErrV(x.v.kind, x.v.msg), x.st), dfs |-> dfs]
                    ELSE [r |-> R("ret", x.v, x.st), dfs |-> dfs]
             ELSE [r |-> Unsupported(x.st), dfs |-> dfs]
  ELSE LET x == Ev(s, f, st) IN
       IF x.k # "val" THEN [r |-> x, dfs |-> dfs]
       ELSE EvStmts(ss, i + 1, f, x.st, dfs, x.v)

EvList(es, i, f, st) ==
  IF i > Len(es) THEN R("val", <<>>, st)
  ELSE LET h == Ev(es[i], f, st) IN IF h.k # "val" THEN h ELSE
       LET tl == EvList(es, i + 1, f, h.st) IN IF tl.k # "val" THEN tl ELSE R("val", <<h.v>> \o tl.v, tl.st)

(* array elements, with *spread *)
EvElems(es, i, f, st) ==
  IF i > Len(es) THEN R("val", <<>>, st)
  ELSE LET isSp == es[i].t = "spread"
           h == Ev(IF isSp THEN es[i].x ELSE es[i], f, st) IN
       IF h.k # "val" THEN h
       ELSE IF isSp /\ h.v.t # "arr" THEN R("err", ErrV("TypeErr", "*"), h.st)
       ELSE LET tl == EvElems(es, i + 1, f, h.st) IN
            IF tl.k # "val" THEN tl ELSE R("val", (IF isSp THEN h.v.es ELSE <<h.v>>) \o tl.v, tl.st)

(* object literal pairs in order (value of each pair), result: Seq([k, v]) *)
EvPairs(ps, i, f, st) ==
  IF i > Len(ps) THEN R("val", <<>>, st)
  ELSE LET h == Ev(ps[i].v, f, st) IN IF h.k # "val" THEN h ELSE
       LET tl == EvPairs(ps, i + 1, f, h.st) IN
       IF tl.k # "val" THEN tl ELSE R("val", <<[k |-> ps[i].k, v |-> h.v]>> \o tl.v, tl.st)

(* call arguments: positional expressions (incl. *arr and **obj expansions) in order; pos / kw accumulate *)
EvArgs(as, i, f, st, pos, kw) ==
  IF i > Len(as) THEN [k |-> "val", pos |-> pos, kw |-> kw, st |-> st, v |-> NilV]
  ELSE LET a == as[i] IN
       IF a.t = "spread" THEN
          LET h == Ev(a.x, f, st) IN
          IF h.k # "val" THEN [k |-> h.k, pos |-> pos, kw |-> kw, st |-> h.st, v |-> h.v]
          ELSE IF h.v.t # "arr" THEN [k |-> "unsupported", pos |-> pos, kw |-> kw, st |-> h.st, v |-> NilV]
          ELSE EvArgs(as, i + 1, f, h.st, pos \o h.v.es, kw)
       ELSE IF a.t = "dspread" THEN
          LET h == Ev(a.x, f, st) IN
          IF h.k # "val" THEN [k |-> h.k, pos |-> pos, kw |-> kw, st |-> h.st, v |-> h.v]
          ELSE IF h.v.t # "obj" THEN [k |-> "err", pos |-> pos, kw |-> kw, st |-> h.st, v |-> ErrV("TypeErr", "*")]
          ELSE EvArgs(as, i + 1, f, h.st, pos, kw \o h.v.ps)
       ELSE LET h == Ev(a, f, st) IN
            IF h.k # "val" THEN [k |-> h.k, pos |-> pos, kw |-> kw, st |-> h.st, v |-> h.v]
            ELSE EvArgs(as, i + 1, f, h.st, Append(pos, h.v), kw)
(* explicit keyword arguments, in the order written; they precede (win over) the **expansions *)
EvKw(ks, i, f, st, acc) ==
  IF i > Len(ks) THEN R("val", acc, st)
  ELSE LET h == Ev(ks[i].v, f, st) IN IF h.k # "val" THEN h
       ELSE EvKw(ks, i + 1, f, h.st, Append(acc, [k |-> ks[i].k, v |-> h.v]))

(* embedded string parts: strings and expressions alternate *)
EvParts(ps, i, f, st, acc) ==
  IF i > Len(ps) THEN R("val", StrV(acc), st)
  ELSE IF ps[i].t = "lit" THEN EvParts(ps, i + 1, f, st, acc \o ps[i].s)
  ELSE LET h == Ev(ps[i], f, st) IN
       IF h.k # "val" THEN h
       ELSE IF h.v.t = "int" THEN EvParts(ps, i + 1, f, h.st, acc \o ToString(h.v.i))
       ELSE IF h.v.t = "str" THEN EvParts(ps, i + 1, f, h.st, acc \o h.v.s)
       ELSE IF h.v.t = "nil" THEN EvParts(ps, i + 1, f, h.st, acc \o "nil")
       ELSE IF h.v.t = "obj" /\ OwnProp(h.v, "S").found /\ OwnProp(h.v, "S").v.t = "fn" THEN
              \* an object with an S method of its own is converted by calling it, before the next part is evaluated
              LET c == Apply(OwnProp(h.v, "S").v, <<h.v>>, <<>>, h.st) IN
              IF c.k # "val" THEN c
              ELSE IF c.v.t = "str" THEN EvParts(ps, i + 1, f, c.st, acc \o c.v.s) ELSE Unsupported(c.st)
       ELSE Unsupported(h.st)

(* what happens when a value found as a property (or a variable / literal) is called *)
CallValue(prop, pos, kw, st) ==
  IF prop.t = "fn" /\ prop.kind = "func" THEN Apply(prop, pos, kw, st)
  ELSE Unsupported(st)

(* TLC integers are 32-bit: results that could leave that range are outside the modelled fragment *)
Small(x, lim) == x < lim /\ x > -lim
IntOp(op, a, b, st) ==
  CASE ~(Small(a, 1000000000) /\ Small(b, 1000000000)) -> Unsupported(st)
    [] op = "+"  -> R("val", IntV(a + b), st)
    [] op = "-"  -> R("val", IntV(a - b), st)
    [] op = "*"  -> IF Small(a, 40000) /\ Small(b, 40000) THEN R("val", IntV(a * b), st) ELSE Unsupported(st)
    [] op = "//" -> IF b = 0 THEN R("err", ErrV("ZeroDivisionErr", "cannot be divided by 0"), st)
                    ELSE R("val", IntV(IF b > 0 THEN a \div b ELSE (-a) \div (-b)), st)
    [] op = "%"  -> IF b = 0 THEN R("err", ErrV("ZeroDivisionErr", "cannot be divided by 0"), st)
                    ELSE R("val", IntV(a - b * (IF b > 0 THEN a \div b ELSE (-a) \div (-b))), st)
    [] op = "/"  -> IF b = 0 THEN R("err", ErrV("ZeroDivisionErr", "cannot be divided by 0"), st) ELSE Unsupported(st)
    [] op = "<"  -> R("val", BoolV(a < b), st)
    [] op = "<=" -> R("val", BoolV(a <= b), st)
    [] op = ">"  -> R("val", BoolV(a > b), st)
    [] op = ">=" -> R("val", BoolV(a >= b), st)
    [] op = "<=>" -> R("val", IntV(IF a < b THEN -1 ELSE IF a = b THEN 0 ELSE 1), st)
    [] OTHER -> Unsupported(st)

(* names that no built-in prototype defines: looking them up on a value without such an own property is NoPropErr *)
UserProps == {"nosuchprop", "um", "uma", "ustep", "uget"}
(* property call on a receiver value (scalar chain, no additional context) *)
CallProp(recv, name, pos, kw, st) ==
  LET own == OwnProp(recv, name) IN
  IF own.found THEN
     (IF own.v.t = "fn" /\ own.v.kind = "func" THEN Apply(own.v, <<recv>> \o pos, kw, st)
      ELSE IF own.v.t = "fn" THEN R("val", own.v, st)          \* iterators are returned, not called
      ELSE R("val", own.v, st))                                  \* non-callable: as is, arguments ignored
  ELSE IF recv.t = "fn" /\ name = "call" THEN Apply(recv, pos, kw, st)
  ELSE IF name \in UserProps THEN R("err", ErrV("NoPropErr", "property `" \o name \o "` is not defined."), st)
  ELSE IF recv.t = "int" /\ name \in {"+", "-", "*", "//", "%", "<", "<=", ">", ">=", "<=>"} /\ Len(pos) = 1 /\ pos[1].t = "int"
       THEN IntOp(name, recv.i, pos[1].i, st)
  ELSE IF name = "len" /\ recv.t = "arr" THEN R("val", IntV(Len(recv.es)), st)
  ELSE IF name = "at" /\ recv.t = "arr" /\ Len(pos) = 1 /\ pos[1].t = "arr" /\ Len(pos[1].es) = 1 /\ pos[1].es[1].t = "int" THEN
         LET n == Len(recv.es)  i == pos[1].es[1].i IN
         R("val", IF i >= 0 /\ i < n THEN recv.es[i + 1] ELSE IF i < 0 /\ i >= -n THEN recv.es[i + n + 1] ELSE NilV, st)
  ELSE IF name = "at" /\ recv.t = "obj" /\ Len(pos) = 1 /\ pos[1].t = "arr" /\ Len(pos[1].es) = 1 /\ pos[1].es[1].t = "str" THEN
         LET p == OwnProp(recv, pos[1].es[1].s) IN IF p.found THEN R("val", p.v, st) ELSE Unsupported(st)
  ELSE Unsupported(st)

(* ------------------------------- chains --------------------------------- *)
(* cal = [form |-> "prop", n |-> name] | [form |-> "fn", fn |-> function value]                       *)
(* one call on one receiver under an additional context: "" none, "&" lonely, "~" thoughtful, "=" strict *)
ApplyLit(fn, recv, st) ==
  IF fn.t # "fn" \/ (recv.t = "obj" /\ OwnProp(recv, "_literalProxy").found) THEN Unsupported(st)
  ELSE Apply(fn, IF Len(fn.ps) > 1 /\ recv.t = "arr" THEN recv.es ELSE <<recv>>, <<>>, st)
CallOne(cal, recv, pos, kw, st) ==
  IF cal.form = "prop" THEN CallProp(recv, cal.n, pos, kw, st) ELSE ApplyLit(cal.fn, recv, st)
One(add, cal, recv, pos, kw, st) ==
  IF add = "&" /\ recv.t = "nil" THEN R("val", NilV, st)
  ELSE LET c == CallOne(cal, recv, pos, kw, st) IN
       IF add = "~" /\ (c.k = "err" \/ (c.k = "val" /\ c.v.t = "nil")) THEN R("val", recv, c.st) ELSE c

(* the elements a receiver's iterator yields *)
RangeElems(i, stop, step) ==
  IF (step > 0 /\ i < stop) \/ (step < 0 /\ i > stop) THEN <<IntV(i)>> \o RangeElems(i + step, stop, step) ELSE <<>>
(* a "view" is a descendant of an array that answers _iter itself: chains visit what ITS iterator yields, not the array it descends from *)
HasElems(v) == \/ v.t \in {"arr", "int", "view"}
               \/ v.t = "obj" /\ OwnProp(v, "_iter").found = FALSE /\ OwnProp(v, "next").found = FALSE
               \/ v.t = "range" /\ v.a.t = "int" /\ v.b.t = "int" /\ v.c.t \in {"int", "nil"} /\ (v.c.t = "nil" \/ v.c.i # 0)
Noisy(v) == v.t = "view" /\ v.noisy
Elems(v) ==
  CASE v.t = "arr"   -> v.es
    [] v.t = "view"  -> v.es
    [] v.t = "int"   -> [k \in 1..(IF v.i > 0 THEN v.i ELSE 0) |-> IntV(k)]
    [] v.t = "obj"   -> [k \in 1..Len(v.ps) |-> ArrV(<<StrV(v.ps[k].k), v.ps[k].v>>)]
    [] v.t = "range" -> RangeElems(v.a.i, v.b.i, IF v.c.t = "nil" THEN 1 ELSE v.c.i)

(* list chain: results in order; nil results dropped unless the variant keeps them ("=" strict, "~" thoughtful) *)
(* nz: the receiver's iterator reports every element it hands out (a "noisy" view): element i is produced right before call i, *)
(* never ahead of it - production and calls interleave                                                                         *)
Pull(nz, el, st) == IF nz THEN Emit(st, "out:" \o Show(el)) ELSE st
ListLoop(nz, els, i, acc, add, cal, pos, kw, st0) ==
  IF i > Len(els) THEN R("val", acc, st0)
  ELSE LET st == Pull(nz, els[i], st0)
           c == One(IF add = "=" THEN "" ELSE add, cal, els[i], pos, kw, st) IN
       IF c.k # "val" THEN c
       ELSE IF c.v.t = "nil" /\ add \notin {"=", "~"} THEN ListLoop(nz, els, i + 1, acc, add, cal, pos, kw, c.st)
       ELSE ListLoop(nz, els, i + 1, Append(acc, c.v), add, cal, pos, kw, c.st)
(* reduce chain: fold left from the chain argument; property form calls acc.prop(elem, args),            *)
(* literal form calls the function with the pair [acc, elem] (spread over two parameters)                *)
RedLoop(nz, els, i, acc, add, cal, pos, kw, st0) ==
  IF i > Len(els) THEN R("val", acc, st0)
  ELSE LET st == Pull(nz, els[i], st0) IN
       IF cal.form = "prop" THEN
         LET c == One(add, cal, acc, <<els[i]>> \o pos, kw, st) IN
         IF c.k # "val" THEN c ELSE RedLoop(nz, els, i + 1, c.v, add, cal, pos, kw, c.st)
       ELSE
         LET c == ApplyLit(cal.fn, ArrV(<<acc, els[i]>>), st) IN      \* the pair is never nil: lonely has no effect here
         IF Bad(c) THEN c
         ELSE IF add = "~" /\ (c.k = "err" \/ (c.k = "val" /\ c.v.t = "nil")) THEN RedLoop(nz, els, i + 1, acc, add, cal, pos, kw, c.st)
         ELSE IF c.k # "val" THEN c
         ELSE RedLoop(nz, els, i + 1, c.v, add, cal, pos, kw, c.st)

Digest(carg, results, st) ==
  IF carg.t = "nil" THEN R("val", ArrV(results), st)
  ELSE IF carg.t = "arr" THEN R("val", ArrV(carg.es \o results), st)
  ELSE IF carg.t = "obj" /\ carg.ps = <<>> /\ \A k \in 1..Len(results) :
              results[k].t = "arr" /\ Len(results[k].es) = 2 /\ results[k].es[1].t = "str"
       THEN R("val", ObjV(SortPairs(st.names, [k \in 1..Len(results) |-> [k |-> results[k].es[1].s, v |-> results[k].es[2]]], 1)), st)
  ELSE Unsupported(st)

Chain(main, add, cal, recv, carg, pos, kw, st) ==
  IF main = "." THEN One(add, cal, recv, pos, kw, st)
  ELSE IF ~HasElems(recv) THEN Unsupported(st)
  ELSE IF main = "@" THEN
         LET r == ListLoop(Noisy(recv), Elems(recv), 1, <<>>, add, cal, pos, kw, st) IN
         IF r.k # "val" THEN r ELSE Digest(carg, r.v, r.st)
  ELSE IF main = "$" THEN RedLoop(Noisy(recv), Elems(recv), 1, carg, add, cal, pos, kw, st)
  ELSE Unsupported(st)

Ev(e, f, st) ==
  CASE e.t = "int"  -> R("val", IntV(e.v), st)
    [] e.t = "str"  -> R("val", StrV(e.v), st)
    [] e.t = "nil"  -> R("val", NilV, st)
    [] e.t = "true" -> R("val", BoolV(TRUE), st)
    [] e.t = "false" -> R("val", BoolV(FALSE), st)
    [] e.t = "id"   -> LET r == Lookup(st.fr, f, e.n) IN
                       IF r.found THEN R("val", r.v, st) ELSE R("err", ErrV("NameErr", "name `" \o e.n \o "` is not defined"), st)
    [] e.t = "argv" -> LET r == LookupAv(st.fr, f, e.n) IN
                       IF r.found THEN R("val", r.v, st) ELSE R("err", ErrV("NameErr", "name `" \o e.n \o "` is not defined"), st)
    [] e.t = "asg"  -> LET r == Ev(e.r, f, st) IN
                       IF r.k # "val" THEN r ELSE R("val", r.v, SetVar(r.st, f, e.n, r.v))
    [] e.t = "casg" -> Ev([t |-> "asg", n |-> e.n, r |-> [t |-> "inf", op |-> e.op, l |-> [t |-> "id", n |-> e.n], r |-> e.r]], f, st)
    [] e.t = "inf"  ->
         IF e.op \in {"&&", "||"} THEN
            LET a == Ev(e.l, f, st) IN IF a.k # "val" THEN a ELSE
            LET tr == Truthy(a.v, a.st) IN IF tr.k # "val" THEN tr ELSE
            IF (e.op = "||") = tr.v.b THEN R("val", a.v, tr.st) ELSE Ev(e.r, f, tr.st)
         ELSE
            LET a == Ev(e.l, f, st) IN IF a.k # "val" THEN a ELSE
            LET b == Ev(e.r, f, a.st) IN IF b.k # "val" THEN b ELSE
            IF e.op \in {"==", "!="} THEN
               (IF EqSupported(a.v) /\ EqSupported(b.v) /\ ~(a.v.t # b.v.t /\ {a.v.t, b.v.t} \subseteq {"int", "bool"})
                THEN R("val", BoolV((e.op = "==") = VEq(a.v, b.v)), b.st) ELSE Unsupported(b.st))
            ELSE IF a.v.t = "int" /\ b.v.t = "int" THEN IntOp(e.op, a.v.i, b.v.i, b.st)
            ELSE IF e.op = "+" /\ a.v.t = "nil" /\ b.v.t = "int" THEN R("val", b.v, b.st)
            ELSE IF e.op = "+" /\ a.v.t = "str" /\ b.v.t = "str" THEN R("val", StrV(a.v.s \o b.v.s), b.st)
            ELSE IF e.op = "+" /\ a.v.t = "arr" /\ b.v.t = "arr" THEN R("val", ArrV(a.v.es \o b.v.es), b.st)
            ELSE IF e.op = "+" /\ a.v.t = "int" /\ b.v.t = "str" THEN R("err", ErrV("TypeErr", "*"), b.st)
            ELSE Unsupported(b.st)
    [] e.t = "pre"  ->
         LET a == Ev(e.x, f, st) IN IF a.k # "val" THEN a ELSE
         IF e.op = "!" THEN LET tr == Truthy(a.v, a.st) IN IF tr.k # "val" THEN tr ELSE R("val", BoolV(~tr.v.b), tr.st)
         ELSE IF e.op = "-" /\ a.v.t = "int" THEN R("val", IntV(-a.v.i), a.st)
         ELSE Unsupported(a.st)
    [] e.t = "arr"  -> LET r == EvElems(e.es, 1, f, st) IN IF r.k # "val" THEN r ELSE R("val", ArrV(r.v), r.st)
    [] e.t = "obj"  -> LET r == EvPairs(e.ps, 1, f, st) IN
                       IF r.k # "val" THEN r ELSE R("val", ObjV(SortPairs(r.st.names, r.v, 1)), r.st)
    [] e.t = "nilnew" -> R("val", NilV, st)          \* Nil.new: another nil object, nil in every respect
    [] e.t = "view" -> LET r == EvList(<<e.base, e.els>>, 1, f, st) IN
                       IF r.k # "val" THEN r ELSE IF r.v[2].t # "arr" THEN Unsupported(r.st) ELSE R("val", [t |-> "view", es |-> r.v[2].es, noisy |-> e.noisy], r.st)
    [] e.t = "range" -> LET r == EvList(<<e.a, e.b, e.c>>, 1, f, st) IN
                        IF r.k # "val" THEN r ELSE R("val", RangeV(r.v[1], r.v[2], r.v[3]), r.st)
    [] e.t = "estr" -> EvParts(e.parts, 1, f, st, "")
    [] e.t = "fn"   ->         \* keyword-parameter defaults are evaluated now, in the defining scope
         LET d == EvKw(e.kps, 1, f, st, <<>>) IN
         IF d.k # "val" THEN d
         ELSE R("val", [t |-> "fn", ps |-> e.ps, kps |-> d.v, body |-> e.body, env |-> f, kind |-> e.kind], d.st)
    [] e.t = "if"   ->
         LET c == Ev(e.c, f, st) IN IF c.k # "val" THEN c ELSE
         LET tr == Truthy(c.v, c.st) IN IF tr.k # "val" THEN tr ELSE
         IF tr.v.b THEN Ev(e.a, f, tr.st)
         ELSE IF e.b.t = "none" THEN R("val", NilV, tr.st) ELSE Ev(e.b, f, tr.st)
    [] e.t = "say"  -> LET a == Ev(e.x, f, st) IN IF a.k # "val" THEN a ELSE R("val", a.v, Emit(a.st, "out:" \o Show(a.v)))
    [] e.t = "probe" -> R("val", NilV, Emit(st, "probe:" \o ToString(e.k) \o "|" \o ShowFrames(st, f)))
    [] e.t = "raise" -> R("err", ErrV(e.kind, e.msg), st)
    [] e.t = "pcall" ->        \* receiver (or \1), positional arguments and expansions, keyword arguments, then the call
         LET rv == IF e.r.t = "none"
                   THEN (LET a == LookupAv(st.fr, f, "\\1") IN
                         IF a.found THEN R("val", a.v, st) ELSE R("err", ErrV("NameErr", "name `\\1` is not defined"), st))
                   ELSE Ev(e.r, f, st) IN
         IF rv.k # "val" THEN rv ELSE
         LET cg == IF e.carg.t = "none" THEN R("val", NilV, rv.st) ELSE Ev(e.carg, f, rv.st) IN
         IF cg.k # "val" THEN cg ELSE
         LET as == EvArgs(e.args, 1, f, cg.st, <<>>, <<>>) IN
         IF as.k # "val" THEN R(as.k, as.v, as.st) ELSE
         LET ks == EvKw(e.kw, 1, f, as.st, <<>>) IN
         IF ks.k # "val" THEN ks ELSE
         LET kw == ks.v \o as.kw IN
         Chain(e.main, e.add, [form |-> "prop", n |-> e.n], rv.v, cg.v, as.pos, kw, ks.st)
    [] e.t \in {"lcall", "vcall"} ->   \* recv.{|..| ..} / recv.^f : receiver, then the callee, then the chain argument, then the call
         LET rv == IF e.r.t = "none"
                   THEN (LET a == LookupAv(st.fr, f, "\\1") IN
                         IF a.found THEN R("val", a.v, st) ELSE R("err", ErrV("NameErr", "name `\\1` is not defined"), st))
                   ELSE Ev(e.r, f, st) IN
         IF rv.k # "val" THEN rv ELSE
         LET fv == Ev(IF e.t = "lcall" THEN e.fn ELSE [t |-> "id", n |-> e.n], f, rv.st) IN IF fv.k # "val" THEN fv ELSE
         LET cg == IF e.carg.t = "none" THEN R("val", NilV, fv.st) ELSE Ev(e.carg, f, fv.st) IN
         IF cg.k # "val" THEN cg ELSE
         IF fv.v.t # "fn" \/ fv.v.kind # "func" THEN Unsupported(cg.st)
         ELSE Chain(e.main, e.add, [form |-> "fn", fn |-> fv.v], rv.v, cg.v, <<>>, <<>>, cg.st)
    [] e.t = "try"  ->         \* recv.try.{|x| ..}.<acc> : the Either protocol for one step
         LET rv == Ev(e.r, f, st) IN IF rv.k # "val" THEN rv ELSE
         LET fv == Ev(e.fn, f, rv.st) IN IF fv.k # "val" THEN fv ELSE
         IF rv.v.t \in {"obj", "arr", "fn"} THEN Unsupported(fv.st) ELSE
         LET c == Apply(fv.v, <<rv.v>>, <<>>, fv.st) IN
         IF Bad(c) THEN c
         ELSE LET isErr == c.k = "err"
                  ew == IF isErr THEN ErrWV(c.v.kind, c.v.msg) ELSE NilV
                  vv == IF isErr THEN NilV ELSE c.v
              IN CASE e.acc = "A"   -> R("val", ArrV(<<vv, ew>>), c.st)
                   [] e.acc = "val" -> R("val", vv, c.st)
                   [] e.acc = "err" -> R("val", ew, c.st)
                   [] e.acc = "abandon" -> IF isErr THEN R("err", c.v, c.st) ELSE R("val", vv, c.st)
                   [] OTHER -> Unsupported(c.st)
    [] OTHER -> Unsupported(st)

(* ------------------------------ a run ---------------------------------- *)
InitState(names, fuel) == [fr |-> <<[vars |-> EmptyFn, av |-> EmptyFn, par |-> 0]>>, ev |-> <<>>, fuel |-> fuel, names |-> names]
Run(prog) ==
  LET r == RunBody(prog.body, 1, InitState(prog.names, 200)) IN
  [ev  |-> r.st.ev,
   k   |-> IF r.k = "ret" THEN "val" ELSE r.k,
   end |-> CASE r.k \in {"val", "ret"} -> "val:" \o Show(r.v)
             [] r.k = "err" -> "err:" \o r.v.kind
             [] OTHER -> r.k,
   msg |-> IF r.k = "err" THEN r.v.msg ELSE ""]
=============================================================================

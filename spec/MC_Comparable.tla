---------------------------- MODULE MC_Comparable ----------------------------
EXTENDS PanComparable, Sequences, Json, TLC
VARIABLES k, x, lo, hi
V == 1..3
Tables == << NatOrd(V), RevOrd(V),
             [a \in V |-> [b \in V |-> 0]],                                         \* everything is equal
             <<<<0, 1, -1>>, <<-1, 0, 1>>, <<1, -1, 0>>>>,                          \* a cycle
             [a \in V |-> [b \in V |-> IF a = b THEN 0 ELSE 2]],                    \* different values are not comparable (nil)
             <<<<1, -1, 2>>, <<-1, 1, 0>>, <<2, 0, -1>>>> >>                        \* not even reflexive
Init == k \in 1..Len(Tables) /\ x \in V /\ lo \in V /\ hi \in V
Next == UNCHANGED <<k, x, lo, hi>>
T == Tables[k]
LawsHold == LawsAny(T, x, lo) /\ LawsAny(T, x, hi) /\ (k \in {1, 2} => LawsTotal(T, V, x, lo, hi))
Emit == PrintT("CASE " \o ToJson([k |-> k, x |-> x, lo |-> lo, hi |-> hi, tbl |-> T,
          ops |-> <<Lt(T, x, lo), Le(T, x, lo), Gt(T, x, lo), Ge(T, x, lo), Eq(T, x, lo), ~Eq(T, x, lo)>>,
          between |-> Between(T, x, lo, hi), clip |-> IF k \in {1, 2} THEN Clip(T, x, lo, hi) ELSE 0]))
=============================================================================

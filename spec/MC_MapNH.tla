------------------------------ MODULE MC_MapNH ------------------------------
EXTENDS PanMap, Json, TLC
CONSTANTS MaxP, MaxQ
VARIABLES p, q
\* keys 1, 2 are the ints 1, 2; keys 3, 4 are the arrs [1], [2] (not hashable)
K == 1..4
NH == {3, 4}
V == 1..2
Lists(n) == UNION {[1..l -> K \X V] : l \in 0..n}
Init == p \in Lists(MaxP) /\ q \in Lists(MaxQ)
Next == UNCHANGED <<p, q>>
LawsHold == LawsNH(p, q, K, NH)
Emit == LET a == Build(p) b == Build(q) IN
        PrintT("CASE " \o ToJson([p |-> p, q |-> q, a |-> Items(a, NH), b |-> Items(b, NH), at |-> [k \in K |-> At(a, k)],
          ab |-> Items(Merge(a, b), NH), ba |-> Items(Merge(b, a), NH), eq |-> Eq(a, b), arrm |-> ArrM(p, NH), arrmat |-> [k \in K |-> FirstAt(ArrM(p, NH), k)]]))
=============================================================================

------------------------------- MODULE MC_C14 -------------------------------
EXTENDS PanIter, Json
Emit == (Len(log) = MaxOps) => PrintT("CASE " \o ToJson([body |-> Body, log |-> log]))
=============================================================================

------------------------------ MODULE PanObjAlg ------------------------------
(***************************************************************************)
(* Objects are immutable: "updates" are functions from objects to new      *)
(* objects (native/Obj.pangaea, native/Kernel.pangaea).  This module states *)
(* what each of them returns, as the code has it:                          *)
(*   P.new(args, kw)  (new: _init('a, 'b, c: 3, _h: 0))                     *)
(*        a child of P holding the positional parameters, the PUBLIC       *)
(*        keywords among the declared defaults, and the defaults; the      *)
(*        wrong number of positionals raises TypeErr.  DEVIATION kept as   *)
(*        is: a declared default with a private name (_h) cannot be        *)
(*        overridden (the keyword filter iterates public names only).      *)
(*   o.bro(src)       a sibling: o's prototype, ONLY src's properties      *)
(*   o.patch(kw)      a sibling holding kw's properties, then all of o's   *)
(*   o.del(names)     DEVIATION kept as is: a plain object (prototype Obj) *)
(*                    holding o's PUBLIC properties except the names       *)
(*   o.digest(pairs)  DEVIATION kept as is: a plain object holding o's     *)
(*                    properties, then the pairs' (first occurrence wins)   *)
(* An object is [p |-> "P" | "Obj", ps |-> [Names -> value or Absent]].     *)
(***************************************************************************)
EXTENDS Integers, Sequences, FiniteSets, TLC
Names == {"a", "b", "c", "d", "e", "_h"}
Absent == -1
Private(n) == n = "_h"
None == [n \in Names |-> Absent]
Props(f) == [n \in Names |-> IF n \in DOMAIN f THEN f[n] ELSE Absent]          \* from a partial function
Merge(first, second) == [n \in Names |-> IF first[n] # Absent THEN first[n] ELSE second[n]]
PublicOnly(ps) == [n \in Names |-> IF Private(n) THEN Absent ELSE ps[n]]
RECURSIVE FromPairs(_)
FromPairs(prs) == IF prs = <<>> THEN None ELSE Merge(Props(Head(prs)[1] :> Head(prs)[2]), FromPairs(Tail(prs)))

Defaults == Props("c" :> 3 @@ "_h" :> 0)
New(args, kw) ==
  IF Len(args) # 2 THEN [err |-> "TypeErr"]
  ELSE [p |-> "P", ps |-> Merge(Props("a" :> args[1] @@ "b" :> args[2]),
                          Merge([n \in Names |-> IF Defaults[n] # Absent /\ ~Private(n) THEN kw[n] ELSE Absent], Defaults))]
Bro(o, src) == [p |-> o.p, ps |-> src]
Patch(o, kw) == [p |-> o.p, ps |-> Merge(kw, o.ps)]
Del(o, names) == [p |-> "Obj", ps |-> [n \in Names |-> IF n \in names THEN Absent ELSE PublicOnly(o.ps)[n]]]
Digest(o, prs) == [p |-> "Obj", ps |-> Merge(o.ps, FromPairs(prs))]

Apply(o, op) ==
  CASE op.k = "bro" -> Bro(o, op.x)
    [] op.k = "patch" -> Patch(o, op.x)
    [] op.k = "del" -> Del(o, op.x)
    [] op.k = "digest" -> Digest(o, op.x)
RECURSIVE Run(_, _)
Run(o, ops) == IF ops = <<>> THEN o ELSE Run(Apply(o, Head(ops)), Tail(ops))

(* laws *)
BroForgets(o, src) == Bro(o, src).ps = src /\ Bro(o, src).p = o.p
PatchKeeps(o, kw) == /\ Patch(o, kw).p = o.p
                     /\ \A n \in Names : o.ps[n] # Absent => Patch(o, kw).ps[n] # Absent
                     /\ Patch(Patch(o, kw), kw) = Patch(o, kw)
DelPlain(o, names) == Del(o, names).p = "Obj" /\ \A n \in Names : Private(n) \/ n \in names => Del(o, names).ps[n] = Absent
DigestNothing(o) == Digest(o, <<>>).ps = o.ps
=============================================================================

------------------------------- MODULE PanArr -------------------------------
(***************************************************************************)
(* Functions of arrays (props/arr_props.go, native/Arr.pangaea) as          *)
(* functions on sequences: + (concatenation), * n (repetition), len, has?,  *)
(* rev, assign(i, v) (a new array with position i replaced, counting from   *)
(* the end for negative i; out of range: the array itself), unwrap (the     *)
(* single element of a one-element array, else the array), empty?, B (an    *)
(* array is truthy when it has elements), join, T of a rectangular array of *)
(* arrays, ==.  Arrays are values: no function changes its receiver.        *)
(***************************************************************************)
EXTENDS Integers, Sequences
Rev(q) == [i \in 1..Len(q) |-> q[Len(q) + 1 - i]]
RECURSIVE Repeat(_, _)
Repeat(q, n) == IF n <= 0 THEN <<>> ELSE q \o Repeat(q, n - 1)
Has(q, v) == \E i \in 1..Len(q) : q[i] = v
(* position i (0-based, negative from the end) inside the array *)
InRange(q, i) == i >= -Len(q) /\ i <= Len(q) - 1
Pos(q, i) == IF i < 0 THEN Len(q) + i + 1 ELSE i + 1
Assign(q, i, v) == IF InRange(q, i) THEN [q EXCEPT ![Pos(q, i)] = v] ELSE q
(* what native/Arr.pangaea does: [*self[:i], v, *self[i+1:]] - for i = -1 the tail self[i+1:] is self[0:], the WHOLE array, so the last element *)
(* is not replaced: v is inserted before a copy of the array.  A finding of this model (no listed property speaks about assign); kept as a    *)
(* named deviation so that everything else about assign stays checked.                                                                      *)
AssignObserved(q, i, v) == IF i = -1 /\ Len(q) >= 1 THEN SubSeq(q, 1, Len(q) - 1) \o <<v>> \o q ELSE Assign(q, i, v)
Transpose(m, rows, cols) == [c \in 1..cols |-> [r \in 1..rows |-> m[r][c]]]

Laws(a, b) == /\ Len(a \o b) = Len(a) + Len(b)
              /\ Rev(Rev(a)) = a
              /\ Rev(a \o b) = Rev(b) \o Rev(a)
              /\ \A v \in 1..3 : Has(a \o b, v) = (Has(a, v) \/ Has(b, v))
              /\ \A i \in -4..3 : /\ Len(Assign(a, i, 9)) = Len(a)
                                  /\ (InRange(a, i) => Assign(a, i, 9)[Pos(a, i)] = 9 /\ Assign(Assign(a, i, 9), i, a[Pos(a, i)]) = a)
                                  /\ (~InRange(a, i) => Assign(a, i, 9) = a)
              /\ \A n \in 0..3 : Len(Repeat(a, n)) = n * Len(a)
=============================================================================

------------------------------ MODULE PanRange ------------------------------
(***************************************************************************)
(* Ranges as sequences (docs/reference/range.md, props/range_props.go,      *)
(* native/Range.pangaea).  A range is a triplet (start, stop, step); step   *)
(* nil stands for 1.  Iterating it yields start, start + step, ... as long  *)
(* as the value lies before stop in the direction of the step; step 0 is a  *)
(* ValueErr.  Bounds here are ints, or one-character strs standing for      *)
(* their code points (the successor of a character is the next code point). *)
(* Everything an Iterable offers is a function of that sequence; slicing an *)
(* array with the same triplet picks the elements at those positions when   *)
(* the triplet lies inside the array (C11's PanIndex states the clamping).   *)
(***************************************************************************)
EXTENDS Integers, Sequences
Nil == 1000
Eff(s) == IF s = Nil THEN 1 ELSE s
RECURSIVE Walk(_, _, _)
Walk(x, b, s) == IF (s > 0 /\ x < b) \/ (s < 0 /\ x > b) THEN <<x>> \o Walk(x + s, b, s) ELSE <<>>
Elems(a, b, s) == Walk(a, b, Eff(s))
Inc(s) == Eff(s) > 0
Dec(s) == Eff(s) < 0
RECURSIVE SumOf(_)
SumOf(q) == IF q = <<>> THEN 0 ELSE Head(q) + SumOf(Tail(q))
Member(v, q) == \E i \in 1..Len(q) : q[i] = v
IndexOf(v, q) == IF Member(v, q) THEN (CHOOSE i \in 1..Len(q) : q[i] = v /\ \A j \in 1..(i - 1) : q[j] # v) - 1 ELSE -1
(* `index` compares with the case equality ===, under which a prototype matches its instances - and the int 0 == Int (a prototype equals its   *)
(* zero value), so 0 matches every int.  Named here because it is what the implementation does (see PanMatch for ===).                        *)
CaseEq(e, v) == e = v \/ v = 0
IndexOfCase(v, q) == IF \E i \in 1..Len(q) : CaseEq(q[i], v) THEN (CHOOSE i \in 1..Len(q) : CaseEq(q[i], v) /\ \A j \in 1..(i - 1) : ~CaseEq(q[j], v)) - 1 ELSE -1
Rev(q) == [i \in 1..Len(q) |-> q[Len(q) + 1 - i]]
(* an int n iterates 1 .. n *)
IntElems(n) == [i \in 1..(IF n > 0 THEN n ELSE 0) |-> i]
(* the triplet lies inside an array of length n: slicing needs no clamping and no counting from the end *)
Inside(a, b, s, n) == a \in 0..(n - 1) /\ b \in 0..n /\ s # 0

(* ---- laws (checked by TLC on every enumerated triplet) ----------------- *)
Abs(x) == IF x < 0 THEN -x ELSE x
Laws(a, b, s) == s # 0 =>
  LET q == Elems(a, b, s) e == Eff(s) IN
  /\ \A i \in 1..Len(q) : q[i] = a + (i - 1) * e                      \* an arithmetic progression from start
  /\ \A i \in 1..Len(q) : IF e > 0 THEN q[i] < b ELSE q[i] > b        \* stop is never reached
  /\ (Len(q) > 0 => IF e > 0 THEN q[Len(q)] + e >= b ELSE q[Len(q)] + e <= b)   \* and nothing before it is left out
  /\ (q = <<>>) = (IF e > 0 THEN a >= b ELSE a <= b)
  /\ \A v \in (a - 4)..(a + 8) : Member(v, q) = (/\ (IF e > 0 THEN v >= a /\ v < b ELSE v <= a /\ v > b)
                                                   /\ (v - a) % Abs(e) = 0)
  /\ (Len(q) > 0 => Rev(q) = Elems(q[Len(q)], a - (IF e > 0 THEN 1 ELSE -1), -e))   \* walked from the other end
=============================================================================

------------------------------ MODULE PanProto ------------------------------
(***************************************************************************)
(* C05: the prototype forest.  An object is [proto, own, how, src]; proto   *)
(* and src are indices into objs (0 = the built-in Obj).  own maps a subset *)
(* of the property names to a kind: "val" (non-callable), "meth" (method    *)
(* literal m{..}), "fn" (function literal {|x| ..}).  "_missing" is an      *)
(* ordinary name for Find.                                                  *)
(* Actions: Literal(own), Bear(src, own) (child: proto = src),              *)
(*          Bro(src, own)  (sibling: proto = src's proto),                  *)
(*          Noise(s1, s2): an unrelated literal {**o_s1, **o_s2} is         *)
(*          evaluated and dropped; values are immutable, so it changes      *)
(*          nothing in the forest (noise only records where it happened).   *)
(***************************************************************************)
EXTENDS Integers, Sequences, FiniteSets, TLC
CONSTANTS MaxObjs
VARIABLES objs, noise

Names == {"a", "b", "_p"}
Query == <<"a", "b", "_p", "zz">>         \* zz is defined nowhere
Fn(S, k) == [n \in S |-> k]
Mix(f, g) == [n \in DOMAIN f \cup DOMAIN g |-> IF n \in DOMAIN f THEN f[n] ELSE g[n]]
(* the property sets an object may be created with *)
OwnSets == { Fn({}, "val"), Fn({"a"}, "val"), Fn({"a"}, "meth"), Fn({"a"}, "fn"), Fn({"b"}, "val"),
             Mix(Fn({"a"}, "val"), Fn({"b"}, "meth")), Fn({"_missing"}, "meth"),
             Mix(Fn({"a"}, "meth"), Fn({"_missing"}, "meth")), Fn({"_p"}, "val"), Mix(Fn({"b"}, "fn"), Fn({"_p"}, "meth")),
             Mix(Fn({"a"}, "raiser"), Fn({"_missing"}, "meth")) }      \* "raiser": a method that is found and whose body raises a NoPropErr of its own

Init == objs = <<>> /\ noise = <<>>
(* tagged: the replay gives the object a unique `tag` property so that the language's structural == is identity;      *)
(* objects with no property at all (tagged = FALSE) and non-object roots (rk # "obj": 5, "s", [1, 2]) have none.          *)
(* above: the built-in prototype over an object whose proto is 0 - Obj for literals; the sibling of such an object shares it *)
AboveOf(how, src) == IF how = "bro" /\ src # 0 /\ objs[src].proto = 0 THEN objs[src].above ELSE "obj"
New(p, own, how, src) == objs' = Append(objs, [proto |-> p, own |-> own, how |-> how, src |-> src, tagged |-> TRUE, rk |-> "obj", above |-> AboveOf(how, src)]) /\ UNCHANGED noise
NewEmpty(p, how, src) == objs' = Append(objs, [proto |-> p, own |-> Fn({}, "val"), how |-> how, src |-> src, tagged |-> FALSE, rk |-> "obj", above |-> AboveOf(how, src)]) /\ UNCHANGED noise
NewRoot(kind) == objs' = Append(objs, [proto |-> 0, own |-> Fn({}, "val"), how |-> "lit", src |-> 0, tagged |-> FALSE, rk |-> kind, above |-> kind]) /\ UNCHANGED noise
(* the sibling of a root that is not an object (`5.bro({..})`): a child of the VALUE's prototype (Int, Str, Arr) - an object whose      *)
(* user-defined chain is itself alone, with that built-in prototype above it                                                         *)
BroRoot(s, own) == /\ objs[s].rk # "obj"
                   /\ objs' = Append(objs, [proto |-> 0, own |-> own, how |-> "bro", src |-> s, tagged |-> TRUE, rk |-> "obj", above |-> objs[s].rk])
                   /\ UNCHANGED noise
Noise(s1, s2) == noise = <<>> /\ noise' = <<[at |-> Len(objs), a |-> s1, b |-> s2]>> /\ UNCHANGED objs
Literal(own)   == New(0, own, "lit", 0)
Bear(src, own) == New(src, own, "bear", src)
Bro(src, own)  == New(objs[src].proto, own, "bro", src)
Next == /\ Len(objs) < MaxObjs
        /\ \/ \E own \in OwnSets : \/ Literal(own)
                                   \/ \E s \in 1..Len(objs) : Bear(s, own) \/ (objs[s].rk = "obj" /\ Bro(s, own)) \/ BroRoot(s, own)
           \/ NewEmpty(0, "lit", 0)
           \/ \E s \in 1..Len(objs) : NewEmpty(s, "bear", s) \/ (objs[s].rk = "obj" /\ NewEmpty(objs[s].proto, "bro", s))
           \/ (objs = <<>> /\ \E kind \in {"int", "str", "arr", "nil"} : NewRoot(kind))
           \/ \E s1, s2 \in 1..Len(objs) : s1 # s2 /\ objs[s1].rk = "obj" /\ objs[s2].rk = "obj" /\ Noise(s1, s2)
Spec == Init /\ [][Next]_<<objs, noise>>

(* ---- resolution ---------------------------------------------------------- *)
RECURSIVE Find(_, _), Chain(_)
(* search o, its prototype, ... up to (excluding) the built-ins *)
Find(o, n) == IF o = 0 THEN [found |-> FALSE, owner |-> 0, kind |-> "none"]
              ELSE IF n \in DOMAIN objs[o].own THEN [found |-> TRUE, owner |-> o, kind |-> objs[o].own[n]]
              ELSE Find(objs[o].proto, n)
Chain(o) == IF o = 0 THEN <<>> ELSE <<o>> \o Chain(objs[o].proto)     \* o and its user-defined ancestors
Ancestors(o) == Tail(Chain(o))                                        \* followed by Obj, BaseObj in the language
(* reading or calling o.n : the property found first, else the first _missing, else NoPropErr *)
Resolve(o, n) ==
  LET p == Find(o, n) IN
  IF p.found THEN [r |-> "prop", owner |-> p.owner, kind |-> p.kind]
  ELSE LET m == Find(o, "_missing") IN
       IF m.found THEN [r |-> "missing", owner |-> m.owner, kind |-> m.kind]
       ELSE [r |-> "noprop", owner |-> 0, kind |-> "none"]
KindOf(o, x) == \E k \in 1..Len(Chain(o)) : Chain(o)[k] = x
(* what kindOf? can observe: it compares with the structural ==, under which all property-less objects are one *)
KindOfObs(o, x) == IF objs[x].tagged \/ objs[x].rk # "obj" THEN KindOf(o, x)
                   ELSE \E k \in 1..Len(Chain(o)) : ~objs[Chain(o)[k]].tagged /\ objs[Chain(o)[k]].rk = "obj"
(* the tag an object shows: its own, else the nearest tagged ancestor's (0: none) *)
RECURSIVE EffTag(_)
EffTag(o) == IF o = 0 THEN 0 ELSE IF objs[o].tagged THEN o ELSE EffTag(objs[o].proto)
RootKind(o) == LET top == objs[Chain(o)[Len(Chain(o))]] IN IF top.rk # "obj" THEN top.rk ELSE top.above
PublicKeys(o) == {n \in DOMAIN objs[o].own : n \notin {"_p", "_missing"}}

(* ---- properties of the forest (checked on every reachable forest) -------- *)
RangeOf(s) == {s[k] : k \in 1..Len(s)}
OwnerIsFirstHit == \A o \in 1..Len(objs) : \A n \in Names \cup {"_missing"} :
   LET p == Find(o, n) c == Chain(o) IN
   p.found => /\ p.owner \in RangeOf(c)
              /\ \A k \in 1..Len(c) : (c[k] = p.owner) => \A j \in 1..(k - 1) : n \notin DOMAIN objs[c[j]].own
ProtoRules == \A o \in 1..Len(objs) :
   /\ objs[o].proto < o
   /\ (objs[o].how = "bear" => objs[o].proto = objs[o].src)
   /\ (objs[o].how = "bro"  => objs[o].proto = objs[objs[o].src].proto)
   /\ (objs[o].how = "lit"  => objs[o].proto = 0)
MissingOnlyWhenAbsent == \A o \in 1..Len(objs) : \A k \in 1..Len(Query) :
   Resolve(o, Query[k]).r = "missing" => ~Find(o, Query[k]).found
KeysAreOwn == \A o \in 1..Len(objs) : PublicKeys(o) \subseteq DOMAIN objs[o].own
=============================================================================

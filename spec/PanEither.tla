------------------------------ MODULE PanEither ------------------------------
(***************************************************************************)
(* C13: v.try.f1.f2...fk : a k-step chain on an Either.                     *)
(* State: pos (steps consumed), st = the single outcome so far:             *)
(*   [ok |-> TRUE, v |-> value]  or  [ok |-> FALSE, kind, msg]              *)
(* Each step runs only while st.ok; the first failure is final (Stable).    *)
(* Values: [t |-> "R", n] (receiver object with payload n), [t |-> "nil"],  *)
(* [t |-> "errw", kind, msg] (a caught error object: an ordinary value),    *)
(* [t |-> "int", n].  ran = markers of the steps that were actually called. *)
(***************************************************************************)
EXTENDS Integers, Sequences, TLC
CONSTANTS MaxSteps
VARIABLES chain, pos, st, ran
vars == <<chain, pos, st, ran>>

StepKinds == {"inc", "tonil", "bad", "div0", "name", "add", "add2", "adddef", "lit2", "litbad", "errobj", "getv", "wrapv", "wrapbad"}
(* steps whose successful result is itself an Either (a nested try returned, not consumed): the outer chain holds that object as its value *)
WrapKinds == {"wrapv", "wrapbad"}
R(n) == [t |-> "R", n |-> n]
NilV == [t |-> "nil"]
Val(v) == [ok |-> TRUE, v |-> v, kind |-> "", msg |-> ""]
Err(k, m) == [ok |-> FALSE, v |-> NilV, kind |-> k, msg |-> m]
Marker(s) == CASE s = "inc" -> 1 [] s = "tonil" -> 2 [] s = "bad" -> 3 [] s = "div0" -> 4 [] s = "name" -> 5 [] s = "add" -> 6
               [] s = "lit2" -> 7 [] s = "litbad" -> 8 [] s = "errobj" -> 9 [] s = "getv" -> 0
               [] s = "add2" -> 6 [] s = "adddef" -> 6 [] s = "wrapv" -> 10 [] s = "wrapbad" -> 11
IsProp(s) == s \in {"inc", "tonil", "bad", "div0", "name", "add", "add2", "adddef", "getv", "wrapv", "wrapbad"}

(* what calling step s on value v does (the plain call) *)
Call(s, v) ==
  IF v.t = "R" THEN
     CASE s = "inc"    -> Val(R(v.n + 1))
       [] s = "tonil"  -> Val(NilV)
       [] s = "bad"    -> Err("Err", "bad")
       [] s = "div0"   -> Err("ZeroDivisionErr", "cannot be divided by 0")
       [] s = "name"   -> Err("NameErr", "name `undefinedname` is not defined")
       [] s = "add"    -> Val(R(v.n + 3 + 1))            \* add(3, k: 1): positional and keyword argument both arrive
       [] s = "add2"   -> Val(R(v.n + 3 + 2))            \* add(3, k: 2): every call gets the keyword value written at that call
       [] s = "adddef" -> Val(R(v.n + 3 + 0))            \* add(3): the keyword parameter's default
       [] s = "wrapv"  -> Val([t |-> "E", ok |-> TRUE, n |-> v.n])     \* self.try: an Either holding the receiver
       [] s = "wrapbad" -> Val([t |-> "E", ok |-> FALSE, n |-> v.n])   \* self.try.bad: an Either holding an error - still a successful step
       [] s = "lit2"   -> Val(R(v.n * 2))
       [] s = "litbad" -> Err("Err", "lit")
       [] s = "errobj" -> Val([t |-> "errw", kind |-> "Err", msg |-> "bad"])   \* a step that *returns* a caught error succeeded
       [] s = "getv"   -> Val([t |-> "int", n |-> v.n])                          \* a non-callable property: its value, as is
  ELSE \* nil or an error object: property steps name a missing property, literal steps still run
     CASE IsProp(s)    -> Err("NoPropErr", "missing:" \o s)
       [] s = "lit2"   -> Err("NoPropErr", "property `v` is not defined.")
       [] s = "litbad" -> Err("Err", "lit")
       [] s = "errobj" -> Val([t |-> "errw", kind |-> "Err", msg |-> "bad"])

Init == /\ chain \in {c \in UNION {[1..n -> StepKinds] : n \in 0..MaxSteps} : \A k \in 1..(Len(c) - 1) : c[k] \notin WrapKinds}   \* a wrapping step is the last one
        /\ pos = 0 /\ st = Val(R(1)) /\ ran = <<>>
Step == /\ pos < Len(chain)
        /\ pos' = pos + 1
        /\ IF st.ok THEN /\ st' = Call(chain[pos + 1], st.v)
                         /\ ran' = IF (st.v.t = "R" /\ chain[pos + 1] # "getv") \/ ~IsProp(chain[pos + 1])
                                   THEN Append(ran, Marker(chain[pos + 1])) ELSE ran        \* a missing property runs nothing
           ELSE UNCHANGED <<st, ran>>                   \* after the first failure every further call is skipped
        /\ UNCHANGED chain
Next == Step
Spec == Init /\ [][Next]_vars
Done == pos = Len(chain)

(* ---- properties of the machine ------------------------------------------- *)
Stable == [][~st.ok => st' = st /\ ran' = ran]_vars
(* the steps that ran are exactly the prefix up to and including the first failing one *)
RanIsPrefix == Len(ran) <= pos
(* classes in which the implementation's proxy (Wrappable._missing) is known to deviate: a step naming a property that   *)
(* is missing on the current value, and a step naming a non-callable property                                          *)
MissingPropClass == ~st.ok /\ st.kind = "NoPropErr" /\ \E s \in StepKinds : st.msg = "missing:" \o s
NonCallableClass == \E k \in 1..Len(chain) : chain[k] = "getv"

(* ---- accessors on the final outcome --------------------------------------- *)
ErrW == [t |-> "errw", kind |-> st.kind, msg |-> st.msg]
Acc(a) ==
  CASE a = "val"  -> [r |-> "val", v |-> IF st.ok THEN st.v ELSE NilV]
    [] a = "err"  -> [r |-> "val", v |-> IF st.ok THEN NilV ELSE ErrW]
    [] a = "A"    -> [r |-> "pair", v |-> IF st.ok THEN st.v ELSE NilV, e |-> IF st.ok THEN NilV ELSE ErrW]
    [] a = "or"   -> [r |-> "val", v |-> IF st.ok THEN st.v ELSE [t |-> "int", n |-> 99]]
    [] a = "val?" -> [r |-> "val", v |-> [t |-> "bool", b |-> st.ok /\ st.v.t # "nil"]]
    [] a = "err?" -> [r |-> "val", v |-> [t |-> "bool", b |-> ~st.ok]]
    [] a = "catchErr"  -> [r |-> "pair", v |-> IF st.ok THEN st.v ELSE IF st.kind = "Err" THEN [t |-> "int", n |-> 77] ELSE NilV,
                           e |-> IF st.ok \/ st.kind = "Err" THEN NilV ELSE ErrW]
    [] a = "catchType" -> [r |-> "pair", v |-> IF st.ok THEN st.v ELSE NilV, e |-> IF st.ok THEN NilV ELSE ErrW]
    [] a = "ignoreErr" -> [r |-> "pair", v |-> IF st.ok THEN st.v ELSE NilV, e |-> IF st.ok \/ st.kind = "Err" THEN NilV ELSE ErrW]
    [] a = "abandon"   -> IF st.ok THEN [r |-> "val", v |-> st.v] ELSE [r |-> "raise", v |-> ErrW]
Accessors == <<"val", "err", "A", "or", "val?", "err?", "catchErr", "catchType", "ignoreErr", "abandon">>
(* accessor consistency: A = [val, err]; val? / err? ; abandon returns the value or re-raises *)
Consistent == Done =>
   /\ Acc("A").v = Acc("val").v /\ Acc("A").e = Acc("err").v
   /\ Acc("err?").v.b = (Acc("err").v.t = "errw")
   /\ (Acc("abandon").r = "raise") = ~st.ok
=============================================================================

------------------------------ MODULE MC_JsonDec ------------------------------
EXTENDS PanJsonDec, Json
Num(txt, isint, v, shown) == [t |-> "num", txt |-> txt, int |-> isint, v |-> v, shown |-> shown]
Leaves == {Num("1", TRUE, 1, ""), Num("-3", TRUE, -3, ""), Num("2.0", TRUE, 2, ""), Num("1e2", TRUE, 100, ""), Num("-0.0", TRUE, 0, ""), Num("1.5", FALSE, 0, "1.5"),
           Num("1e-2", FALSE, 0, "0.01"), [t |-> "str", s |-> "a"], [t |-> "str", s |-> ""], [t |-> "lit", s |-> "true"], [t |-> "lit", s |-> "false"], [t |-> "lit", s |-> "null"]}
Keys == {"a", "b", "_p", "a b"}
SmallLeaves == {Num("1", TRUE, 1, ""), Num("2.0", TRUE, 2, ""), [t |-> "str", s |-> "a"], [t |-> "lit", s |-> "null"]}
Arr1 == {[t |-> "arr", es |-> es] : es \in UNION {[1..l -> SmallLeaves] : l \in 0..2}}
Obj1 == {[t |-> "obj", ms |-> ms] : ms \in UNION {[1..l -> [k : Keys, v : SmallLeaves]] : l \in 0..2}}
Inner == {[t |-> "arr", es |-> <<>>], [t |-> "arr", es |-> <<Num("1", TRUE, 1, ""), [t |-> "lit", s |-> "null"]>>], [t |-> "obj", ms |-> <<>>],
          [t |-> "obj", ms |-> <<[k |-> "a", v |-> Num("1", TRUE, 1, "")], [k |-> "a", v |-> Num("2.0", TRUE, 2, "")]>>], [t |-> "obj", ms |-> <<[k |-> "b", v |-> [t |-> "str", s |-> "a"]]>>]}
Nested == {[t |-> "arr", es |-> es] : es \in UNION {[1..l -> Inner \cup {Num("1.5", FALSE, 0, "1.5")}] : l \in 1..2}}
          \cup {[t |-> "obj", ms |-> ms] : ms \in UNION {[1..l -> [k : {"a", "_p"}, v : Inner]] : l \in 1..2}}
VARIABLES doc
Init == doc \in Leaves \cup Arr1 \cup Obj1 \cup Nested
Next == UNCHANGED doc
LawsHold == Laws(doc)
Emit == PrintT("CASE " \o ToJson([text |-> Text(doc), v |-> Dec(doc)]))
=============================================================================

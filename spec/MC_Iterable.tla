----------------------------- MODULE MC_Iterable -----------------------------
EXTENDS PanIterable, Json
CONSTANTS MaxLen
Elems == {0, 1, 2, 3}
RECURSIVE SeqsUpTo(_, _)
SeqsUpTo(A, n) == IF n = 0 THEN {<<>>} ELSE LET S == SeqsUpTo(A, n - 1) IN S \cup {Append(s, c) : s \in {t \in S : Len(t) = n - 1}, c \in A}
VARIABLES s, op
Init == s \in SeqsUpTo(Elems, MaxLen) /\ op \in Ops
Next == UNCHANGED <<s, op>>
LawsHold == Laws(s)
Emit == PrintT("CASE " \o ToJson([s |-> s, op |-> op, r |-> Result(op, s)]))
=============================================================================

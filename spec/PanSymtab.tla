------------------------------ MODULE PanSymtab ------------------------------
(***************************************************************************)
(* C20 design model: N processes (evaluations) calling GetSymHash(s) and    *)
(* SymHash2Str(h) on the shared symbol tables.  Every table access takes    *)
(* two steps (begin / end) so that two overlapping accesses are a state.    *)
(* LockedS2S = TRUE is the code after the fix: commit (SymHash2Str takes    *)
(* the read lock); FALSE is the defect and must violate NoRace.             *)
(***************************************************************************)
EXTENDS PanLockset, TLC
CONSTANTS Str, LockedS2S, SplitPublish
VARIABLES symTab, strTab, pc, arg, acc
vars == <<rc, writer, wrote, symTab, strTab, pc, arg, acc>>
NoStr == "none"

Init == /\ LInit
        /\ symTab = {} /\ strTab = {}
        /\ pc = [p \in Proc |-> "idle"] /\ arg = [p \in Proc |-> NoStr]
        /\ acc = [p \in Proc |-> [tab |-> NoStr, w |-> FALSE]]

Go(p, to)    == pc' = [pc EXCEPT ![p] = to]
NoAcc(p)     == acc' = [acc EXCEPT ![p] = [tab |-> NoStr, w |-> FALSE]]
Acc(p, t, w) == acc' = [acc EXCEPT ![p] = [tab |-> t, w |-> w]]
L0 == UNCHANGED <<rc, writer, wrote>>
Wrote(p, tab) == wrote' = [wrote EXCEPT ![p] = @ \cup {tab}] /\ UNCHANGED <<rc, writer>>
(* the defect variant SplitPublish releases the lock between the two table writes (two critical sections) *)
RawWUnlock(p) == writer = p /\ writer' = None /\ UNCHANGED <<rc, wrote>>

StartGet(p, s) == pc[p] = "idle" /\ Go(p, "g_rlock") /\ arg' = [arg EXCEPT ![p] = s]
                  /\ L0 /\ UNCHANGED <<symTab, strTab, acc>>
StartS2S(p, s) == pc[p] = "idle" /\ s \in symTab /\ arg' = [arg EXCEPT ![p] = s]
                  /\ Go(p, IF LockedS2S THEN "s_rlock" ELSE "s_read")
                  /\ L0 /\ UNCHANGED <<symTab, strTab, acc>>
Step(p) ==
  \/ pc[p] = "g_rlock" /\ RLock(p) /\ Go(p, "g_read") /\ UNCHANGED <<symTab, strTab, arg, acc>>
  \/ pc[p] = "g_read" /\ Acc(p, "sym", FALSE) /\ Go(p, "g_read_e") /\ L0 /\ UNCHANGED <<symTab, strTab, arg>>
  \/ pc[p] = "g_read_e" /\ NoAcc(p) /\ Go(p, IF arg[p] \in symTab THEN "g_runlock_hit" ELSE "g_runlock_miss")
       /\ L0 /\ UNCHANGED <<symTab, strTab, arg>>
  \/ pc[p] = "g_runlock_hit" /\ RUnlock(p) /\ Go(p, "idle") /\ UNCHANGED <<symTab, strTab, arg, acc>>
  \/ pc[p] = "g_runlock_miss" /\ RUnlock(p) /\ Go(p, "g_wlock") /\ UNCHANGED <<symTab, strTab, arg, acc>>
  \/ pc[p] = "g_wlock" /\ WLock(p) /\ Go(p, "g_wsym") /\ UNCHANGED <<symTab, strTab, arg, acc>>
  \/ pc[p] = "g_wsym" /\ Acc(p, "sym", TRUE) /\ Go(p, "g_wsym_e") /\ L0 /\ UNCHANGED <<symTab, strTab, arg>>
  \/ pc[p] = "g_wsym_e" /\ NoAcc(p) /\ symTab' = symTab \cup {arg[p]} /\ Go(p, IF SplitPublish THEN "g_mid_unlock" ELSE "g_wstr")
       /\ Wrote(p, "symHashTable") /\ UNCHANGED <<strTab, arg>>
  \/ pc[p] = "g_mid_unlock" /\ RawWUnlock(p) /\ Go(p, "g_mid_lock") /\ UNCHANGED <<symTab, strTab, arg, acc>>
  \/ pc[p] = "g_mid_lock" /\ WLock(p) /\ Go(p, "g_wstr") /\ UNCHANGED <<symTab, strTab, arg, acc>>
  \/ pc[p] = "g_wstr" /\ Acc(p, "str", TRUE) /\ Go(p, "g_wstr_e") /\ L0 /\ UNCHANGED <<symTab, strTab, arg>>
  \/ pc[p] = "g_wstr_e" /\ NoAcc(p) /\ strTab' = strTab \cup {arg[p]} /\ Go(p, "g_wunlock") /\ Wrote(p, "strTable") /\ UNCHANGED <<symTab, arg>>
  \/ pc[p] = "g_wunlock" /\ (IF SplitPublish THEN RawWUnlock(p) ELSE WUnlock(p)) /\ Go(p, "idle") /\ UNCHANGED <<symTab, strTab, arg, acc>>
  \/ pc[p] = "s_rlock" /\ RLock(p) /\ Go(p, "s_read") /\ UNCHANGED <<symTab, strTab, arg, acc>>
  \/ pc[p] = "s_read" /\ Acc(p, "str", FALSE) /\ Go(p, "s_read_e") /\ L0 /\ UNCHANGED <<symTab, strTab, arg>>
  \/ pc[p] = "s_read_e" /\ NoAcc(p) /\ Go(p, IF LockedS2S THEN "s_runlock" ELSE "idle") /\ L0 /\ UNCHANGED <<symTab, strTab, arg>>
  \/ pc[p] = "s_runlock" /\ RUnlock(p) /\ Go(p, "idle") /\ UNCHANGED <<symTab, strTab, arg, acc>>
Next == \E p \in Proc : Step(p) \/ \E s \in Str : StartGet(p, s) \/ StartS2S(p, s)
Spec == Init /\ [][Next]_vars

(* no two overlapping accesses to the same table unless both are reads *)
NoRace == \A p, q \in Proc :
            (p # q /\ acc[p].tab # NoStr /\ acc[p].tab = acc[q].tab) => ~(acc[p].w \/ acc[q].w)
(* every access in progress is one PanLockset enables: this is what Trace_C20 checks on real traces *)
LockDiscipline == \A p \in Proc : acc[p].tab # NoStr => (IF acc[p].w THEN CanWrite(p) ELSE CanRead(p))
Interned == (\A p \in Proc : pc[p] = "idle") => symTab = strTab
(* whenever nobody holds the write lock the two tables describe the same set of symbols: what a reader relies on *)
ConsistentWhenFree == writer = None => symTab = strTab
=============================================================================

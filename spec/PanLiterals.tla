----------------------------- MODULE PanLiterals -----------------------------
(***************************************************************************)
(* C17: what a literal spelling denotes.  A spelling is a sequence of       *)
(* one-character strings (TLC has no string indexing).                      *)
(***************************************************************************)
EXTENDS BigInt, FiniteSets

DigitVal(c) ==
  CASE c = "0" -> 0 [] c = "1" -> 1 [] c = "2" -> 2 [] c = "3" -> 3 [] c = "4" -> 4 [] c = "5" -> 5
    [] c = "6" -> 6 [] c = "7" -> 7 [] c = "8" -> 8 [] c = "9" -> 9
    [] c \in {"a", "A"} -> 10 [] c \in {"b", "B"} -> 11 [] c \in {"c", "C"} -> 12
    [] c \in {"d", "D"} -> 13 [] c \in {"e", "E"} -> 14 [] c \in {"f", "F"} -> 15
    [] OTHER -> 99
IsDigit(c, base) == DigitVal(c) < base

(* digits with optional `_` separators strictly between digits *)
WellFormedDigits(cs, base) ==
  /\ cs # <<>> /\ cs[1] # "_" /\ cs[Len(cs)] # "_"
  /\ \A k \in 1..Len(cs) : cs[k] = "_" \/ IsDigit(cs[k], base)

RECURSIVE Horner(_, _, _, _)
Horner(cs, base, k, acc) ==
  IF k > Len(cs) THEN acc
  ELSE IF cs[k] = "_" THEN Horner(cs, base, k + 1, acc)
  ELSE Horner(cs, base, k + 1, Add(Mul(acc, FromInt(base)), FromInt(DigitVal(cs[k]))))
DigitsValue(cs, base) == Horner(cs, base, 1, Zero)

Ten == FromInt(10)
(* mantissa digits * 10^e; for e < 0 the literal denotes an integer only if the division is exact *)
ExpIntValue(cs, e) ==
  LET m == DigitsValue(cs, 10) IN
  IF e >= 0 THEN [isint |-> TRUE, v |-> Mul(m, Pow(Ten, e))]
  ELSE LET d == FloorDivMod(m, Pow(Ten, -e)) IN [isint |-> IsZero(d.r), v |-> d.q]

(* what the interpreter must do with an integer spelling *)
IntOutcome(v) == IF Fits64(v) THEN "value" ELSE "reject"

(* ---- strings: a literal is a sequence of pieces --------------------------- *)
(* code points of a piece inside a double-quoted string; <<-1>> = undefined escape (must be rejected), *)
(* <<-2>> = escape the reference does not mention (not judged)                                         *)
Decode(p) ==
  CASE p = "a" -> <<97>> [] p = "b" -> <<98>> [] p = "Z" -> <<90>> [] p = " " -> <<32>> [] p = "#" -> <<35>>
    [] p = "'" -> <<39>> [] p = "?" -> <<63>> [] p = "0" -> <<48>> [] p = "{" -> <<123>> [] p = "}" -> <<125>>
    [] p = "#{1}" -> <<49>>                \* an interpolation of the literal 1: the string is an embedded string
    [] p = "\\n" -> <<10>> [] p = "\\t" -> <<9>> [] p = "\\\\" -> <<92>> [] p = "\\\"" -> <<34>>
    [] p \in {"\\d", "\\q", "\\0", "\\xz", "\\ ", "\\8", "\\U1"} -> <<-1>>
    [] p \in {"\\a", "\\r", "\\x41", "\\u00e9", "\\101", "\\'"} -> <<-2>>
(* the same piece inside a raw (backquote) string: its characters as written *)
RawChars(p) ==
  CASE p = "\\n" -> <<92, 110>> [] p = "\\t" -> <<92, 116>> [] p = "\\\\" -> <<92, 92>> [] p = "\\\"" -> <<92, 34>>
    [] p = "\\d" -> <<92, 100>> [] p = "\\q" -> <<92, 113>> [] p = "\\0" -> <<92, 48>> [] p = "\\xz" -> <<92, 120, 122>>
    [] p = "\\ " -> <<92, 32>> [] p = "\\8" -> <<92, 56>> [] p = "\\U1" -> <<92, 85, 49>>
    [] p = "\\a" -> <<92, 97>> [] p = "\\r" -> <<92, 114>> [] p = "\\x41" -> <<92, 120, 52, 49>>
    [] p = "\\u00e9" -> <<92, 117, 48, 48, 101, 57>> [] p = "\\101" -> <<92, 49, 48, 49>> [] p = "\\'" -> <<92, 39>>
    [] p = "#{1}" -> <<35, 123, 49, 125>>
    [] OTHER -> Decode(p)
RECURSIVE Concat(_, _)
Concat(ps, raw) == IF ps = <<>> THEN <<>> ELSE (IF raw THEN RawChars(Head(ps)) ELSE Decode(Head(ps))) \o Concat(Tail(ps), raw)
(* `#` directly followed by `{` opens an interpolation: such a piece sequence is not the string its pieces spell *)
OpensInterpolation(ps) == \E k \in 1..(Len(ps) - 1) : ps[k] = "#" /\ ps[k + 1] = "{"
StrOutcome(ps) == LET cs == Concat(ps, FALSE) IN
                  IF \E k \in 1..Len(cs) : cs[k] = -1 THEN "reject"
                  ELSE IF \E k \in 1..Len(cs) : cs[k] = -2 THEN "undetermined" ELSE "value"

(* ---- names ---------------------------------------------------------------- *)
Lower == {"a","b","c","d","e","f","g","h","i","j","k","l","m","n","o","p","q","r","s","t","u","v","w","x","y","z"}
Upper == {"A","B","C","D","E","F","G","H","I","J","K","L","M","N","O","P","Q","R","S","T","U","V","W","X","Y","Z"}
Digits == {"0","1","2","3","4","5","6","7","8","9"}
Reserved == {<<"i","f">>, <<"e","l","s","e">>, <<"r","e","t","u","r","n">>, <<"r","a","i","s","e">>,
             <<"y","i","e","l","d">>, <<"d","e","f","e","r">>}
(* [a-zA-Z_][a-zA-Z0-9_]*[!?]? and not itself a reserved word *)
MatchesPattern(w) ==
  /\ w # <<>> /\ w[1] \in Lower \cup Upper \cup {"_"}
  /\ \A k \in 2..Len(w) : \/ w[k] \in Lower \cup Upper \cup Digits \cup {"_"}
                          \/ (k = Len(w) /\ w[k] \in {"!", "?"})
IsName(w) == MatchesPattern(w) /\ w \notin Reserved
=============================================================================

------------------------------ MODULE Trace_C17 ------------------------------
(* Float literals: the recorded value fm * 2^fe must be the double nearest to   *)
(* the written decimal  D * 10^(e10)  (D = all digits, e10 = exponent - number  *)
(* of fractional digits): checked with integers only (PanArith.RoundedQuotient). *)
EXTENDS PanLiterals, PanArith, TLC, Json
Rows == ndJsonDeserialize("c17_floats.ndjson")
K == 32
VARIABLE i
Init == i = 0
Next == \/ i = 0 /\ i' \in {-k : k \in 1..K}
        \/ i < 0 /\ i' \in {n \in 1..Len(Rows) : n % K = (-i) % K}
(* a decimal at or beyond the midpoint between the largest double and 2^1024 has no nearest double: the literal cannot be represented *)
TooLarge == MAbsDiff(MPow2(1024), MPow2(970))
Holds17(r) ==
  LET D == DigitsValue(r.cs, 10)
      num == IF r.e10 >= 0 THEN Mul(D, Pow(Ten, r.e10)) ELSE D
      den == IF r.e10 >= 0 THEN One ELSE Pow(Ten, -r.e10)
  IN IF IsZero(D) THEN r.k = "float" /\ IsZero(r.fm)
     ELSE IF MCmp(num.m, MMul(den.m, TooLarge)) >= 0 THEN r.k = "rejected"
     ELSE r.k = "float" /\ ~IsZero(r.fm) /\ RoundedQuotient(num, den, r.fm, r.fe)
Verdict == i > 0 => PrintT("V " \o ToJson([id |-> Rows[i].id, ok |-> Holds17(Rows[i])]))
=============================================================================

------------------------------ MODULE Trace_C18 ------------------------------
(* Checks the PanOrder laws on the table recorded from the real interpreter.  *)
(* States: root -> row i -> pair (i,j) -> (ordered triples only) (i,j,k);      *)
(* plus T3 rows.  A failing law is printed (not raised) so that every failure  *)
(* can be classified against the known findings.                              *)
EXTENDS TLC, Json
Vals == ndJsonDeserialize("c18_vals.ndjson")
R    == ndJsonDeserialize("c18_pairs.ndjson")
T3   == ndJsonDeserialize("c18_triples.ndjson")
INSTANCE PanOrder
VARIABLES i, j, k, t
vars == <<i, j, k, t>>
Init == i = 0 /\ j = 0 /\ k = 0 /\ t = 0
Next ==
  \/ /\ i = 0 /\ t = 0 /\ i' \in 1..N /\ UNCHANGED <<j, k, t>>
  \/ /\ i > 0 /\ j = 0 /\ j' \in 1..N /\ UNCHANGED <<i, k, t>>
  \/ /\ i > 0 /\ j > 0 /\ k = 0 /\ SameFam(i, j) /\ k' \in {m \in 1..N : SameFam(j, m)} /\ UNCHANGED <<i, j, t>>
  \/ /\ i = 0 /\ t = 0 /\ t' \in 1..Len(T3) /\ UNCHANGED <<i, j, k>>
Fail(law, a, b, c) == PrintT("V " \o ToJson([law |-> law, x |-> a, y |-> b, z |-> c]))
Chk(ok, law, a, b, c) == ok \/ Fail(law, a, b, c)
Laws ==
  /\ (i > 0 /\ j = 0) => Chk(Reflexive(i), "reflexive", i, i, 0)
  /\ (j > 0 /\ k = 0) =>
       /\ Chk(Symmetric(i, j), "symmetric", i, j, 0)
       /\ Chk(Negation(i, j), "negation", i, j, 0)
       /\ Chk(Trichotomy(i, j), "trichotomy", i, j, 0)
       /\ Chk(MixedTrichotomy(i, j), "mixed-trichotomy", i, j, 0)
       /\ Chk(Unions(i, j), "unions", i, j, 0)
       /\ Chk(Antisymmetric(i, j), "antisymmetric", i, j, 0)
       /\ Chk(CmpAgrees(i, j), "cmp-agrees", i, j, 0)
       /\ Chk(MaxMin(i, j), "maxmin", i, j, 0)
  /\ k > 0 => Chk(Transitive(i, j, k), "transitive", i, j, k)
  /\ t > 0 => /\ Chk(Between(T3[t]), "between", T3[t].x, T3[t].lo, T3[t].hi)
              /\ Chk(Clip(T3[t]), "clip", T3[t].x, T3[t].lo, T3[t].hi)
=============================================================================

------------------------------- MODULE PanMap -------------------------------
(***************************************************************************)
(* Maps with scalar keys as sequences of <<key, value>> pairs with distinct *)
(* keys in first-occurrence order (object/map.go HashKeys + Pairs,           *)
(* props/map_props.go, native/Map.pangaea, evaluator/eval_map.go): a literal *)
(* or an unpacking `%{**a, **b}` is built pair by pair and a pair whose key  *)
(* is already there is DROPPED (the first occurrence wins, also across       *)
(* unpackings); keys / values / items walk that order; at answers the value  *)
(* or nil (0 here); == compares the sets of pairs regardless of order;       *)
(* digest(pairs) is %{**self, **pairs.M}; a map is truthy when non-empty.    *)
(***************************************************************************)
EXTENDS Integers, Sequences, FiniteSets
RECURSIVE BuildAcc(_, _)
HasKey(m, k) == \E i \in 1..Len(m) : m[i][1] = k
BuildAcc(ps, acc) == IF ps = <<>> THEN acc
                     ELSE BuildAcc(Tail(ps), IF HasKey(acc, Head(ps)[1]) THEN acc ELSE Append(acc, Head(ps)))
Build(ps) == BuildAcc(ps, <<>>)
Keys(m) == [i \in 1..Len(m) |-> m[i][1]]
Values(m) == [i \in 1..Len(m) |-> m[i][2]]
At(m, k) == IF HasKey(m, k) THEN (CHOOSE v \in {m[i][2] : i \in 1..Len(m)} : \E i \in 1..Len(m) : m[i] = <<k, v>>) ELSE 0
Merge(a, b) == BuildAcc(b, a)
PairSet(m) == {m[i] : i \in 1..Len(m)}
Eq(a, b) == PairSet(a) = PairSet(b)
Truthy(m) == m # <<>>

Laws(p, q, K) ==
  LET a == Build(p) b == Build(q) IN
  /\ \A i, j \in 1..Len(a) : a[i][1] = a[j][1] => i = j             \* keys are distinct
  /\ Build(a) = a                                                   \* a map is its own literal
  /\ Build(p \o q) = Merge(a, b)                                    \* unpacking = writing the pairs out
  /\ Merge(a, a) = a /\ Merge(a, <<>>) = a /\ Merge(<<>>, b) = b
  /\ \A k \in K : At(Merge(a, b), k) = IF HasKey(a, k) THEN At(a, k) ELSE At(b, k)   \* the left operand wins
  /\ Cardinality(PairSet(a)) = Len(a)
  /\ Len(Merge(a, b)) <= Len(a) + Len(b) /\ Len(Merge(a, b)) >= Len(a)
  /\ Eq(a, a) /\ (Eq(a, b) = Eq(b, a))
  /\ (Eq(a, b) => \A k \in K : At(a, k) = At(b, k))
  /\ {Keys(Merge(a, b))[i] : i \in 1..Len(Merge(a, b))} = {Keys(Merge(b, a))[i] : i \in 1..Len(Merge(b, a))}

(* Keys that are not scalars (arrs) cannot be hashed: the map keeps their pairs in a second list (NonHashablePairs) that every walk visits AFTER the hashed pairs,   *)
(* and finds duplicates among them with ==.  NH is the set of such keys.  Items is that walk.  Arr#M (object.NewPanMap) does NOT look for duplicates among       *)
(* non-hashable keys - a named deviation from the literal, which does.                                                                                          *)
Items(m, NH) == SelectSeq(m, LAMBDA pr : pr[1] \notin NH) \o SelectSeq(m, LAMBDA pr : pr[1] \in NH)
ArrM(ps, NH) == Build(SelectSeq(ps, LAMBDA pr : pr[1] \notin NH)) \o SelectSeq(ps, LAMBDA pr : pr[1] \in NH)
FirstAt(m, k) == IF HasKey(m, k) THEN m[CHOOSE i \in 1..Len(m) : m[i][1] = k /\ \A j \in 1..(i - 1) : m[j][1] # k][2] ELSE 0
LawsNH(p, q, K, NH) ==
  LET a == Build(p) b == Build(q) IN
  /\ Laws(p, q, K)
  /\ PairSet(Items(a, NH)) = PairSet(a) /\ Len(Items(a, NH)) = Len(a)
  /\ Items(Items(a, NH), NH) = Items(a, NH)
  /\ Build(Items(a, NH)) = Items(a, NH)
  /\ (NH = {} => Items(a, NH) = a)
  /\ Len(ArrM(p, NH)) >= Len(a) /\ (\A i \in 1..Len(p) : p[i][1] \notin NH) => ArrM(p, NH) = a
  /\ \A k \in K : FirstAt(a, k) = At(a, k)
=============================================================================

------------------------------ MODULE Trace_C01 ------------------------------
(* Recorded outcome classes of runs of the real interpreter: each must be an     *)
(* outcome of the language (PanCallSpace.Legal).  Rows are aggregated per class:  *)
(* [cls, n].                                                                       *)
EXTENDS Integers, Sequences, TLC, Json
Rows == ndJsonDeserialize("c01_outcomes.ndjson")
Outcomes == {"syntax", "value", "panerr", "discarded"}
VARIABLE i
Init == i \in 1..Len(Rows)
Next == UNCHANGED i
Verdict == PrintT("V " \o ToJson([cls |-> Rows[i].cls, n |-> Rows[i].n, legal |-> Rows[i].cls \in Outcomes]))
=============================================================================

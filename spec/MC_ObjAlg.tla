------------------------------ MODULE MC_ObjAlg ------------------------------
EXTENDS PanObjAlg, Json
CONSTANTS MaxOps
Ops == <<[k |-> "bro", x |-> Props("a" :> 7)], [k |-> "bro", x |-> None], [k |-> "bro", x |-> Props("d" :> 1 @@ "_h" :> 3)],
         [k |-> "patch", x |-> Props("a" :> 8 @@ "d" :> 2)], [k |-> "patch", x |-> Props("_h" :> 5)], [k |-> "patch", x |-> None],
         [k |-> "del", x |-> {"a"}], [k |-> "del", x |-> {"_h"}], [k |-> "del", x |-> {"a", "b", "c"}],
         [k |-> "digest", x |-> <<<<"a", 9>>, <<"e", 1>>, <<"e", 2>>>>], [k |-> "digest", x |-> <<>>]>>
Starts == <<New(<<1, 2>>, None), New(<<1, 2>>, Props("c" :> 4 @@ "_h" :> 9))>>
VARIABLES start, ops
Init == start \in 1..Len(Starts) /\ ops \in UNION {[1..l -> 1..Len(Ops)] : l \in 0..MaxOps}
Next == UNCHANGED <<start, ops>>
O == Run(Starts[start], [i \in 1..Len(ops) |-> Ops[ops[i]]])
Laws == /\ \A i \in 1..Len(Ops) : CASE Ops[i].k = "bro" -> BroForgets(O, Ops[i].x)
                                    [] Ops[i].k = "patch" -> PatchKeeps(O, Ops[i].x)
                                    [] Ops[i].k = "del" -> DelPlain(O, Ops[i].x)
                                    [] OTHER -> TRUE
        /\ DigestNothing(O)
        /\ New(<<1>>, None) = [err |-> "TypeErr"] /\ New(<<1, 2, 3>>, None) = [err |-> "TypeErr"]
Emit == PrintT("CASE " \o ToJson([start |-> start, ops |-> ops, p |-> O.p, ps |-> O.ps]))
=============================================================================

SPECIFICATION Spec
INVARIANTS SharedConstant Emit
PROPERTIES HistoryIndependent
CHECK_DEADLOCK FALSE

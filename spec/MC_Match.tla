------------------------------- MODULE MC_Match -------------------------------
EXTENDS PanMatch, Json
CONSTANTS MaxKeys
Subjects == <<IntV(1), IntV(2), IntV(3), StrV("a"), StrV("ab"), StrV("ba"), NilV, ArrV(<<IntV(1), IntV(2)>>), RangeV(1, 3)>>
Keys == <<IntV(1), IntV(2), StrV("a"), StrV("ab"), NilV, ArrV(<<IntV(1), IntV(2)>>), ArrV(<<IntV(3), StrV("a"), NilV>>), RangeV(1, 3), RangeV(2, 9),
          TypeV("Int"), TypeV("Str"), TypeV("Arr"), TypeV("Obj"), FnV>>
DistinctSeqs(n, len) == {s \in [1..len -> 1..n] : \A a, b \in 1..len : a # b => s[a] # s[b]}
VARIABLES v, ks
Init == v \in 1..Len(Subjects) /\ ks \in UNION {DistinctSeqs(Len(Keys), l) : l \in 0..MaxKeys}
Next == UNCHANGED <<v, ks>>
KS == [i \in 1..Len(ks) |-> Keys[ks[i]]]
V == Subjects[v]
Laws == Reflexive(V) /\ (\A i \in 1..Len(Keys) : Reflexive(Keys[i])) /\ CaseSound(V, KS) /\ ScalarFirst(V, KS) /\ Irrelevant(V, KS)
Emit == PrintT("CASE " \o ToJson([v |-> v, ks |-> ks, case |-> Case(V, KS), m |-> [i \in 1..Len(ks) |-> Matches(V, KS[i])],
                                  grep |-> IF Len(ks) = 1 THEN [i \in 1..Len(Subjects) |-> Subjects[i].t # "nil" /\ Matches(Subjects[i], KS[1])] ELSE <<>>]))
=============================================================================

------------------------------ MODULE MC_BigInt ------------------------------
(* Validates BigInt/PanArith against TLC's native integers on a small window *)
(* and emits the window as replay cases with natively computed predictions.  *)
EXTENDS PanArith, TLC, Json
CONSTANT W
VARIABLES x, y
Init == x \in -W..W /\ y \in -W..W
Next == UNCHANGED <<x, y>>

FloorDiv(p, q) == IF q > 0 THEN p \div q ELSE (-p) \div (-q)
FloorMod(p, q) == p - q * FloorDiv(p, q)
RECURSIVE NPow(_, _)
NPow(p, k) == IF k = 0 THEN 1 ELSE p * NPow(p, k - 1)

X == FromInt(x)
Y == FromInt(y)
AddOK == ToInt(Add(X, Y)) = x + y
SubOK == ToInt(Sub(X, Y)) = x - y
MulOK == ToInt(Mul(X, Y)) = x * y
CmpOK == Cmp(X, Y) = (IF x < y THEN -1 ELSE IF x = y THEN 0 ELSE 1)
DivOK == y # 0 => /\ ToInt(FloorDivMod(X, Y).q) = FloorDiv(x, y)
                  /\ ToInt(FloorDivMod(X, Y).r) = FloorMod(x, y)
PowOK == (y >= 0 /\ y <= 6 /\ x >= -12 /\ x <= 12) => ToInt(Pow(X, y)) = NPow(x, y)
BigMulOK == \* (x + 2^40)(y - 2^40) = xy + 2^40 (y - x) - 2^80, through limbs only
  LET t == Big(FALSE, MPow2(40)) IN
  Eq(Mul(Add(X, t), Sub(Y, t)), Sub(Add(Mul(X, Y), Mul(t, Sub(Y, X))), Mul(t, t)))
BigDivOK == \* ((x + 2^40) * (|y|+1) + r) divided by (|y|+1), r = |x| mod (|y|+1)
  LET t == Big(FALSE, MPow2(40))
      d == FromInt((IF y < 0 THEN -y ELSE y) + 1)
      r == FromInt((IF x < 0 THEN -x ELSE x) % ((IF y < 0 THEN -y ELSE y) + 1))
      n == Add(Mul(Add(X, t), d), r)
  IN Eq(FloorDivMod(n, d).q, Add(X, t)) /\ Eq(FloorDivMod(n, d).r, r)

Emit == PrintT("CASE " \o ToJson([a |-> x, b |-> y,
          add |-> x + y, sub |-> x - y, mul |-> x * y, cmp |-> (IF x < y THEN -1 ELSE IF x = y THEN 0 ELSE 1),
          fdiv |-> IF y = 0 THEN 0 ELSE FloorDiv(x, y), fmod |-> IF y = 0 THEN 0 ELSE FloorMod(x, y),
          pow |-> IF y >= 0 /\ y <= 6 /\ x >= -12 /\ x <= 12 THEN NPow(x, y) ELSE 0]))
=============================================================================

------------------------------- MODULE MC_Str -------------------------------
EXTENDS PanStr, Json, TLC
CONSTANTS MaxLen
VARIABLES s, t
\* characters: 1 = "," (the separator), 2 = "a", 3 = "b"
Strs == UNION {[1..l -> 1..3] : l \in 0..MaxLen}
Init == s \in Strs /\ t \in Strs
Next == UNCHANGED <<s, t>>
LawsHold == Laws(s, t, 1)
Emit == PrintT("CASE " \o ToJson([s |-> s, t |-> t, cat |-> s \o t, rev |-> Rev(s), split |-> Split(s, 1), splita |-> Split(s, 2), chars |-> Chars(s),
          cmp |-> Cmp(s, t), rep |-> [n \in 1..4 |-> Repeat(s, n - 1)]]))
=============================================================================

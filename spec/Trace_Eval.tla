------------------------------ MODULE Trace_Eval ------------------------------
(* Trace validation for the evaluator properties (C03 C07 C08 C12 C15 ...):     *)
(* every row is a program (JSON AST) together with the events and the outcome   *)
(* recorded from the real interpreter; the recorded run must be the behaviour   *)
(* PanEval prescribes for that program.                                         *)
EXTENDS PanEval, Json
Rows == ndJsonDeserialize("eval.ndjson")
K == 64
VARIABLE i
Init == i = 0
Next == \/ i = 0 /\ i' \in {-k : k \in 1..K}
        \/ i < 0 /\ i' \in {n \in 1..Len(Rows) : n % K = (-i) % K}
Judge(row) ==
  LET p == Run(row.prog) IN
  IF p.k \in {"unsupported", "fuel"} THEN [id |-> row.id, s |-> p.k, ev |-> <<>>, end |-> "", msg |-> ""]
  ELSE IF p.ev = row.ev /\ p.end = row.end /\ (p.msg = "*" \/ p.k # "err" \/ p.msg = row.msg)
       THEN [id |-> row.id, s |-> "ok", ev |-> <<>>, end |-> "", msg |-> ""]
       ELSE [id |-> row.id, s |-> "mismatch", ev |-> p.ev, end |-> p.end, msg |-> p.msg]
Verdict == i > 0 => PrintT("V " \o ToJson(Judge(Rows[i])))
=============================================================================

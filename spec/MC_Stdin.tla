------------------------------- MODULE MC_Stdin -------------------------------
EXTENDS PanStdin, Json, TLC
CONSTANTS MaxLines, MaxOps
Inputs == UNION {[1..l -> 0..2] : l \in 0..MaxLines}
Init == input \in Inputs /\ rest = input /\ done = <<>>
BoundedNext == Len(done) < MaxOps /\ Next
Emit == PrintT("CASE " \o ToJson([input |-> input, done |-> done, rest |-> rest]))
=============================================================================

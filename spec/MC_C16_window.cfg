SPECIFICATION Spec
CONSTANTS
  Policy = "window"
  T = 2
  R = 3
INVARIANTS ChunkIndependence
CHECK_DEADLOCK FALSE

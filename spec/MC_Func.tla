------------------------------- MODULE MC_Func -------------------------------
EXTENDS PanFunc, Json, TLC
VARIABLES fn, gn, given, over
Fns == [kind : {"f", "m"}, npos : 0..3, nkw : 0..2]
\* the actuals are self = 9 (methods only) followed by 1, 2, ...; `given` counts all of them
Actuals(f, n) == [i \in 1..n |-> IF f.kind = "m" THEN (IF i = 1 THEN 9 ELSE i - 1) ELSE i]
Init == fn \in Fns /\ gn \in Fns /\ given \in 0..5 /\ over \in BOOLEAN /\ (over => fn.nkw >= 1)
        /\ (fn.kind = "m" => given >= 1)                       \* a method is always given its receiver
        /\ (given # 2 => gn = fn)                               \* pairs of functions only once per function
Next == UNCHANGED <<fn, gn, given, over>>
LawsHold == Laws(fn, Actuals(fn, given))
Emit == PrintT("CASE " \o ToJson([fn |-> fn, gn |-> gn, given |-> given, over |-> over, args |-> Args(fn), arity |-> Arity(fn), kwn |-> KwNames(fn), kwd |-> KwDefaults(fn),
          call |-> Call(fn, Actuals(fn, given), over), curried |-> Curried(fn, Actuals(fn, Arity(fn))), eq |-> Eq(fn, gn), curryok |-> CurryWorks(fn)]))
=============================================================================

------------------------------- MODULE PanNum -------------------------------
(***************************************************************************)
(* Functions of numbers (props/int_props.go, props/num_props.go,            *)
(* native/Comparable.pangaea).  A number is k quarters (k / 4): every value *)
(* of the window is exact in binary floating point, so the model's          *)
(* arithmetic over the integer k is the arithmetic of the float.            *)
(*   floor, ceil: the neighbouring integers; round: the nearest integer,    *)
(*   halves away from zero; an int is its own floor / ceil / round.         *)
(*   prime?, even?, odd?, the bits n[i], between?, clip (Comparable).       *)
(***************************************************************************)
EXTENDS Integers
Floor4(k) == k \div 4                                  \* \div rounds towards minus infinity
Ceil4(k)  == -((-k) \div 4)
Round4(k) == IF k >= 0 THEN (k + 2) \div 4 ELSE -(((-k) + 2) \div 4)
IsInt4(k) == k % 4 = 0
Prime(n)  == n >= 2 /\ \A d \in 2..(n - 1) : n % d # 0
Even(n)   == n % 2 = 0
RECURSIVE Pow2(_)
Pow2(i)   == IF i = 0 THEN 1 ELSE 2 * Pow2(i - 1)
Bit(n, i) == (n \div Pow2(i)) % 2                      \* n >= 0
Between(x, lo, hi) == lo <= x /\ x <= hi
Max2(x, y) == IF x >= y THEN x ELSE y
Min2(x, y) == IF x <= y THEN x ELSE y
Clip(x, lo, hi) == Min2(Max2(x, lo), hi)               \* [[self, min].max, max].min: with lo > hi the result is hi
IsSquare(n) == \E r \in 0..n : r * r = n
Root(n) == CHOOSE r \in 0..n : r * r = n

(* ---- laws ---------------------------------------------------------------- *)
Laws(k) == /\ 4 * Floor4(k) <= k /\ k < 4 * (Floor4(k) + 1)
           /\ 4 * (Ceil4(k) - 1) < k /\ k <= 4 * Ceil4(k)
           /\ Round4(k) \in {Floor4(k), Ceil4(k)}
           /\ Round4(-k) = -Round4(k)                                       \* symmetric: halves go away from zero on both sides
           /\ (IsInt4(k) => Floor4(k) = k \div 4 /\ Ceil4(k) = Floor4(k) /\ Round4(k) = Floor4(k))
           /\ Ceil4(k) = -Floor4(-k)
IntLaws(n, lo, hi) == /\ (lo <= hi => Between(Clip(n, lo, hi), lo, hi))
                      /\ (Between(n, lo, hi) => Clip(n, lo, hi) = n)
                      /\ (n >= 0 => n = Bit(n, 0) + 2 * Bit(n, 1) + 4 * Bit(n, 2) + 8 * Bit(n, 3) + 16 * Bit(n, 4) + 32 * (n \div 32))
=============================================================================

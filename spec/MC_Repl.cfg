SPECIFICATION Spec
CONSTANTS
  Alphabet = {"single", "multi", "Multi", "SINGLE", " multi", "single ", "", "v := (v + 1)", "v := 1", "{|x|", "x * 2}(21)", "1 +"}
INVARIANTS TypeOK Alternates PromptShowsMode Emit
PROPERTIES OnlyExactWords OneEvalPerLine
CHECK_DEADLOCK FALSE

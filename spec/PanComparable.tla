---------------------------- MODULE PanComparable ----------------------------
(***************************************************************************)
(* native/Comparable.pangaea: an object that answers <=> gets ==, <, <=, >,  *)
(* >=, between? and clip from it, exactly as written there:                  *)
(*   ==  is  (<=>) == 0      <  is (<=>) == -1     >  is (<=>) == 1          *)
(*   <=  is  (<=>) != 1      >= is (<=>) != -1                               *)
(*   between?(lo, hi) is (lo <= self) && (self <= hi)                        *)
(*   clip(lo, hi) is [[self, lo].max, hi].min                                *)
(* <=> is ANY table T over the values (2 stands for nil = "not comparable"), *)
(* so the derived operators are stated for inconsistent orders too: with a   *)
(* nil answer both <= and >= hold and none of <, ==, > does.                 *)
(***************************************************************************)
EXTENDS Integers
Eq(T, x, y) == T[x][y] = 0
Lt(T, x, y) == T[x][y] = -1
Gt(T, x, y) == T[x][y] = 1
Le(T, x, y) == T[x][y] # 1
Ge(T, x, y) == T[x][y] # -1
Between(T, x, lo, hi) == Le(T, lo, x) /\ Le(T, x, hi)
\* only used with consistent orders, where ties are equal values
Max2(T, a, b) == IF Lt(T, a, b) THEN b ELSE a
Min2(T, a, b) == IF Gt(T, a, b) THEN b ELSE a
Clip(T, x, lo, hi) == Min2(T, Max2(T, x, lo), hi)
NatOrd(V) == [x \in V |-> [y \in V |-> IF x < y THEN -1 ELSE IF x > y THEN 1 ELSE 0]]
RevOrd(V) == [x \in V |-> [y \in V |-> IF x < y THEN 1 ELSE IF x > y THEN -1 ELSE 0]]

LawsAny(T, x, y) ==
  /\ Le(T, x, y) = ~Gt(T, x, y) /\ Ge(T, x, y) = ~Lt(T, x, y)
  /\ (Lt(T, x, y) \/ Eq(T, x, y)) => Le(T, x, y)
  /\ (T[x][y] = 2 => Le(T, x, y) /\ Ge(T, x, y) /\ ~Eq(T, x, y) /\ ~Lt(T, x, y) /\ ~Gt(T, x, y))
LawsTotal(T, V, x, lo, hi) ==          \* for a consistent total order
  /\ \A a, b \in V : (Lt(T, a, b) = Gt(T, b, a)) /\ (Eq(T, a, b) = (a = b)) /\ (Le(T, a, b) = (Lt(T, a, b) \/ Eq(T, a, b)))
  /\ \A a, b, c \in V : Le(T, a, b) /\ Le(T, b, c) => Le(T, a, c)
  /\ (Le(T, lo, hi) => Between(T, Clip(T, x, lo, hi), lo, hi) /\ (Between(T, x, lo, hi) = (Clip(T, x, lo, hi) = x)))
=============================================================================

------------------------------ MODULE PanOrder ------------------------------
(***************************************************************************)
(* C18: the algebraic laws of equality and ordering, stated over a table of *)
(* results recorded from the real interpreter.  The specification does not  *)
(* predict individual results; it states the laws verbatim.                 *)
(*                                                                         *)
(* Vals[i] = [fam : "int"|"float"|"str"|"none", nan : BOOLEAN]             *)
(* R[(i-1)*N + j] = [eq, ne, lt, le, gt, ge, cmp, mx, mn] for the pair (i,j):*)
(*   eq..ge in {"T","F","E"} ("E": raised / not a boolean),                 *)
(*   cmp in {"-1","0","1","E"}, mx/mn in {"x","y","xy","?"} (which operand  *)
(*   [x,y].max / [x,y].min returned; "xy" when both render identically).    *)
(* T3[k] = [x, lo, hi, btw : "T"|"F"|"E", cx, clo, chi : BOOLEAN] where cx   *)
(*   (clo, chi) says that x.clip(lo, hi) rendered like x (lo, hi)          *)
(***************************************************************************)
EXTENDS Integers, Sequences

CONSTANTS Vals, R, T3
N == Len(Vals)
Cell(i, j) == R[(i - 1) * N + j]
Ordered(i) == Vals[i].fam # "none"
SameFam(i, j) == Ordered(i) /\ Vals[i].fam = Vals[j].fam
Bool(c) == c \in {"T", "F"}
Is(c) == c = "T"

(* ---- equality laws, all values --------------------------------------- *)
Reflexive(i)    == ~Vals[i].nan => Cell(i, i).eq = "T"
Symmetric(i, j) == Bool(Cell(i, j).eq) /\ Cell(i, j).eq = Cell(j, i).eq
Negation(i, j)  == Bool(Cell(i, j).ne) /\ (Is(Cell(i, j).ne) <=> ~Is(Cell(i, j).eq))

(* ---- ordering laws, same ordered family ------------------------------- *)
One(a, b, c) == (IF a THEN 1 ELSE 0) + (IF b THEN 1 ELSE 0) + (IF c THEN 1 ELSE 0) = 1
Trichotomy(i, j) == SameFam(i, j) =>
   /\ Bool(Cell(i, j).lt) /\ Bool(Cell(i, j).gt)
   /\ One(Is(Cell(i, j).lt), Is(Cell(i, j).eq), Is(Cell(i, j).gt))
(* an int and a float: whenever the comparison is answered at all (x <=> y does not raise), exactly one of <, ==, > holds *)
Numeric(i, j) == {Vals[i].fam, Vals[j].fam} = {"int", "float"}
MixedTrichotomy(i, j) == (Numeric(i, j) /\ Cell(i, j).cmp # "E" /\ ~Vals[i].nan /\ ~Vals[j].nan) =>
   /\ Bool(Cell(i, j).lt) /\ Bool(Cell(i, j).gt)
   /\ One(Is(Cell(i, j).lt), Is(Cell(i, j).eq), Is(Cell(i, j).gt))
Unions(i, j) == SameFam(i, j) =>
   /\ (Is(Cell(i, j).le) <=> (Is(Cell(i, j).lt) \/ Is(Cell(i, j).eq)))
   /\ (Is(Cell(i, j).ge) <=> (Is(Cell(i, j).gt) \/ Is(Cell(i, j).eq)))
   /\ Bool(Cell(i, j).le) /\ Bool(Cell(i, j).ge)
NegStr(c) == CASE c = "-1" -> "1" [] c = "1" -> "-1" [] c = "0" -> "0" [] OTHER -> "?"
Antisymmetric(i, j) == SameFam(i, j) => Cell(i, j).cmp = NegStr(Cell(j, i).cmp)
CmpAgrees(i, j) == SameFam(i, j) =>
   /\ (Cell(i, j).cmp = "-1" <=> Is(Cell(i, j).lt))
   /\ (Cell(i, j).cmp = "1"  <=> Is(Cell(i, j).gt))
MaxMin(i, j) == SameFam(i, j) =>
   /\ (Is(Cell(i, j).lt) => Cell(i, j).mx \in {"y", "xy"} /\ Cell(i, j).mn \in {"x", "xy"})
   /\ (Is(Cell(i, j).gt) => Cell(i, j).mx \in {"x", "xy"} /\ Cell(i, j).mn \in {"y", "xy"})
   /\ Cell(i, j).mx \in {"x", "y", "xy"} /\ Cell(i, j).mn \in {"x", "y", "xy"}

Transitive(i, j, k) == (SameFam(i, j) /\ SameFam(j, k)) =>
   /\ (Is(Cell(i, j).lt) /\ Is(Cell(j, k).lt) => Is(Cell(i, k).lt))
   /\ (Is(Cell(i, j).le) /\ Is(Cell(j, k).le) => Is(Cell(i, k).le))
   /\ (Is(Cell(i, j).eq) /\ Is(Cell(j, k).eq) => Is(Cell(i, k).eq))

(* between? and clip agree with the order (T3 rows: same family) *)
Between(t) == Is(t.btw) <=> (Is(Cell(t.lo, t.x).le) /\ Is(Cell(t.x, t.hi).le))
Clip(t) == Is(Cell(t.lo, t.hi).le) =>
   IF Is(Cell(t.x, t.lo).lt) THEN t.clo
   ELSE IF Is(Cell(t.x, t.hi).gt) THEN t.chi
   ELSE t.cx
=============================================================================

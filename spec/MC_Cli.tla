--------------------------------- MODULE MC_Cli ---------------------------------
EXTENDS PanCli, Json
CONSTANTS MaxArgs
Tokens == <<"test", "F", "B", "M", "D", "X", "-e", "S1", "S2", "-n", "-p", "--p", "-v", "-j", "-x", "--">>
VARIABLES ix, jar
Init == ix \in UNION {[1..l -> 1..Len(Tokens)] : l \in 0..MaxArgs} /\ jar \in BOOLEAN
Next == UNCHANGED <<ix, jar>>
Argv == [i \in 1..Len(ix) |-> Tokens[ix[i]]]
LawsHold == Laws(Argv, jar)
Emit == PrintT("CASE " \o ToJson([argv |-> Argv, jar |-> jar, r |-> Cli(Argv, jar)]))
=============================================================================

INIT Init
NEXT BoundedNext
INVARIANTS Conservation PrefixOnly Emit
CHECK_DEADLOCK FALSE

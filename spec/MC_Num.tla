------------------------------- MODULE MC_Num -------------------------------
EXTENDS PanNum, Json, TLC, Sequences
CONSTANTS K, N
VARIABLES mode, x, lo, hi
Init == \/ mode = "q" /\ x \in (0 - K)..K /\ lo = 0 /\ hi = 0
        \/ mode = "i" /\ x \in (0 - 3)..N /\ lo \in (0 - 1)..3 /\ hi \in (0 - 1)..3
Next == UNCHANGED <<mode, x, lo, hi>>
LawsHold == IF mode = "q" THEN Laws(x) ELSE IntLaws(x, lo, hi)
Emit == PrintT("CASE " \o ToJson(
   IF mode = "q" THEN [mode |-> mode, k |-> x, floor |-> Floor4(x), ceil |-> Ceil4(x), round |-> Round4(x), isint |-> IsInt4(x)]
   ELSE [mode |-> mode, n |-> x, lo |-> lo, hi |-> hi, prime |-> Prime(x), even |-> Even(x), between |-> Between(x, lo, hi), clip |-> Clip(x, lo, hi),
         bits |-> (IF x >= 0 THEN [i \in 1..6 |-> Bit(x, i - 1)] ELSE <<>>), square |-> (x >= 0 /\ IsSquare(x)), root |-> (IF x >= 0 /\ IsSquare(x) THEN Root(x) ELSE 0)]))
=============================================================================

INIT Init
NEXT Next
CHECK_DEADLOCK FALSE
INVARIANTS NothingInvented StepOrder WholeAscending WholeReversed InWindowIsSubSeq IndexSound Emit

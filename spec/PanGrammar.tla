----------------------------- MODULE PanGrammar -----------------------------
(***************************************************************************)
(* C02: grouping of expressions by the documented precedence table          *)
(* (docs/reference/operators.md), as a precedence-climbing (Pratt) machine   *)
(* over token sequences.  The machine is driven by the table below, not by   *)
(* the yacc ladder.  Its output is the *fully parenthesised source text*     *)
(* Paren(w): "adding the parentheses that the table implies".  The property  *)
(* is then  parse(w) = parse(Paren(w))  on the real parser.                  *)
(*                                                                         *)
(* A token is [k |-> kind, s |-> spelling, l |-> level (infix only)].       *)
(***************************************************************************)
EXTENDS Integers, Sequences

(* documented levels, lowest first *)
LIf == 1  LElse == 2  LJump == 3  LGuard == 4  LRAssign == 5  LAssign == 6
LOr == 7  LAnd == 8  LCmp == 9  LBitOr == 10  LBitAnd == 11  LShift == 12
LAdd == 13  LMul == 14  LPow == 15  LChain == 17  LUnary == 18  LCall == 19
LGroup == 20  LIndex == 21

InfixLevel(op) ==
  CASE op = "||" -> LOr [] op = "&&" -> LAnd
    [] op \in {"<=>", "==", "!=", "===", "!==", "<", "<=", ">", ">="} -> LCmp
    [] op \in {"/|", "/^"} -> LBitOr [] op = "/&" -> LBitAnd
    [] op \in {"<<", ">>"} -> LShift [] op \in {"+", "-"} -> LAdd
    [] op \in {"*", "/", "//", "%"} -> LMul [] op = "**" -> LPow
InfixOps == <<"||", "&&", "<=>", "==", "!=", "===", "!==", "<", "<=", ">", ">=", "/|", "/^", "/&",
              "<<", ">>", "+", "-", "*", "/", "//", "%", "**">>

Tok(k, s)  == [k |-> k, s |-> s, l |-> 0]
CasgOp(c) == CASE c = "+=" -> "+" [] c = "-=" -> "-" [] c = "*=" -> "*" [] OTHER -> "?"
Inf(op)    == [k |-> "inf", s |-> op, l |-> InfixLevel(op)]

K(ts, i) == IF i <= Len(ts) THEN ts[i].k ELSE "eof"
S(ts, i) == IF i <= Len(ts) THEN ts[i].s ELSE ""
(* t: the source with the table's parentheses added;  a: the tree as the parser's ast prints it (String()):  *)
(* infix and prefix nodes in parentheses, grouping parentheses gone, f(x) as f.call(x), x[i] as x.at([i]),     *)
(* a property without arguments as name(), `x += r` as (x := (x + r)), `l => x` as (x := l), -<int> folded.     *)
Res(t, a, n, lit) == [t |-> t, a |-> a, n |-> n, lit |-> lit, ok |-> TRUE]
Fail(n) == [t |-> "SYNTAX", a |-> "SYNTAX", n |-> n, lit |-> FALSE, ok |-> FALSE]

RECURSIVE PE(_, _, _), Loop(_, _, _, _, _), Args(_, _), Prim(_, _)
(* comma separated expressions up to ")" ; returns text and the index of ")" *)
Args(ts, i) ==
  IF K(ts, i) = "rp" THEN Res("", "", i, FALSE)
  ELSE LET a == PE(ts, i, 0) IN
       IF ~a.ok THEN a
       ELSE IF K(ts, a.n) = "comma" THEN
              LET r == Args(ts, a.n + 1) IN IF ~r.ok THEN r ELSE Res(a.t \o ", " \o r.t, a.a \o ", " \o r.a, r.n, FALSE)
            ELSE IF K(ts, a.n) = "rp" THEN Res(a.t, a.a, a.n, FALSE) ELSE Fail(a.n)

Prim(ts, i) ==
  CASE K(ts, i) = "pre" ->
         LET r == PE(ts, i + 1, LUnary) IN
         IF ~r.ok THEN r
         ELSE Res("(" \o S(ts, i) \o r.t \o ")",
                  IF S(ts, i) = "-" /\ r.lit THEN "-" \o r.a ELSE "(" \o S(ts, i) \o r.a \o ")", r.n, FALSE)
    [] K(ts, i) = "int" -> Res(S(ts, i), S(ts, i), i + 1, TRUE)
    [] K(ts, i) = "id" ->
         IF K(ts, i + 1) = "asg" THEN       \* assignment: identifier target, right associative
            LET r == PE(ts, i + 2, LRAssign) IN
            IF ~r.ok THEN r ELSE Res("(" \o S(ts, i) \o " := " \o r.t \o ")", "(" \o S(ts, i) \o " := " \o r.a \o ")", r.n, FALSE)
         ELSE IF K(ts, i + 1) = "casg" THEN
            LET r == PE(ts, i + 2, LRAssign) IN
            IF ~r.ok THEN r ELSE Res("(" \o S(ts, i) \o " " \o S(ts, i + 1) \o " " \o r.t \o ")",
                                     "(" \o S(ts, i) \o " := (" \o S(ts, i) \o " " \o CasgOp(S(ts, i + 1)) \o " " \o r.a \o "))", r.n, FALSE)
         ELSE Res(S(ts, i), S(ts, i), i + 1, FALSE)
    [] K(ts, i) = "lp" ->
         LET r == PE(ts, i + 1, 0) IN
         IF ~r.ok THEN r ELSE IF K(ts, r.n) = "rp" THEN Res("(" \o r.t \o ")", r.a, r.n + 1, FALSE) ELSE Fail(r.n)
    [] OTHER -> Fail(i)

Loop(ts, left, la, j, m) ==
  LET k == K(ts, j) IN
  CASE k = "call" /\ LCall > m ->           \* f(args): "call" is the opening parenthesis of a call
         LET a == Args(ts, j + 1) IN IF ~a.ok THEN a
         ELSE Loop(ts, "(" \o left \o "(" \o a.t \o "))", la \o ".call(" \o a.a \o ")", a.n + 1, m)
    [] k = "lb" /\ LIndex > m ->
         LET a == PE(ts, j + 1, 0) IN IF ~a.ok THEN a
         ELSE IF K(ts, a.n) # "rb" THEN Fail(a.n)
         ELSE Loop(ts, "(" \o left \o "[" \o a.t \o "])", la \o ".at([" \o a.a \o "])", a.n + 1, m)
    [] k = "chain" /\ LChain > m ->
         IF K(ts, j + 1) # "prop" THEN Fail(j + 1)
         ELSE IF K(ts, j + 2) = "call" THEN
                LET a == Args(ts, j + 3) IN IF ~a.ok THEN a
                ELSE Loop(ts, "(" \o left \o S(ts, j) \o S(ts, j + 1) \o "(" \o a.t \o "))",
                          la \o S(ts, j) \o S(ts, j + 1) \o "(" \o a.a \o ")", a.n + 1, m)
              ELSE Loop(ts, "(" \o left \o S(ts, j) \o S(ts, j + 1) \o ")", la \o S(ts, j) \o S(ts, j + 1) \o "()", j + 2, m)
    [] k = "inf" /\ ts[j].l > m ->           \* left associative: the right operand binds strictly tighter
         LET r == PE(ts, j + 1, ts[j].l) IN IF ~r.ok THEN r
         ELSE Loop(ts, "(" \o left \o " " \o S(ts, j) \o " " \o r.t \o ")", "(" \o la \o " " \o S(ts, j) \o " " \o r.a \o ")", r.n, m)
    [] k = "rasg" /\ LRAssign > m ->
         IF K(ts, j + 1) # "id" THEN Fail(j + 1)
         ELSE IF K(ts, j + 2) \in {"call", "lb"} THEN Fail(j + 2)   \* the target is a bare name: `a => b(q)`, `a => b[0]` are not statements
         ELSE Loop(ts, "(" \o left \o " => " \o S(ts, j + 1) \o ")", "(" \o S(ts, j + 1) \o " := " \o la \o ")", j + 2, m)
    [] k = "if" /\ LIf > m ->
         LET c == PE(ts, j + 1, LIf) IN IF ~c.ok THEN c
         ELSE IF K(ts, c.n) = "else" THEN
                LET e == PE(ts, c.n + 1, LElse) IN IF ~e.ok THEN e
                ELSE Loop(ts, "(" \o left \o " if " \o c.t \o " else " \o e.t \o ")", "(" \o la \o " if " \o c.a \o " else " \o e.a \o ")", e.n, m)
              ELSE Loop(ts, "(" \o left \o " if " \o c.t \o ")", "(" \o la \o " if " \o c.a \o ")", c.n, m)
    [] OTHER -> Res(left, la, j, FALSE)

PE(ts, i, m) ==
  LET p == Prim(ts, i) IN
  IF ~p.ok THEN p
  ELSE LET r == Loop(ts, p.t, p.a, p.n, m) IN
       IF r.ok /\ r.n = p.n THEN [r EXCEPT !.lit = p.lit] ELSE r      \* a bare literal stays a literal

(* a statement: expression, jump statement, or guarded jump statement; field t / a as above *)
Stmt(ts) ==
  IF K(ts, 1) = "jump" THEN
     LET e == PE(ts, 2, LJump) IN IF ~e.ok THEN Fail(0)
     ELSE IF K(ts, e.n) = "if" THEN
            LET c == PE(ts, e.n + 1, LGuard) IN
            IF ~c.ok \/ c.n <= Len(ts) THEN Fail(0)
            ELSE Res(S(ts, 1) \o " " \o e.t \o " if " \o c.t, S(ts, 1) \o " " \o e.a \o " if " \o c.a, c.n, FALSE)
          ELSE IF e.n <= Len(ts) THEN Fail(0) ELSE Res(S(ts, 1) \o " " \o e.t, S(ts, 1) \o " " \o e.a, e.n, FALSE)
  ELSE LET e == PE(ts, 1, 0) IN IF ~e.ok \/ e.n <= Len(ts) THEN Fail(0) ELSE e
Paren(ts) == Stmt(ts).t
AstText(ts) == Stmt(ts).a

(* source text of a token sequence: tokens that attach to their left neighbour are glued *)
RECURSIVE Text(_, _)
Glue(ts, i) == K(ts, i) \in {"call", "lb", "rb", "rp", "chain", "prop", "comma"} \/ (i > 1 /\ K(ts, i - 1) \in {"lp", "lb", "call", "chain", "pre"})
Text(ts, i) == IF i > Len(ts) THEN ""
               ELSE (IF i = 1 \/ Glue(ts, i) THEN "" ELSE " ") \o S(ts, i) \o Text(ts, i + 1)
Source(ts) == Text(ts, 1)
=============================================================================

SPECIFICATION Spec
INVARIANTS OwnerIsFirstHit ProtoRules MissingOnlyWhenAbsent KeysAreOwn Emit
CHECK_DEADLOCK FALSE

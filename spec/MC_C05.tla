------------------------------- MODULE MC_C05 -------------------------------
EXTENDS PanProto, Json
SetToSeq(S) == CHOOSE s \in [1..Cardinality(S) -> S] : \A i, j \in 1..Cardinality(S) : i # j => s[i] # s[j]
OwnSeq(o) == LET ns == SetToSeq(DOMAIN objs[o].own) IN [k \in 1..Len(ns) |-> [n |-> ns[k], kind |-> objs[o].own[ns[k]]]]
Emit == Len(objs) > 0 =>
  PrintT("CASE " \o ToJson([
     objs |-> [o \in 1..Len(objs) |-> [proto |-> objs[o].proto, how |-> objs[o].how, src |-> objs[o].src, own |-> OwnSeq(o),
                                        tagged |-> objs[o].tagged, rk |-> objs[o].rk, efftag |-> EffTag(o), root |-> RootKind(o)]],
     res  |-> [o \in 1..Len(objs) |-> [k \in 1..Len(Query) |-> Resolve(o, Query[k])]],
     noise |-> noise,
     anc  |-> [o \in 1..Len(objs) |-> Ancestors(o)],
     kind |-> [o \in 1..Len(objs) |-> [x \in 1..Len(objs) |-> KindOfObs(o, x)]]]))
=============================================================================

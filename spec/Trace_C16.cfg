INIT Init
NEXT Next
CONSTANTS
  Policy = "whole"
  T = 3
  R = 3
CHECK_DEADLOCK FALSE
INVARIANTS Verdict

------------------------------ MODULE PanLexer ------------------------------
(***************************************************************************)
(* C16: a lexer that reads its input through a chunking reader into a       *)
(* buffer and scans tokens by longest match *against the buffer*.           *)
(*                                                                         *)
(* Abstract characters:  "i" identifier char, "s" space/tab, "n" newline,   *)
(* "h" hash, "q" double quote, "b" backquote, "x" other printable, ";"      *)
(* Tokens: IDENT i+ | STR q..q without a newline inside | RAW b..b may span  *)
(* lines | RET = maximal run of blank or comment-only line ends | SEMI |     *)
(* OTHER single char; spaces between tokens are skipped.                    *)
(*                                                                         *)
(* Policy = "whole": nothing is scanned before the reader is exhausted      *)
(*   (third_party/simplexer after the fix: commit).                         *)
(* Policy = "window": refill only when fewer than T items are buffered, one *)
(*   read of at most R items per refill, then scan what is buffered (the    *)
(*   pinned implementation; kept to show which inputs break it).            *)
(***************************************************************************)
EXTENDS Integers, Sequences
CONSTANTS Policy, T, R

RECURSIVE RunLen(_, _, _)
(* length of the maximal prefix of buf[from..] whose items are all in set *)
RunLen(buf, from, set) == IF from <= Len(buf) /\ buf[from] \in set THEN 1 + RunLen(buf, from + 1, set) ELSE 0

RECURSIVE FindClose(_, _, _, _)
(* index of the closing delimiter d after position from, 0 if none (stop at newline when ml = FALSE) *)
FindClose(buf, from, d, ml) ==
  IF from > Len(buf) THEN 0
  ELSE IF buf[from] = d THEN from
  ELSE IF ~ml /\ buf[from] = "n" THEN 0
  ELSE FindClose(buf, from + 1, d, ml)

\* one layout line end starting at position p: spaces, an optional comment (hash up to the newline), newline; its length or 0
LineEnd(buf, p) ==
  LET sp == RunLen(buf, p, {"s"})
      q  == p + sp
  IN IF q <= Len(buf) /\ buf[q] = "n" THEN sp + 1
     ELSE IF q <= Len(buf) /\ buf[q] = "h" THEN
            LET body == RunLen(buf, q + 1, {"i", "s", "h", "q", "b", "x", ";"})
                e == q + 1 + body
            IN IF e <= Len(buf) /\ buf[e] = "n" THEN sp + 1 + body + 1 ELSE 0
     ELSE 0
RECURSIVE RetLen(_, _)
RetLen(buf, p) == LET l == LineEnd(buf, p) IN IF l = 0 THEN 0 ELSE l + RetLen(buf, p + l)

(* longest match at the head of buf (after skipping spaces): <<kind, skipped spaces, token length>> *)
Match(buf) ==
  LET sp == RunLen(buf, 1, {"s"})
      p  == sp + 1
      ret == RetLen(buf, 1)      \* RET may begin with the spaces themselves
  IN IF ret > 0 THEN <<"RET", 0, ret>>
     ELSE IF p > Len(buf) THEN <<"NONE", sp, 0>>
     ELSE LET c == buf[p] IN
          CASE c = "i" -> <<"IDENT", sp, RunLen(buf, p, {"i"})>>
            [] c = "q" -> LET e == FindClose(buf, p + 1, "q", FALSE) IN
                          IF e = 0 THEN <<"OTHER", sp, 1>> ELSE <<"STR", sp, e - p + 1>>
            [] c = "b" -> LET e == FindClose(buf, p + 1, "b", TRUE) IN
                          IF e = 0 THEN <<"OTHER", sp, 1>> ELSE <<"RAW", sp, e - p + 1>>
            [] c = ";" -> <<"SEMI", sp, 1>>
            [] OTHER  -> <<"OTHER", sp, 1>>

RECURSIVE Ideal(_)
(* max-munch tokenisation of a complete input: sequence of <<kind, text>> *)
Ideal(inp) ==
  LET m == Match(inp) IN
  IF m[1] = "NONE" THEN <<>>
  ELSE <<[k |-> m[1], t |-> SubSeq(inp, m[2] + 1, m[2] + m[3])]>> \o Ideal(SubSeq(inp, m[2] + m[3] + 1, Len(inp)))

(* ------------------------------ the machine ----------------------------- *)
VARIABLES input, rest, buf, toks
vars == <<input, rest, buf, toks>>

LexInit(inputs) == input \in inputs /\ rest = input /\ buf = <<>> /\ toks = <<>>

Refill(k) == /\ rest # <<>> /\ k >= 1 /\ k <= R /\ k <= Len(rest)
             /\ (Policy = "window" => Len(buf) < T)
             /\ buf' = buf \o SubSeq(rest, 1, k) /\ rest' = SubSeq(rest, k + 1, Len(rest))
             /\ UNCHANGED <<input, toks>>
CanScan == IF Policy = "whole" THEN rest = <<>> ELSE (Len(buf) >= T \/ rest = <<>>)
Scan == /\ CanScan /\ buf # <<>>
        /\ LET m == Match(buf) IN
           /\ m[1] # "NONE"
           /\ toks' = Append(toks, [k |-> m[1], t |-> SubSeq(buf, m[2] + 1, m[2] + m[3])])
           /\ buf' = SubSeq(buf, m[2] + m[3] + 1, Len(buf))
        /\ UNCHANGED <<input, rest>>
DropSpaces == /\ CanScan /\ buf # <<>> /\ Match(buf)[1] = "NONE" /\ rest = <<>>
              /\ buf' = <<>> /\ UNCHANGED <<input, rest, toks>>
LexNext == (\E k \in 1..R : Refill(k)) \/ Scan \/ DropSpaces
Done == rest = <<>> /\ buf = <<>>

(* the parse input does not depend on how the reader splits the bytes, and every token has its full text *)
ChunkIndependence == Done => toks = Ideal(input)

(* ------------------------------ layout ---------------------------------- *)
Kinds(ts) == [n \in 1..Len(ts) |-> ts[n].k]
(* token streams equal up to the text of RET tokens (layout volume) *)
SameModuloLayout(a, b) ==
  /\ Len(a) = Len(b)
  /\ \A n \in 1..Len(a) : a[n].k = b[n].k /\ (a[n].k # "RET" => a[n].t = b[n].t)
(* replace the newline at position p (a place where the grammar allows a line break) by pad \o <<"n">> *)
PadAt(inp, p, pad) == SubSeq(inp, 1, p - 1) \o pad \o SubSeq(inp, p, Len(inp))
=============================================================================

------------------------------- MODULE MC_Repl -------------------------------
(* Every REPL session of at most MaxLines lines over the alphabet, closed by Eof: the transcript PanRepl prescribes. *)
EXTENDS PanRepl, Json
Emit == closed => PrintT("CASE " \o ToJson([typed |-> typed, out |-> out]))
=============================================================================

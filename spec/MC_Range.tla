------------------------------- MODULE MC_Range -------------------------------
EXTENDS PanRange, Json, TLC
CONSTANTS NegLo, Hi, MaxStep
Lo == 0 - NegLo
VARIABLES a, b, s
Steps == ((0 - MaxStep)..MaxStep) \cup {Nil}
Init == a \in Lo..Hi /\ b \in Lo..Hi /\ s \in Steps
Next == UNCHANGED <<a, b, s>>
LawsHold == Laws(a, b, s)
IntLaw == \A n \in Lo..Hi : IntElems(n) = Elems(1, n + 1, 1)
Emit == PrintT("CASE " \o ToJson([a |-> a, b |-> b, s |-> s, zero |-> (s = 0),
          q |-> (IF s = 0 THEN <<>> ELSE Elems(a, b, s)), inc |-> Inc(s), dec |-> Dec(s),
          sum |-> (IF s = 0 THEN 0 ELSE SumOf(Elems(a, b, s))),
          idx |-> (IF s = 0 THEN <<>> ELSE [v \in 1..(Hi - Lo + 1) |-> IndexOfCase(Lo + v - 1, Elems(a, b, s))]),
          mem |-> (IF s = 0 THEN <<>> ELSE [v \in 1..(Hi - Lo + 1) |-> Member(Lo + v - 1, Elems(a, b, s))]),
          inside |-> Inside(a, b, s, Hi), ints |-> IntElems(a)]))
=============================================================================

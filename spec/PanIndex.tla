------------------------------ MODULE PanIndex ------------------------------
(***************************************************************************)
(* Indexing and slicing of a sequence of length n (arrays, strings by      *)
(* code point).  Positions are 0-based like the language.                  *)
(*                                                                         *)
(* Bounds range over Int \cup {NIL, PINF, NINF}: NIL is an omitted bound,  *)
(* PINF / NINF stand for "any value beyond every length in the window"     *)
(* (the harness instantiates them with 2^31, 2^62, 2^63-1 and their        *)
(* negatives); they are ordinary (large) integers here so that the same    *)
(* arithmetic applies.                                                     *)
(***************************************************************************)
EXTENDS Integers, Sequences

NIL  == 1000000
PINF ==  900000
NINF == -900000

Clamp(x, lo, hi) == IF x < lo THEN lo ELSE IF x > hi THEN hi ELSE x

(* s[i]: the addressed position, or -1 for "outside [-n, n-1]" (=> nil) *)
Index(n, i) == IF i >= 0 /\ i < n THEN i
               ELSE IF i < 0 /\ i >= -n THEN i + n
               ELSE -1

(* A written bound counts from the end when negative, and is then clamped   *)
(* to the ends of the sequence *in the direction of the step*: an ascending *)
(* slice may start/stop anywhere in 0..n, a descending one in -1..n-1       *)
(* ("before the beginning" is a legal stop of a descending slice).          *)
NormBound(n, b, step) ==
  LET b1 == IF b < 0 THEN b + n ELSE b
  IN IF step > 0 THEN Clamp(b1, 0, n) ELSE Clamp(b1, -1, n - 1)

Start(n, a, step) == IF a = NIL THEN (IF step > 0 THEN 0 ELSE n - 1) ELSE NormBound(n, a, step)
Stop(n, b, step)  == IF b = NIL THEN (IF step > 0 THEN n ELSE -1)    ELSE NormBound(n, b, step)

RECURSIVE Walk(_, _, _)
Walk(i, stop, step) ==
  IF (step > 0 /\ i < stop) \/ (step < 0 /\ i > stop)
  THEN <<i>> \o Walk(i + step, stop, step)
  ELSE <<>>

(* s[a:b:c] with c omitted = 1.  step = 0 is an error (ValueErr), modelled *)
(* by the caller.                                                          *)
Slice(n, a, b, c) ==
  LET step == IF c = NIL THEN 1 ELSE c
  IN Walk(Start(n, a, step), Stop(n, b, step), step)

-----------------------------------------------------------------------------
(* Design-level properties of the definition itself (checked by MC_C11).   *)
InRange(n, ps)   == \A k \in 1..Len(ps) : ps[k] >= 0 /\ ps[k] < n
Monotone(ps, st) == \A k \in 1..(Len(ps) - 1) : ps[k+1] = ps[k] + st
=============================================================================

------------------------------- MODULE PanStr -------------------------------
(***************************************************************************)
(* Functions of strs as functions on character sequences (props/str_props.go,*)
(* native/Str.pangaea): + (concatenation), * n (repetition), len, rev, A    *)
(* (the characters), empty?, B (a str is truthy when it has characters),    *)
(* first / last, == and the lexicographic <=>, and / (split): the pieces    *)
(* between occurrences of a one-character separator with EMPTY pieces left  *)
(* out ("a,b,,c" / "," is ["a", "b", "c"]); an empty separator splits into  *)
(* characters.  Characters are small ints ordered like their code points.   *)
(***************************************************************************)
EXTENDS Integers, Sequences
Rev(q) == [i \in 1..Len(q) |-> q[Len(q) + 1 - i]]
RECURSIVE Repeat(_, _), SplitAcc(_, _, _, _), Cmp(_, _), Flat(_)
Repeat(q, n) == IF n <= 0 THEN <<>> ELSE q \o Repeat(q, n - 1)
(* walk s; cur is the piece being collected *)
SplitAcc(s, sep, cur, acc) ==
  IF s = <<>> THEN (IF cur = <<>> THEN acc ELSE Append(acc, cur))
  ELSE IF Head(s) = sep THEN SplitAcc(Tail(s), sep, <<>>, IF cur = <<>> THEN acc ELSE Append(acc, cur))
  ELSE SplitAcc(Tail(s), sep, Append(cur, Head(s)), acc)
Split(s, sep) == SplitAcc(s, sep, <<>>, <<>>)
Chars(s) == [i \in 1..Len(s) |-> <<s[i]>>]
Cmp(s, t) == IF s = <<>> /\ t = <<>> THEN 0 ELSE IF s = <<>> THEN -1 ELSE IF t = <<>> THEN 1
             ELSE IF Head(s) < Head(t) THEN -1 ELSE IF Head(s) > Head(t) THEN 1 ELSE Cmp(Tail(s), Tail(t))
Flat(ps) == IF ps = <<>> THEN <<>> ELSE Head(ps) \o Flat(Tail(ps))
Without(s, sep) == SelectSeq(s, LAMBDA c : c # sep)

Laws(s, t, sep) ==
  /\ Len(s \o t) = Len(s) + Len(t)
  /\ Rev(Rev(s)) = s
  /\ \A i \in 1..Len(Split(s, sep)) : Split(s, sep)[i] # <<>> /\ \A j \in 1..Len(Split(s, sep)[i]) : Split(s, sep)[i][j] # sep
  /\ Flat(Split(s, sep)) = Without(s, sep)                     \* nothing but separators is lost
  /\ Cmp(s, t) = -Cmp(t, s) /\ (Cmp(s, t) = 0) = (s = t)
  /\ Cmp(s, s \o t) <= 0                                       \* a prefix comes first
  /\ \A n \in 0..3 : Len(Repeat(s, n)) = n * Len(s)
=============================================================================

------------------------------ MODULE Trace_C19 ------------------------------
(* A recorded session: obs[k] = what program hist[k] showed in the used interpreter, *)
(* fresh[k] = what it shows in a newly started one, shared[k] = projection of the     *)
(* interpreter-wide state before the first / after the k-th program (hashes).         *)
(* It must be a behaviour of PanSession: obs[k] = FreshObs(hist[k]), shared constant.  *)
EXTENDS Integers, Sequences, TLC, Json
Rows == ndJsonDeserialize("c19.ndjson")
K == 32
VARIABLE i
Init == i = 0
Next == \/ i = 0 /\ i' \in {-k : k \in 1..K}
        \/ i < 0 /\ i' \in {n \in 1..Len(Rows) : n % K = (-i) % K}
RECURSIVE FirstObs(_, _), FirstShared(_, _)
FirstObs(r, k) == IF k > Len(r.obs) THEN 0 ELSE IF r.obs[k] # r.fresh[k] THEN k ELSE FirstObs(r, k + 1)
FirstShared(r, k) == IF k > Len(r.shared) THEN 0 ELSE IF r.shared[k] # r.shared[1] THEN k ELSE FirstShared(r, k + 1)
Verdict == i > 0 => PrintT("V " \o ToJson([id |-> Rows[i].id, obs |-> FirstObs(Rows[i], 1), shared |-> FirstShared(Rows[i], 1),
                                           complete |-> Len(Rows[i].obs) = Len(Rows[i].fresh)]))
=============================================================================

SPECIFICATION Spec
CONSTANTS
  Proc = {1, 2, 3}
  Str = {"a", "b"}
  LockedS2S = FALSE
INVARIANTS NoRace
CHECK_DEADLOCK FALSE

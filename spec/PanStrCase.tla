------------------------------ MODULE PanStrCase ------------------------------
(***************************************************************************)
(* Spelling conversions of strs (native/Str.pangaea): camel, pascal, snake, *)
(* kebab, capital, trim, truncate, rev and the predicates lc?, uc?, camel?, *)
(* snake?, kebab?, pascal?.  A str is a sequence of characters out of       *)
(* {a, B, -, _, space}; results may also hold A and b.                      *)
(*   camel  : first character lower-cased; in the rest every "-x" / "_x"    *)
(*            with a lower-case letter x becomes X (leftmost, not           *)
(*            overlapping)                                                  *)
(*   pascal : the same with the first character upper-cased                 *)
(*   snake  : "-" -> "_", "_" before every upper-case letter, all lower     *)
(*            case, ONE leading "_" removed          (kebab: with "-")      *)
(*   capital: first character upper-cased, rest lower-cased                 *)
(*   trim   : leading and trailing spaces removed                           *)
(*   truncate(n, end): the str if it has at most n characters, else its     *)
(*            first n - Len(end) characters followed by end.  DEVIATION     *)
(*            kept as is: for n < Len(end) the count is negative and is     *)
(*            taken from the end of the str, as a slice bound would be      *)
(*   the empty str has no first character: camel, pascal and capital raise  *)
(***************************************************************************)
EXTENDS Integers, Sequences, TLC
Alphabet == {"a", "B", "-", "_", " "}
Lower(c) == c \in {"a", "b"}
Upper(c) == c \in {"A", "B"}
Uc(c) == CASE c = "a" -> "A" [] c = "b" -> "B" [] OTHER -> c
Lc(c) == CASE c = "A" -> "a" [] c = "B" -> "b" [] OTHER -> c
UcAll(s) == [i \in 1..Len(s) |-> Uc(s[i])]
LcAll(s) == [i \in 1..Len(s) |-> Lc(s[i])]
RECURSIVE Humps(_)
Humps(s) == IF s = <<>> THEN <<>>
            ELSE IF Len(s) >= 2 /\ s[1] \in {"-", "_"} /\ Lower(s[2]) THEN <<Uc(s[2])>> \o Humps(SubSeq(s, 3, Len(s)))
            ELSE <<s[1]>> \o Humps(Tail(s))
Swap(s, from, to) == [i \in 1..Len(s) |-> IF s[i] = from THEN to ELSE s[i]]
RECURSIVE Mark(_, _)
Mark(s, sep) == IF s = <<>> THEN <<>> ELSE (IF Upper(s[1]) THEN <<sep, s[1]>> ELSE <<s[1]>>) \o Mark(Tail(s), sep)
DropLead(s, sep) == IF s # <<>> /\ s[1] = sep THEN Tail(s) ELSE s
Err == <<"<err>">>
Camel(s) == IF s = <<>> THEN Err ELSE <<Lc(s[1])>> \o Humps(Tail(s))
Pascal(s) == IF s = <<>> THEN Err ELSE <<Uc(s[1])>> \o Humps(Tail(s))
Snake(s) == DropLead(LcAll(Mark(Swap(s, "-", "_"), "_")), "_")
Kebab(s) == DropLead(LcAll(Mark(Swap(s, "_", "-"), "-")), "-")
Capital(s) == IF s = <<>> THEN Err ELSE <<Uc(s[1])>> \o LcAll(Tail(s))
RECURSIVE TrimL(_)
TrimL(s) == IF s # <<>> /\ s[1] = " " THEN TrimL(Tail(s)) ELSE s
Rev(s) == [i \in 1..Len(s) |-> s[Len(s) + 1 - i]]
Trim(s) == Rev(TrimL(Rev(TrimL(s))))
(* s[:k] : k >= 0 the first k characters (all if fewer), k < 0 all but the last -k *)
Upto(s, k) == IF k >= 0 THEN SubSeq(s, 1, IF k < Len(s) THEN k ELSE Len(s)) ELSE SubSeq(s, 1, IF Len(s) + k > 0 THEN Len(s) + k ELSE 0)
Truncate(s, n, end) == IF Len(s) <= n THEN s ELSE Upto(s, n - Len(end)) \o end

(* laws *)
(* snake / kebab are NOT idempotent: only one leading separator is removed ("__a" -> "_a" -> "a"); TLC refuted that law *)
Laws(s) == /\ Rev(Rev(s)) = s /\ Trim(Trim(s)) = Trim(s)
           /\ (\A i \in 1..Len(Snake(s)) : ~Upper(Snake(s)[i]) /\ Snake(s)[i] # "-")
           /\ (\A i \in 1..Len(Kebab(s)) : ~Upper(Kebab(s)[i]) /\ Kebab(s)[i] # "_")
           /\ (s # <<>> => Camel(Camel(s)) = Camel(s))
           /\ (Len(s) >= 3 => Len(Truncate(s, 3, <<".", ".">>)) <= 3)
=============================================================================

------------------------------- MODULE PanRepl -------------------------------
(***************************************************************************)
(* The interactive interpreter (runscript/repl.go) as a state machine.      *)
(* The environment types one line per step (TypeLine) or closes the input   *)
(* (Eof).  The REPL is in single-line mode (every line is a chunk) or in     *)
(* multi-line mode (lines are collected until an empty line).  The words     *)
(* `single` and `multi`, alone on a line and spelled exactly so, change the  *)
(* mode: in single-line mode both are commands, in multi-line mode only      *)
(* `single` is (and it discards the block typed so far); `multi` inside a    *)
(* block is source text.  After a mode command the REPL evaluates the empty  *)
(* chunk (and prints its value) before it prompts again.                     *)
(* out is what a user sees: prompts and evaluations, in order; every chunk   *)
(* is evaluated in the ONE scope of the session.                             *)
(* A chunk evaluation ends in a value, a Pangaea error or a syntax report    *)
(* (C01); no line makes the REPL itself stop: only Eof does.                 *)
(***************************************************************************)
EXTENDS Integers, Sequences, TLC
CONSTANTS Alphabet,        \* the lines the environment may type
          MaxLines
VARIABLES mode, block, typed, out, closed
vars == <<mode, block, typed, out, closed>>

Prompt(m) == [e |-> "prompt", m |-> m, src |-> ""]
Eval(src) == [e |-> "eval", m |-> "", src |-> src]
RECURSIVE Join(_)
Join(ls) == IF ls = <<>> THEN "" ELSE Head(ls) \o "\n" \o Join(Tail(ls))

Init == mode = "single" /\ block = <<>> /\ typed = <<>> /\ out = <<Prompt("single")>> /\ closed = FALSE

(* single-line mode *)
SingleCommand(l) == /\ mode = "single" /\ l \in {"single", "multi"}
                    /\ mode' = l /\ block' = <<>>
                    /\ out' = out \o <<Eval(""), Prompt(l)>>
SingleChunk(l)   == /\ mode = "single" /\ l \notin {"single", "multi"}
                    /\ out' = out \o <<Eval(l), Prompt("single")>>
                    /\ UNCHANGED <<mode, block>>
(* multi-line mode *)
MultiCollect(l)  == /\ mode = "multi" /\ l \notin {"", "single"}
                    /\ block' = Append(block, l) /\ UNCHANGED <<mode, out>>
MultiRun(l)      == /\ mode = "multi" /\ l = ""
                    /\ out' = out \o <<Eval(Join(block)), Prompt("multi")>>
                    /\ block' = <<>> /\ UNCHANGED mode
MultiLeave(l)    == /\ mode = "multi" /\ l = "single"
                    /\ mode' = "single" /\ block' = <<>>
                    /\ out' = out \o <<Eval(""), Prompt("single")>>

TypeLine(l) == /\ ~closed /\ Len(typed) < MaxLines
               /\ typed' = Append(typed, l) /\ UNCHANGED closed
               /\ (SingleCommand(l) \/ SingleChunk(l) \/ MultiCollect(l) \/ MultiRun(l) \/ MultiLeave(l))
Eof == ~closed /\ closed' = TRUE /\ UNCHANGED <<mode, block, typed, out>>     \* a block typed so far is dropped
Next == (\E l \in Alphabet : TypeLine(l)) \/ Eof
Spec == Init /\ [][Next]_vars

(* ---- properties ------------------------------------------------------------ *)
TypeOK == mode \in {"single", "multi"} /\ (mode = "single" => block = <<>>)
(* the transcript alternates: prompt (eval prompt)* and always ends with a prompt: the REPL is always ready for the next line *)
Alternates == /\ Len(out) % 2 = 1
              /\ \A k \in 1..Len(out) : out[k].e = (IF k % 2 = 1 THEN "prompt" ELSE "eval")
(* the last prompt shows the mode the REPL is in *)
PromptShowsMode == out[Len(out)].m = mode
(* only the exact words are commands: a line that differs in case or spacing is evaluated (single) or collected (multi) *)
OnlyExactWords == [][\A l \in Alphabet : (typed' = Append(typed, l) /\ mode' # mode) => l \in {"single", "multi"}]_vars
(* in single-line mode, every typed line produces exactly one evaluation *)
OneEvalPerLine == [][(mode = "single" /\ Len(typed') > Len(typed)) => Len(out') = Len(out) + 2]_vars
=============================================================================

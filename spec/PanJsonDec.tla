------------------------------ MODULE PanJsonDec ------------------------------
(***************************************************************************)
(* JSON.dec / Str#decJSON (props/json_props.go): a JSON document, given as  *)
(* a tree, and the Pangaea value its text decodes to.                       *)
(*   number   an int when its value is integral (2.0, 1e2, -0.0 are 2, 100, *)
(*            0), a float otherwise                                         *)
(*   string, true, false, null   the str, the booleans, nil                 *)
(*   array    the array of the decoded elements                             *)
(*   object   an obj with one property per member name; DEVIATION kept as   *)
(*            is (encoding/json): of two members with the same name the     *)
(*            LAST one stays (everywhere else in the language the first     *)
(*            occurrence wins)                                              *)
(* A tree is [t |-> "num", txt, int?, v] | [t |-> "str", s] | [t |-> "lit", *)
(* s] | [t |-> "arr", es] | [t |-> "obj", ms |-> Seq([k, v])].              *)
(***************************************************************************)
EXTENDS Integers, Sequences, FiniteSets, TLC
RECURSIVE Text(_), Dec(_), JoinTexts(_), JoinMembers(_), DecAll(_), LastWins(_, _)
JoinTexts(es) == IF es = <<>> THEN "" ELSE IF Len(es) = 1 THEN Text(es[1]) ELSE Text(es[1]) \o ", " \o JoinTexts(Tail(es))
JoinMembers(ms) == IF ms = <<>> THEN "" ELSE "\"" \o ms[1].k \o "\": " \o Text(ms[1].v) \o (IF Len(ms) = 1 THEN "" ELSE ", " \o JoinMembers(Tail(ms)))
Text(t) == CASE t.t = "num" -> t.txt
             [] t.t = "str" -> "\"" \o t.s \o "\""
             [] t.t = "lit" -> t.s
             [] t.t = "arr" -> "[" \o JoinTexts(t.es) \o "]"
             [] t.t = "obj" -> "{" \o JoinMembers(t.ms) \o "}"
DecAll(es) == IF es = <<>> THEN <<>> ELSE <<Dec(Head(es))>> \o DecAll(Tail(es))
(* members with the names of `seen` removed, walking from the LAST member backwards: the last occurrence of a name stays *)
LastWins(ms, seen) == IF ms = <<>> THEN <<>>
                      ELSE LET m == ms[Len(ms)] rest == SubSeq(ms, 1, Len(ms) - 1) IN
                           IF m.k \in seen THEN LastWins(rest, seen) ELSE LastWins(rest, seen \cup {m.k}) \o <<[k |-> m.k, v |-> Dec(m.v)]>>
Dec(t) == CASE t.t = "num" -> IF t.int THEN [t |-> "int", v |-> t.v] ELSE [t |-> "float", txt |-> t.shown]
            [] t.t = "str" -> [t |-> "str", s |-> t.s]
            [] t.t = "lit" -> (IF t.s = "null" THEN [t |-> "nil"] ELSE [t |-> "bool", b |-> t.s = "true"])
            [] t.t = "arr" -> [t |-> "arr", es |-> DecAll(t.es)]
            [] t.t = "obj" -> [t |-> "obj", ps |-> LastWins(t.ms, {})]
Names(v) == {v.ps[i].k : i \in 1..Len(v.ps)}
(* laws *)
Laws(t) == /\ (t.t = "obj" => /\ Cardinality(Names(Dec(t))) = Len(Dec(t).ps)                                 \* one property per name
                              /\ Names(Dec(t)) = {t.ms[i].k : i \in 1..Len(t.ms)}
                              /\ \A i \in 1..Len(t.ms) : (\A j \in (i + 1)..Len(t.ms) : t.ms[j].k # t.ms[i].k) =>
                                     \E p \in 1..Len(Dec(t).ps) : Dec(t).ps[p] = [k |-> t.ms[i].k, v |-> Dec(t.ms[i].v)])
           /\ (t.t = "arr" => Len(Dec(t).es) = Len(t.es))
=============================================================================

----------------------------- MODULE PanLockset -----------------------------
(***************************************************************************)
(* The synchronisation protocol of the interpreter-wide tables              *)
(* (object/hashtable.go: symHashTable, strTable, one sync.RWMutex).         *)
(* rc[p] = number of read locks process p holds, writer = holder of the     *)
(* write lock or None.  A table access is a step that is enabled only when  *)
(* the accessing process holds the lock the access needs.                   *)
(***************************************************************************)
(* The two tables are one relation (string <-> symbol <-> str object): a      *)
(* writer that adds a symbol to one table adds it to the other in the SAME   *)
(* critical section, so whenever the lock is free both tables agree          *)
(* (AtomicPublish: wrote[p] records which tables p has written since it took *)
(* the write lock; the lock can only be released with both or neither).      *)
EXTENDS Naturals, FiniteSets
CONSTANT Proc
VARIABLES rc, writer, wrote
None == 0
ASSUME None \notin Proc

Tables == {"symHashTable", "strTable"}
LInit == rc = [p \in Proc |-> 0] /\ writer = None /\ wrote = [p \in Proc |-> {}]
NoReaders == \A p \in Proc : rc[p] = 0

RLock(p)   == writer = None /\ rc' = [rc EXCEPT ![p] = @ + 1] /\ UNCHANGED <<writer, wrote>>
RUnlock(p) == rc[p] > 0 /\ rc' = [rc EXCEPT ![p] = @ - 1] /\ UNCHANGED <<writer, wrote>>
WLock(p)   == writer = None /\ NoReaders /\ writer' = p /\ wrote' = [wrote EXCEPT ![p] = {}] /\ UNCHANGED rc
AtomicPublish(p) == wrote[p] \cap Tables \in {{}, Tables}
WUnlock(p) == writer = p /\ AtomicPublish(p) /\ writer' = None /\ UNCHANGED <<rc, wrote>>

CanRead(p)  == rc[p] > 0 \/ writer = p
CanWrite(p) == writer = p
Read(p)  == CanRead(p)  /\ UNCHANGED <<rc, writer, wrote>>
Write(p) == CanWrite(p) /\ UNCHANGED <<rc, writer, wrote>>
WriteTab(p, tab) == CanWrite(p) /\ wrote' = [wrote EXCEPT ![p] = @ \cup {tab}] /\ UNCHANGED <<rc, writer>>

(* the RWMutex guarantee, preserved by the four lock actions *)
Exclusion == writer # None => NoReaders
=============================================================================

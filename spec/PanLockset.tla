----------------------------- MODULE PanLockset -----------------------------
(***************************************************************************)
(* The synchronisation protocol of the interpreter-wide tables              *)
(* (object/hashtable.go: symHashTable, strTable, one sync.RWMutex).         *)
(* rc[p] = number of read locks process p holds, writer = holder of the     *)
(* write lock or None.  A table access is a step that is enabled only when  *)
(* the accessing process holds the lock the access needs.                   *)
(***************************************************************************)
EXTENDS Naturals, FiniteSets
CONSTANT Proc
VARIABLES rc, writer
None == 0
ASSUME None \notin Proc

LInit == rc = [p \in Proc |-> 0] /\ writer = None
NoReaders == \A p \in Proc : rc[p] = 0

RLock(p)   == writer = None /\ rc' = [rc EXCEPT ![p] = @ + 1] /\ UNCHANGED writer
RUnlock(p) == rc[p] > 0 /\ rc' = [rc EXCEPT ![p] = @ - 1] /\ UNCHANGED writer
WLock(p)   == writer = None /\ NoReaders /\ writer' = p /\ UNCHANGED rc
WUnlock(p) == writer = p /\ writer' = None /\ UNCHANGED rc

CanRead(p)  == rc[p] > 0 \/ writer = p
CanWrite(p) == writer = p
Read(p)  == CanRead(p)  /\ UNCHANGED <<rc, writer>>
Write(p) == CanWrite(p) /\ UNCHANGED <<rc, writer>>

(* the RWMutex guarantee, preserved by the four lock actions *)
Exclusion == writer # None => NoReaders
=============================================================================

---------------------------- MODULE PanCallSpace ----------------------------
(***************************************************************************)
(* C01: every run ends in exactly one of: a syntax error report, a Pangaea   *)
(* value, a Pangaea error (with stack trace).  Outcomes "discarded" (fuel,   *)
(* deadline, memory: the property's proviso) are not judged.  A recovered    *)
(* host panic or a fatal error is not an outcome of the language: no action  *)
(* produces it.                                                              *)
(* The call space is enumerated here as index tuples:                        *)
(*   <<"call", r, p>>   receiver r of the pool, p-th reachable property of r *)
(*   <<"tok", i, j>>    token sequence of two representatives                *)
(* Argument tuples for a call are expanded by the harness from ArgShapes.    *)
(***************************************************************************)
EXTENDS Integers, Sequences, TLC, Json
Reach == ndJsonDeserialize("c01_reach.ndjson")     \* row r: [n |-> number of reachable property names of receiver r]
CONSTANTS NTok
Outcomes == {"syntax", "value", "panerr", "discarded"}
Legal(o) == o \in Outcomes

VARIABLES kind, a, b
Init == \/ kind = "call" /\ a \in 1..Len(Reach) /\ b \in 1..Reach[a].n
        \/ kind = "tok" /\ a \in 1..NTok /\ b \in 0..NTok
Next == UNCHANGED <<kind, a, b>>
Emit == PrintT("CASE " \o ToJson([kind |-> kind, a |-> a, b |-> b]))
=============================================================================

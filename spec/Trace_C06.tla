------------------------------ MODULE Trace_C06 ------------------------------
(* Each row is one history recorded from the real interpreter: snaps[k] = the    *)
(* fingerprints (hashed) of all live values after k operations, in creation order. *)
(* The recorded behaviour  vals = snaps[1], snaps[2], ...  must satisfy AppendOnly. *)
EXTENDS PanHeap, Json
Rows == ndJsonDeserialize("c06.ndjson")
K == 32
VARIABLE i
Init == i = 0 /\ vals = <<>>
Next == /\ UNCHANGED vals
        /\ \/ i = 0 /\ i' \in {-k : k \in 1..K}
           \/ i < 0 /\ i' \in {n \in 1..Len(Rows) : n % K = (-i) % K}
Verdict == i > 0 => PrintT("V " \o ToJson([id |-> Rows[i].id, broken |-> FirstBroken(Rows[i].snaps, 1)]))
=============================================================================

SPECIFICATION Spec
CONSTANTS
  Proc = {1, 2, 3}
  Str = {"a", "b"}
  LockedS2S = TRUE
  SplitPublish = TRUE
INVARIANTS ConsistentWhenFree
CHECK_DEADLOCK FALSE

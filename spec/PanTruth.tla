------------------------------ MODULE PanTruth ------------------------------
(* C12: one truthiness rule.  A row records, for one condition value, what each *)
(* conditional construct of the real interpreter did ("T" = treated it as true, *)
(* "F" = as false, "X" = anything else, e.g. both branches ran or the right     *)
(* operand was evaluated twice) and whether its B property yields the object    *)
(* true.  The law: every construct agrees with B.                               *)
EXTENDS Integers, Sequences, TLC, Json
Rows == ndJsonDeserialize("c12.ndjson")
Constructs == <<"ifelse", "ifelsenil", "if", "not", "and", "or", "ret", "raise", "defer", "yield">>
Agree(r) == \A k \in 1..Len(Constructs) : r.obs[k] = r.b
VARIABLE i
Init == i \in 1..Len(Rows)
Next == UNCHANGED i
Verdict == PrintT("V " \o ToJson([id |-> Rows[i].id, ok |-> Agree(Rows[i]),
                                  bad |-> {Constructs[k] : k \in {j \in 1..Len(Constructs) : Rows[i].obs[j] # Rows[i].b}}]))
=============================================================================

------------------------------ MODULE Trace_C10 ------------------------------
(* Validates recorded Int operations of the real interpreter against PanArith. *)
(* State graph: root (i = 0) -> K chunk nodes (i = -k) -> the recorded cases of *)
(* that chunk (i = index), so that TLC's workers judge the cases in parallel.  *)
EXTENDS PanArith, TLC, Json
Cases == ndJsonDeserialize("c10.ndjson")
K == 64
VARIABLE i
Init == i = 0
Next == \/ i = 0 /\ i' \in {-k : k \in 1..K}
        \/ i < 0 /\ i' \in {j \in 1..Len(Cases) : j % K = (-i) % K}
Verdict == i > 0 => PrintT("V " \o ToJson([id |-> Cases[i].id, ok |-> Holds(Cases[i])]))
=============================================================================

------------------------------ MODULE PanModule ------------------------------
(***************************************************************************)
(* Source files and the two ways to use one from another (di/import.go).     *)
(*                                                                           *)
(* import(p)   resolves p against the directory of the file being evaluated, *)
(*             evaluates the target in a NEW scope whose parent is the       *)
(*             GLOBAL scope, and returns an object holding the target's own  *)
(*             variables.  The importer's scope is not the parent - but a    *)
(*             script run as `pangaea file` is evaluated directly IN the     *)
(*             global scope, so its top-level variables (as of the moment of *)
(*             the import) are visible to every module, however deeply       *)
(*             nested; variables of a module are visible to nobody.          *)
(*             (`pangaea test` gives every file an inner scope: there the    *)
(*             importer's variables are not visible.  The code comment in    *)
(*             di/import.go states the intent "variables in this env must    *)
(*             not affect the imported module"; the global scope is the      *)
(*             exception the implementation makes.)                          *)
(*             Nothing is cached: importing twice evaluates twice            *)
(*             (load-time output appears twice).                             *)
(* invite!(p)  resolves p the same way and evaluates the target IN the       *)
(*             inviting scope: its definitions land there (and may overwrite *)
(*             the inviter's), it sees the inviter's variables; relative     *)
(*             paths inside the target are resolved against the TARGET's     *)
(*             directory, and afterwards the inviter's own directory is in   *)
(*             force again.                                                  *)
(* A missing file raises FileNotFoundErr; an error raised while the target   *)
(* is evaluated is raised by the import / invite! expression itself.         *)
(*                                                                           *)
(* The file tree is fixed: r/main, r/h, r/s/h, r/s/g; what each file         *)
(* contains is chosen from small menus of bodies (MC_Module).                *)
(***************************************************************************)
EXTENDS Integers, Sequences, TLC

Names == <<"g", "k", "m", "n", "x", "y", "z">>            \* sorted: the order `keys` lists them in
NameSet == {Names[i] : i \in 1..Len(Names)}
Undef == [t |-> "undef"]
IntV(n) == [t |-> "int", v |-> n]
ModV(e) == [t |-> "mod", vars |-> e]
EmptyEnv == [nm \in NameSet |-> Undef]

(* statements *)
D(a, n) == [op |-> "def",  a |-> a, n |-> n, p |-> ""]      \* a := n
S(a)    == [op |-> "say",  a |-> a, n |-> 0, p |-> ""]      \* a.p
T(p)    == [op |-> "str",  a |-> "", n |-> 0, p |-> p]      \* "p".p          (load-time output)
I(a, p) == [op |-> "imp",  a |-> a, n |-> 0, p |-> p]       \* a := import(p)
F(a, b) == [op |-> "fld",  a |-> a, n |-> 0, p |-> b]       \* a.b.p
K(a)    == [op |-> "keys", a |-> a, n |-> 0, p |-> ""]      \* a.keys.p
V(p)    == [op |-> "inv",  a |-> "", n |-> 0, p |-> p]      \* invite!(p)
W       == [op |-> "path", a |-> "", n |-> 0, p |-> ""]     \* the file the evaluator believes it is in

DirOf(f) == IF f \in {"r/s/h", "r/s/g"} THEN "r/s" ELSE "r"
Files == {"r/main", "r/h", "r/s/h", "r/s/g"}
Resolve(dir, p) ==
  CASE p = "./h"   -> dir \o "/h"
    [] p = "./g"   -> dir \o "/g"
    [] p = "./s/h" -> dir \o "/s/h"
    [] p = "./s/g" -> dir \o "/s/g"
    [] p = "../h"  -> IF dir = "r/s" THEN "r/h" ELSE "outside"
    [] OTHER       -> "missing"

Res(out, env, err) == [out |-> out, env |-> env, err |-> err]
Defined(env) == SelectSeq(Names, LAMBDA nm : env[nm].t # "undef")

(* Exec(body of, statements left, scope, global scope, is the scope the global one, file whose directory resolves paths, output so far, nesting left) *)
RECURSIVE Exec(_, _, _, _, _, _, _, _)
Exec(Body(_), stmts, scope, glob, top, file, out, fuel) ==
  IF stmts = <<>> THEN Res(out, scope, "ok")
  ELSE LET s == Head(stmts)  rest == Tail(stmts)  tgt == Resolve(DirOf(file), s.p)
           G == IF top THEN scope ELSE glob                                           \* the global scope as of now
           env == [nm \in NameSet |-> IF scope[nm].t # "undef" THEN scope[nm] ELSE G[nm]]   \* what a name denotes here
       IN
    CASE s.op = "def" -> Exec(Body, rest, [scope EXCEPT ![s.a] = IntV(s.n)], glob, top, file, out, fuel)
      [] s.op = "str" -> Exec(Body, rest, scope, glob, top, file, Append(out, [k |-> "str", s |-> s.p, n |-> 0, names |-> <<>>]), fuel)
      [] s.op = "path" -> Exec(Body, rest, scope, glob, top, file, Append(out, [k |-> "path", s |-> file, n |-> 0, names |-> <<>>]), fuel)
      [] s.op = "say" -> IF env[s.a].t = "int" THEN Exec(Body, rest, scope, glob, top, file, Append(out, [k |-> "int", s |-> "", n |-> env[s.a].v, names |-> <<>>]), fuel)
                         ELSE IF env[s.a].t = "undef" THEN Res(out, scope, "NameErr") ELSE Res(out, scope, "unsupported")
      [] s.op = "fld" -> IF env[s.a].t = "undef" THEN Res(out, scope, "NameErr")
                         ELSE IF env[s.a].t # "mod" THEN Res(out, scope, "unsupported")
                         ELSE LET v == env[s.a].vars[s.p] IN
                              IF v.t = "int" THEN Exec(Body, rest, scope, glob, top, file, Append(out, [k |-> "int", s |-> "", n |-> v.v, names |-> <<>>]), fuel)
                              ELSE IF v.t = "undef" THEN Res(out, scope, "NoPropErr") ELSE Res(out, scope, "unsupported")
      [] s.op = "keys" -> IF env[s.a].t # "mod" THEN Res(out, scope, IF env[s.a].t = "undef" THEN "NameErr" ELSE "unsupported")
                          ELSE Exec(Body, rest, scope, glob, top, file, Append(out, [k |-> "keys", s |-> "", n |-> 0, names |-> Defined(env[s.a].vars)]), fuel)
      [] s.op = "imp" -> IF tgt \notin Files THEN Res(out, scope, "FileNotFoundErr")
                         ELSE IF fuel = 0 THEN Res(out, scope, "unsupported")
                         ELSE LET r == Exec(Body, Body(tgt), EmptyEnv, G, FALSE, tgt, out, fuel - 1) IN
                              IF r.err # "ok" THEN Res(r.out, scope, r.err)
                              ELSE Exec(Body, rest, [scope EXCEPT ![s.a] = ModV(r.env)], glob, top, file, r.out, fuel)
      [] s.op = "inv" -> IF tgt \notin Files THEN Res(out, scope, "FileNotFoundErr")
                         ELSE IF fuel = 0 THEN Res(out, scope, "unsupported")
                         ELSE LET r == Exec(Body, Body(tgt), scope, glob, top, tgt, out, fuel - 1) IN
                              IF r.err # "ok" THEN Res(r.out, r.env, r.err)
                              ELSE Exec(Body, rest, r.env, glob, top, file, r.out, fuel)
Run(Body(_)) == Exec(Body, Body("r/main"), EmptyEnv, EmptyEnv, TRUE, "r/main", <<>>, 4)
=============================================================================

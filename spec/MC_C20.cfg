SPECIFICATION Spec
CONSTANTS
  Proc = {1, 2, 3}
  Str = {"a", "b"}
  LockedS2S = TRUE
INVARIANTS Exclusion NoRace LockDiscipline Interned
CHECK_DEADLOCK FALSE

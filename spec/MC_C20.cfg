SPECIFICATION Spec
CONSTANTS
  Proc = {1, 2, 3}
  Str = {"a", "b"}
  LockedS2S = TRUE
  SplitPublish = FALSE
INVARIANTS Exclusion NoRace LockDiscipline Interned ConsistentWhenFree
CHECK_DEADLOCK FALSE

------------------------------ MODULE PanSession ------------------------------
(***************************************************************************)
(* C19: one interpreter process evaluates a sequence of programs, each in a *)
(* fresh scope.  shared = projection of the interpreter-wide state (built-in *)
(* objects, the `_` error incl. its stack trace; not the symbol table).      *)
(* Run(p): what the user observes is what a newly started interpreter would  *)
(* show for p (FreshObs[p]) and shared is left as it was.                    *)
(***************************************************************************)
EXTENDS Integers, Sequences, TLC
CONSTANTS NProgs, MaxHist
VARIABLES hist, shared, lastObs
vars == <<hist, shared, lastObs>>
FreshObs(p) == p               \* abstractly: the observation of program p in a new interpreter is a function of p alone
Init == hist = <<>> /\ shared = 0 /\ lastObs = 0
Run(p) == /\ hist' = Append(hist, p)
          /\ lastObs' = FreshObs(p)          \* independent of hist
          /\ shared' = shared                \* no program changes the shared state
Next == Len(hist) < MaxHist + 1 /\ \E p \in 1..NProgs : Run(p)
Spec == Init /\ [][Next]_vars
HistoryIndependent == [][\A p \in 1..NProgs : (hist' = Append(hist, p)) => lastObs' = FreshObs(p)]_vars
SharedConstant == shared = 0
=============================================================================

--------------------------- MODULE PanCollections ---------------------------
(***************************************************************************)
(* C09: object and map literals.                                            *)
(* An object is built from its explicit pairs in order, then from each      *)
(* ** operand's pairs in order; the first occurrence of a name wins; names  *)
(* are listed sorted, names starting with _ only with private?: true.       *)
(* A map keeps the first value for each distinct key (scalars distinct by    *)
(* type and value, other keys by ==), lists scalar keys in insertion order   *)
(* followed by the other keys in insertion order.                            *)
(* A key is [t, s] (type tag, source text); two keys are the same iff both   *)
(* fields agree ([1] written twice is one key: == on arrays is structural),   *)
(* or one is a descendant the other's == accepts (Class).  The stored key is  *)
(* the one given first.                                                        *)
(***************************************************************************)
EXTENDS Integers, Sequences, FiniteSets

Scalar(k) == k.t \in {"int", "str", "float", "nil", "bool"}
(* B1 is [1].bear({}), R1 is (1:2).bear({}): descendants that `==` says are equal to [1] / (1:2) *)
Class(k) == CASE k.s = "B1" -> [t |-> "arr", s |-> "[1]"] [] k.s = "R1" -> [t |-> "range", s |-> "(1:2)"] [] OTHER -> k
Same(k1, k2) == Class(k1).t = Class(k2).t /\ Class(k1).s = Class(k2).s
Has(ps, k) == \E i \in 1..Len(ps) : Same(ps[i].k, k)
RECURSIVE FirstWins(_, _)
(* fold the pairs in order, dropping every pair whose key was seen before *)
FirstWins(ps, acc) == IF ps = <<>> THEN acc
                      ELSE FirstWins(Tail(ps), IF Has(acc, Head(ps).k) THEN acc ELSE Append(acc, Head(ps)))
Sel(ps, P(_)) == SelectSeq(ps, P)

(* ---- maps ---------------------------------------------------------------- *)
MapOf(ps) == LET u == FirstWins(ps, <<>>) IN Sel(u, LAMBDA p : Scalar(p.k)) \o Sel(u, LAMBDA p : ~Scalar(p.k))
At(m, k) == IF Has(m, k) THEN m[CHOOSE i \in 1..Len(m) : Same(m[i].k, k)].v ELSE -1       \* -1: nil

(* ---- objects: names ordered by the tables below --------------------------- *)
Public  == <<"a", "a!", "b", "c", "d">>        \* sorted by the raw name: a name precedes the same name with a suffix
Private == <<"_p", "_p!", "_q">>
NameKey(n) == [t |-> "str", s |-> "\"" \o n \o "\""]      \* a name as a (symbol / string) key
RECURSIVE Pick(_, _, _)
Pick(names, u, i) == IF i > Len(names) THEN <<>>
                     ELSE (IF Has(u, NameKey(names[i])) THEN <<[k |-> NameKey(names[i]), v |-> At(u, NameKey(names[i]))]>> ELSE <<>>)
                          \o Pick(names, u, i + 1)
ObjPublic(ps)  == Pick(Public, FirstWins(ps, <<>>), 1)
ObjAll(ps)     == ObjPublic(ps) \o Pick(Private, FirstWins(ps, <<>>), 1)

(* ---- invariants of the definitions ---------------------------------------- *)
NoDuplicateKeys(m) == \A i, j \in 1..Len(m) : i # j => ~Same(m[i].k, m[j].k)
ScalarsFirst(m) == \A i, j \in 1..Len(m) : (Scalar(m[j].k) /\ ~Scalar(m[i].k)) => j < i
FirstValueKept(ps, m) == \A i \in 1..Len(ps) : At(m, ps[i].k) = ps[CHOOSE j \in 1..Len(ps) : Same(ps[j].k, ps[i].k) /\ \A l \in 1..(j - 1) : ~Same(ps[l].k, ps[i].k)].v
=============================================================================

------------------------------- MODULE MC_C02 -------------------------------
(* Family for C02: statements built from units (operand shapes with optional  *)
(* prefix / postfix constructs) joined by connectors (23 infix operators,      *)
(* := += => if else), optionally under a jump keyword.                         *)
EXTENDS PanGrammar, TLC, Json
CONSTANTS Triples         \* TRUE: also all connector triples over base units

Id(x) == Tok("id", x)
LP == Tok("lp", "(")  RP == Tok("rp", ")")  CALL == Tok("call", "(")
(* unit shapes over the identifier x (y is a second identifier for arguments) *)
Unit(u, x, y) ==
  CASE u = 1  -> <<Id(x)>>
    [] u = 2  -> <<Tok("int", "1")>>
    [] u = 3  -> <<Id(x), CALL, Id(y), RP>>
    [] u = 4  -> <<Id(x), Tok("lb", "["), Tok("int", "0"), Tok("rb", "]")>>
    [] u = 5  -> <<LP, Id(x), RP>>
    [] u = 6  -> <<Tok("pre", "-"), Id(x)>>
    [] u = 7  -> <<Tok("pre", "!"), Id(x)>>
    [] u = 8  -> <<Id(x), Tok("chain", "."), Tok("prop", "m")>>
    [] u = 9  -> <<Id(x), Tok("chain", "@"), Tok("prop", "m")>>
    [] u = 10 -> <<Id(x), Tok("chain", "."), Tok("prop", "m"), CALL, Id(y), RP>>
    [] u = 11 -> <<Id(x), Tok("chain", "&."), Tok("prop", "m")>>
    [] u = 12 -> <<Tok("pre", "+"), Id(x)>>
    [] u = 13 -> <<Tok("pre", "/~"), Id(x)>>
    [] u = 14 -> <<Tok("pre", "-"), Id(x), Tok("chain", "."), Tok("prop", "m")>>
    [] u = 15 -> <<Id(x), Tok("chain", "$"), Tok("prop", "m"), CALL, Id(y), RP>>
    [] u = 16 -> <<Tok("pre", "-"), Id(x), CALL, Id(y), RP>>
    [] u = 17 -> <<Tok("pre", "!"), Id(x), Tok("lb", "["), Tok("int", "0"), Tok("rb", "]")>>
    [] u = 18 -> <<Id(x), Tok("chain", "~@"), Tok("prop", "m")>>
    [] u = 19 -> <<Tok("pre", "-"), Tok("int", "2"), Tok("lb", "["), Tok("int", "0"), Tok("rb", "]")>>
    [] u = 20 -> <<Tok("pre", "-"), Tok("int", "2"), CALL, Id(y), RP>>
    [] u = 21 -> <<Tok("pre", "-"), Tok("int", "2"), Tok("chain", "."), Tok("prop", "m")>>
    [] u = 22 -> <<Tok("pre", "!"), Tok("int", "2"), Tok("lb", "["), Tok("int", "0"), Tok("rb", "]")>>
    [] u = 23 -> <<Tok("pre", "-"), Tok("int", "2")>>
    \* properties named by operators, called without arguments: the operator that FOLLOWS must stay an infix operator of its own
    [] u = 24 -> <<Id(x), Tok("chain", "."), Tok("prop", "+")>>
    [] u = 25 -> <<Id(x), Tok("chain", "$"), Tok("prop", "-")>>
    [] u = 26 -> <<Id(x), Tok("chain", "."), Tok("prop", "*")>>
    [] u = 27 -> <<Id(x), Tok("chain", "@"), Tok("prop", "<")>>
    [] u = 28 -> <<Id(x), Tok("chain", "."), Tok("prop", "/")>>
    \* a whole conditional written in parentheses (the parentheses leave no node in the tree: the grouping must survive on its own)
    [] u = 29 -> <<LP, Id(x), Tok("if", "if"), Id(y), Tok("else", "else"), Tok("int", "1"), RP>>
    [] u = 30 -> <<LP, Id(x), Tok("if", "if"), Id(y), RP>>
    [] u = 31 -> <<LP, Id(x), Tok("asg", ":="), Id(y), RP>>
NUnits == 31
NConn == Len(InfixOps) + 5
Conn(c) == IF c <= Len(InfixOps) THEN Inf(InfixOps[c])
           ELSE CASE c = Len(InfixOps) + 1 -> Tok("asg", ":=")
                  [] c = Len(InfixOps) + 2 -> Tok("casg", "+=")
                  [] c = Len(InfixOps) + 3 -> Tok("rasg", "=>")
                  [] c = Len(InfixOps) + 4 -> Tok("if", "if")
                  [] c = Len(InfixOps) + 5 -> Tok("else", "else")
Jump(j) == CASE j = 1 -> "return" [] j = 2 -> "raise" [] j = 3 -> "yield" [] j = 4 -> "defer"

VARIABLES j, c1, c2, c3, u1, u2, u3
vars == <<j, c1, c2, c3, u1, u2, u3>>
(* one non-base unit at most, in any of the three positions *)
UnitVar == {<<1, 1, 1>>} \cup {<<u, 1, 1>> : u \in 2..NUnits} \cup {<<1, u, 1>> : u \in 2..NUnits} \cup {<<1, 1, u>> : u \in 2..NUnits}
Init ==
  \/ /\ j = 0 /\ c3 = 0 /\ c1 \in 1..NConn /\ c2 \in 0..NConn
     /\ \E t \in UnitVar : u1 = t[1] /\ u2 = t[2] /\ u3 = t[3]
  \/ /\ j \in 1..4 /\ c3 = 0 /\ c1 \in 0..NConn /\ c2 \in 0..NConn /\ (c1 = 0 => c2 = 0)
     /\ \E t \in {<<1, 1, 1>>, <<6, 1, 1>>, <<1, 8, 1>>, <<1, 1, 3>>} : u1 = t[1] /\ u2 = t[2] /\ u3 = t[3]
  \/ /\ Triples /\ j = 0 /\ c1 \in 1..NConn /\ c2 \in 1..NConn /\ c3 \in 1..NConn
     /\ u1 = 1 /\ u2 = 1 /\ u3 = 1
  \* the full conditional  X if Y else Z  next to every connector, before and after it (always, not only with Triples)
  \/ /\ j \in 0..4 /\ c1 \in 1..NConn /\ c2 = NConn - 1 /\ c3 = NConn
     /\ \E t \in UnitVar : u1 = t[1] /\ u2 = t[2] /\ u3 = t[3]
  \/ /\ j \in 0..4 /\ c1 = NConn - 1 /\ c2 = NConn /\ c3 \in 1..NConn
     /\ \E t \in UnitVar : u1 = t[1] /\ u2 = t[2] /\ u3 = t[3]
  \* a unit that is the whole statement
  \/ /\ j = 0 /\ c1 = 0 /\ c2 = 0 /\ c3 = 0 /\ u1 \in 1..NUnits /\ u2 = 1 /\ u3 = 1
  \* two assignments of any kind followed by any connector
  \/ /\ j = 0 /\ c1 \in (Len(InfixOps) + 1)..(Len(InfixOps) + 3) /\ c2 \in (Len(InfixOps) + 1)..(Len(InfixOps) + 3) /\ c3 \in 1..NConn
     /\ u1 = 1 /\ u2 = 1 /\ u3 = 1
Next == UNCHANGED vars

Toks ==
  (IF j = 0 THEN <<>> ELSE <<Tok("jump", Jump(j))>>)
  \o Unit(u1, "a", "p")
  \o (IF c1 = 0 THEN <<>> ELSE <<Conn(c1)>> \o Unit(u2, "b", "q"))
  \o (IF c2 = 0 THEN <<>> ELSE <<Conn(c2)>> \o Unit(u3, "c", "r"))
  \o (IF c3 = 0 THEN <<>> ELSE <<Conn(c3)>> \o Unit(1, "d", "s"))

NIf == (IF c1 = NConn - 1 THEN 1 ELSE 0) + (IF c2 = NConn - 1 THEN 1 ELSE 0) + (IF c3 = NConn - 1 THEN 1 ELSE 0)
(* grouping the table does not determine: chained if; a minus folded into an int literal *)
Undetermined == NIf >= 2 \/ (u1 = 2 /\ FALSE)

(* model-level properties of the machine on the whole family *)
Idempotent == Paren(Toks) # "SYNTAX" => TRUE
Emit == PrintT("CASE " \o ToJson([src |-> Source(Toks), paren |-> Paren(Toks), ast |-> AstText(Toks), undet |-> Undetermined,
                                  j |-> j, c |-> <<c1, c2, c3>>, u |-> <<u1, u2, u3>>]))
=============================================================================

------------------------------- MODULE MC_Arr -------------------------------
EXTENDS PanArr, Json, TLC
CONSTANTS MaxLen
VARIABLES a, b
Seqs == UNION {[1..l -> 1..3] : l \in 0..MaxLen}
Init == a \in Seqs /\ b \in Seqs
Next == UNCHANGED <<a, b>>
LawsHold == Laws(a, b)
Emit == PrintT("CASE " \o ToJson([a |-> a, b |-> b, cat |-> a \o b, rev |-> Rev(a), rep |-> [n \in 1..4 |-> Repeat(a, n - 1)],
          has |-> [v \in 1..4 |-> Has(a, v)], asg |-> [k \in 1..8 |-> AssignObserved(a, k - 5, 9)], eq |-> (a = b)]))
=============================================================================

INIT Init
NEXT Next
INVARIANTS ImportIsolated Ends Emit
CHECK_DEADLOCK FALSE

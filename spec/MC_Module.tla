------------------------------ MODULE MC_Module ------------------------------
(* Every assignment of bodies to the four files; the run PanModule prescribes for r/main. *)
EXTENDS PanModule, Json
HBodies  == << <<T("loading h"), D("x", 10)>>,
               <<D("x", 10), I("k", "./s/g"), F("k", "z")>>,
               <<D("x", 10), S("y")>>,
               <<V("./s/h"), D("x", 11)>>,
               <<I("k", "./nosuch")>>,
               <<W, D("x", 12)>> >>
SHBodies == << <<T("loading s/h"), D("y", 20)>>,
               <<D("y", 20), I("g", "./g"), F("g", "z"), S("x")>>,
               <<I("g", "../h"), F("g", "x"), D("y", 21)>>,
               <<D("y", 20), D("x", 5), W>> >>
GBodies  == << <<T("loading s/g"), D("z", 30)>>,
               <<D("z", 30), S("x")>>,
               <<D("z", 30), I("m", "./h"), F("m", "y")>> >>
MBodies  == << <<D("x", 1), I("m", "./h"), K("m"), F("m", "x"), S("x")>>,
               <<D("x", 1), V("./s/h"), S("y"), S("x"), W>>,
               <<I("m", "./h"), I("n", "./h"), F("m", "x"), F("n", "x")>>,
               <<D("y", 2), I("m", "./h"), F("m", "x"), S("y")>>,
               <<D("x", 1), I("n", "./s/g"), F("n", "z"), F("n", "x")>>,
               <<V("./h"), S("x"), I("m", "./s/h"), F("m", "y"), K("m")>>,
               <<I("m", "../h")>>,
               <<V("./s/g"), S("z"), D("z", 3), V("./s/g"), S("z")>>,
               <<D("x", 1), I("m", "./s/h"), S("x"), V("./s/h"), S("x"), S("y")>>,
               <<V("./s/h"), I("m", "./h"), W, F("m", "x")>> >>
VARIABLES hb, shb, gb, mb
vars == <<hb, shb, gb, mb>>
(* bodies that would import each other for ever are left out (the run would not end) *)
Cyclic == (hb = 4 /\ shb = 3) \/ (shb = 2 /\ gb = 3) \/ (hb = 2 /\ gb = 3 /\ shb = 3)
Init == hb \in 1..Len(HBodies) /\ shb \in 1..Len(SHBodies) /\ gb \in 1..Len(GBodies) /\ mb \in 1..Len(MBodies) /\ ~Cyclic
Next == UNCHANGED vars
Body(f) == CASE f = "r/main" -> MBodies[mb] [] f = "r/h" -> HBodies[hb] [] f = "r/s/h" -> SHBodies[shb] [] f = "r/s/g" -> GBodies[gb]
R == Run(Body)

HasInvite(b) == \E i \in 1..Len(b) : b[i].op = "inv"
Assigned(b) == {b[i].a : i \in {j \in 1..Len(b) : b[j].op \in {"def", "imp"}}}
(* import never defines anything in the importer's scope but its target variable *)
ImportIsolated == (R.err = "ok" /\ ~HasInvite(MBodies[mb])) => {nm \in NameSet : R.env[nm].t # "undef"} = Assigned(MBodies[mb])
(* the run ends within the nesting budget *)
Ends == R.err # "unsupported"
Emit == PrintT("CASE " \o ToJson([hb |-> hb, shb |-> shb, gb |-> gb, mb |-> mb, out |-> R.out, err |-> R.err,
                                  files |-> [f \in Files |-> Body(f)]]))
=============================================================================

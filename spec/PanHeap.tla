------------------------------- MODULE PanHeap -------------------------------
(***************************************************************************)
(* C06: values are immutable.  The heap of a history is the sequence of the  *)
(* fingerprints of all values created so far (what each prints, contains,   *)
(* equals and inherits, as rendered by the worker).  An operation can only   *)
(* append its result: AppendOnly.  Only variables (by reassignment) and      *)
(* iterators change over time; histories therefore never reassign and never  *)
(* keep iterators in the heap.                                               *)
(***************************************************************************)
EXTENDS Integers, Sequences, SequencesExt, TLC
VARIABLES vals
Op(fpResult) == vals' = Append(vals, fpResult)
AppendOnly == [][IsPrefix(vals, vals')]_vals
(* on a recorded history: snapshot k+1 extends snapshot k *)
Extends(s, t) == IsPrefix(s, t)
RECURSIVE FirstBroken(_, _)
FirstBroken(snaps, k) == IF k >= Len(snaps) THEN 0 ELSE IF Extends(snaps[k], snaps[k + 1]) THEN FirstBroken(snaps, k + 1) ELSE k
=============================================================================

------------------------------- MODULE MC_C16 -------------------------------
EXTENDS PanLexer, TLC
CONSTANTS MaxLen
Alphabet == {"i", "s", "n", "h", "q", "b", ";"}
RECURSIVE Seqs(_)
Seqs(n) == IF n = 0 THEN {<<>>} ELSE LET S == Seqs(n - 1) IN S \cup {Append(s, c) : s \in {t \in S : Len(t) = n - 1}, c \in Alphabet}
Inputs == Seqs(MaxLen)
Init == LexInit(Inputs)
Next == LexNext
Spec == Init /\ [][Next]_vars

(* layout volume: padding any newline that ends a code line (not inside a raw string) keeps the token stream *)
Pads == {<<"n">>, <<"s", "n">>, <<"h", "i", "n">>, <<"s", "h", "n", "n">>}
InRaw(inp, p) == LET bs == {k \in 1..(p - 1) : inp[k] = "b"} IN
                 \* newline p is inside a raw string iff an odd number of backquotes that open a closed raw string precede it;
                 \* conservative: exclude inputs with any backquote before p
                 bs # {}
LayoutEquivalence ==
  (toks = <<>> /\ rest = input) =>        \* evaluated once per input (initial state)
    \A p \in 1..Len(input) : (input[p] = "n" /\ ~InRaw(input, p)) =>
        \A pad \in Pads : SameModuloLayout(Ideal(PadAt(input, p, pad)), Ideal(input))
=============================================================================

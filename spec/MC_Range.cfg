INIT Init
NEXT Next
INVARIANTS LawsHold IntLaw Emit
CHECK_DEADLOCK FALSE

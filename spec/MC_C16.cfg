SPECIFICATION Spec
CONSTANTS
  Policy = "whole"
  T = 3
  R = 3
INVARIANTS ChunkIndependence LayoutEquivalence
CHECK_DEADLOCK FALSE

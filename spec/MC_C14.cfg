SPECIFICATION Spec
INVARIANTS StoppedStays Emit
PROPERTIES OnlyTargetMoves WalksArePure
CHECK_DEADLOCK FALSE

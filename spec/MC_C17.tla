------------------------------- MODULE MC_C17 -------------------------------
(* Families of spellings for C17 with the outcome PanLiterals prescribes.      *)
(* kind: "dec" | "hex" | "oct" | "bin" | "exp" | "str" | "raw" | "name"        *)
EXTENDS PanLiterals, TLC, Json
CONSTANTS MaxDigits, MaxPieces, MaxName
Extra == ndJsonDeserialize("c17_extra.ndjson")   \* boundary / random spellings supplied by the harness: [kind, cs, e]

RECURSIVE SeqsUpTo(_, _)
SeqsUpTo(A, n) == IF n = 0 THEN {<<>>} ELSE LET S == SeqsUpTo(A, n - 1) IN S \cup {Append(s, c) : s \in {t \in S : Len(t) = n - 1}, c \in A}

DecAlpha == {"0", "1", "7", "9", "_"}
HexAlpha == {"0", "1", "9", "a", "F", "_"}
OctAlpha == {"0", "1", "7", "_"}
BinAlpha == {"0", "1", "_"}
Pieces == {"a", "Z", " ", "#", "\\n", "\\t", "\\\\", "\\\"", "\\d", "\\q", "\\0", "\\xz", "\\a", "\\x41", "\\u00e9", "'", "{", "}", "#{1}"}
NameAlpha == {"a", "Z", "_", "1", "?", "!"}
KwNames == UNION {{r \o <<"s">>, r \o <<"_">>, r \o <<"1">>, <<"x">> \o r, <<"_">> \o r, r \o <<"?">>, r \o <<"!">>, r,
                   r \o <<"f", "y">>, <<"e", "l">> \o r} : r \in Reserved}

VARIABLES kind, cs, e
vars == <<kind, cs, e>>
Init ==
  \/ kind = "dec" /\ e = 0 /\ cs \in (SeqsUpTo(DecAlpha, MaxDigits) \ {<<>>})
  \/ kind = "hex" /\ e = 0 /\ cs \in (SeqsUpTo(HexAlpha, MaxDigits - 1) \ {<<>>})
  \/ kind = "oct" /\ e = 0 /\ cs \in (SeqsUpTo(OctAlpha, MaxDigits - 1) \ {<<>>})
  \/ kind = "bin" /\ e = 0 /\ cs \in (SeqsUpTo(BinAlpha, MaxDigits) \ {<<>>})
  \/ kind = "exp" /\ e \in -4..20 /\ cs \in (SeqsUpTo({"0", "1", "5", "9"}, 3) \ {<<>>})
  \/ kind = "raw" /\ e = 0 /\ cs \in SeqsUpTo(Pieces, MaxPieces)
  \/ kind = "str" /\ e = 0 /\ cs \in {ps \in SeqsUpTo(Pieces, MaxPieces) : ~OpensInterpolation(ps)}
  \/ kind = "name" /\ e = 0 /\ cs \in ((SeqsUpTo(NameAlpha, MaxName) \ {<<>>}) \cup KwNames)
  \/ \E r \in 1..Len(Extra) : kind = Extra[r].kind /\ cs = Extra[r].cs /\ e = Extra[r].e
Next == UNCHANGED vars

Base == CASE kind = "hex" -> 16 [] kind = "oct" -> 8 [] kind = "bin" -> 2 [] OTHER -> 10
IsInt == kind \in {"dec", "hex", "oct", "bin", "exp"}
Well == IF IsInt THEN WellFormedDigits(cs, Base) ELSE TRUE
Val == IF kind = "exp" THEN ExpIntValue(cs, e).v ELSE DigitsValue(cs, Base)
Outcome ==
  IF IsInt THEN (IF ~Well THEN "malformed"
                 ELSE IF kind = "exp" /\ ~ExpIntValue(cs, e).isint THEN "undetermined"
                 ELSE IntOutcome(Val))
  ELSE IF kind = "str" THEN StrOutcome(cs)
  ELSE IF kind = "raw" THEN "value"
  ELSE (IF IsName(cs) THEN "name" ELSE IF cs \in Reserved THEN "reserved" ELSE "notname")

(* model-level sanity of the definitions *)
HornerMatchesNative == (kind = "dec" /\ Well /\ Len(cs) <= 5) =>
   LET RECURSIVE N(_, _)
       N(k, acc) == IF k > Len(cs) THEN acc ELSE IF cs[k] = "_" THEN N(k + 1, acc) ELSE N(k + 1, acc * 10 + DigitVal(cs[k]))
   IN ToInt(Val) = N(1, 0)
ReservedAreNotNames == (kind = "name" /\ cs \in Reserved) => ~IsName(cs)

Emit == PrintT("CASE " \o ToJson([kind |-> kind, cs |-> cs, e |-> e, outcome |-> Outcome,
          v |-> IF IsInt /\ Well THEN Val ELSE Zero,
          cp |-> IF kind = "str" /\ Outcome = "value" THEN Concat(cs, FALSE) ELSE IF kind = "raw" THEN Concat(cs, TRUE) ELSE <<>>]))
=============================================================================

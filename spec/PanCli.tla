--------------------------------- MODULE PanCli ---------------------------------
(***************************************************************************)
(* The command line of `pangaea` (main.go, runscript/run.go): which mode an *)
(* argument vector selects and what that mode writes and returns.          *)
(*                                                                         *)
(* argv is a sequence of tokens:                                           *)
(*   "test"                      the sub-command word                      *)
(*   "F" "B" "M"                 a script that prints file / that raises /  *)
(*                               a path that does not exist                *)
(*   "D" "X"                     a directory of two passing test files /    *)
(*                               of a failing file followed by a passing one*)
(*   "-e" "-n" "-p" "--p" "-v" "-j" "-x" "--"   flags ("-x" is not defined) *)
(*   "S1" "S2"                   one-liner sources:  "s".p   and   \.uc     *)
(* The standard input is the two lines ab, cd.  jar: the jargon file        *)
(* ($PANGAEA_JARGON_FILE) exists and holds  "j".p                           *)
(*                                                                         *)
(* Flag parsing is Go's: flags are read up to the first token that is not a *)
(* flag or up to "--"; -e takes the NEXT token as its value whatever it is; *)
(* an undefined flag or a missing value ends the process with code 2.       *)
(* Mode selection, in this order:                                          *)
(*   1 argv[1] = "test" and, after parsing the rest with a flag set that    *)
(*     defines NO flags, a first positional argument exists: test mode      *)
(*   2 -v: the version, code 0                                              *)
(*   3 -e with a non-empty source: one-liner (wrapped by -p, else by -n)    *)
(*   4 a first positional argument: script file                             *)
(*   5 otherwise the REPL over the standard input                           *)
(* -j prepends the jargon file's text in modes 3 - 5.                       *)
(***************************************************************************)
EXTENDS Integers, Sequences, TLC
Flags == {"-e", "-n", "-p", "--p", "-v", "-j", "-x", "--"}
IsFlagTok(t) == t \in Flags
Stdin == <<"ab", "cd">>
Uc(l) == CASE l = "ab" -> "AB" [] l = "cd" -> "CD" [] OTHER -> l

(* Parse(args, defined): [err |-> BOOLEAN, set |-> set of flag names seen, e |-> value of -e or "", rest |-> positional arguments] *)
RECURSIVE Parse(_, _, _, _)
Parse(args, defined, set, e) ==
  IF args = <<>> THEN [err |-> FALSE, set |-> set, e |-> e, rest |-> <<>>]
  ELSE LET t == Head(args) IN
       IF ~IsFlagTok(t) THEN [err |-> FALSE, set |-> set, e |-> e, rest |-> args]
       ELSE IF t = "--" THEN [err |-> FALSE, set |-> set, e |-> e, rest |-> Tail(args)]
       ELSE LET name == IF t = "--p" THEN "-p" ELSE t IN
            IF name \notin defined THEN [err |-> TRUE, set |-> set, e |-> e, rest |-> <<>>]
            ELSE IF name = "-e" THEN
                   (IF Len(args) < 2 THEN [err |-> TRUE, set |-> set, e |-> e, rest |-> <<>>]
                    ELSE Parse(SubSeq(args, 3, Len(args)), defined, set \cup {"-e"}, args[2]))
            ELSE Parse(Tail(args), defined, set \cup {name}, e)

(* what evaluating a source writes, and whether it ends in an error; `line` is the value of \ ("" if undefined) *)
SrcOut(tok, line) == CASE tok = "S1" -> <<"s">> [] OTHER -> <<>>
SrcVal(tok, line) == CASE tok = "S2" -> (IF line = "" THEN "<err>" ELSE Uc(line)) [] tok = "S1" -> "<nil>" [] OTHER -> "<err>"
RECURSIVE PerLine(_, _, _)
PerLine(tok, lines, printing) ==
  IF lines = <<>> THEN <<>> ELSE SrcOut(tok, Head(lines)) \o PerLine(tok, Tail(lines), printing)
Values(tok, lines) == SelectSeq([i \in 1..Len(lines) |-> SrcVal(tok, lines[i])], LAMBDA v : v # "<nil>")
(* a one-liner source is any token given as the value of -e: only S1 / S2 are programs that run; every other token is source text that *)
(* names an undefined variable or is a syntax error - in both cases nothing is written and the code is 1                                *)
Runs(tok) == tok \in {"S1", "S2"}
(* "--" given as the value of -e is a syntax error: jargon text and source are ONE program, so nothing of it runs *)
SyntaxErr(tok) == tok = "--"
OneLiner(tok, n, p, pre) ==
  IF SyntaxErr(tok) THEN [out |-> <<>>, code |-> 1]
  ELSE IF ~Runs(tok) THEN [out |-> pre, code |-> 1]
  ELSE IF p THEN [out |-> pre \o PerLine(tok, Stdin, TRUE) \o Values(tok, Stdin), code |-> 0]          \* <>@{src}@p : all lines first, then the values
  ELSE IF n THEN [out |-> pre \o PerLine(tok, Stdin, FALSE), code |-> 0]
  ELSE IF SrcVal(tok, "") = "<err>" THEN [out |-> pre, code |-> 1]
  ELSE [out |-> pre \o SrcOut(tok, ""), code |-> 0]
File(tok, pre) == CASE tok = "F" -> [out |-> pre \o <<"file">>, code |-> 0]
                    [] tok = "B" -> [out |-> pre, code |-> 1]
                    [] OTHER -> [out |-> <<>>, code |-> 1]           \* a path that cannot be read (also a directory): nothing runs, not even the jargon text
Test(tok) == CASE tok = "F" -> [out |-> <<"run:  F", "file", "pass: F">>, code |-> 0]
               [] tok = "B" -> [out |-> <<"run:  B">>, code |-> 1]
               [] tok = "M" -> [out |-> <<"run:  M">>, code |-> 1]
               [] tok = "D" -> [out |-> <<"run:  D/a_test", "t1", "pass: D/a_test", "run:  D/b_test", "t2", "pass: D/b_test">>, code |-> 0]
               [] tok = "X" -> [out |-> <<"run:  X/a_test">>, code |-> 1]            \* the walk stops at the first failing file
               [] OTHER -> [out |-> <<>>, code |-> 0]                                     \* a path without the .pangaea suffix that is no directory: nothing to run

Cli(argv, jar) ==
  LET t == IF argv # <<>> /\ argv[1] = "test" THEN Parse(Tail(argv), {}, {}, "") ELSE [err |-> FALSE, set |-> {}, e |-> "", rest |-> <<>>]
  IN IF argv # <<>> /\ argv[1] = "test" /\ t.err THEN [mode |-> "usage", out |-> <<>>, code |-> 2]
     ELSE IF argv # <<>> /\ argv[1] = "test" /\ t.rest # <<>> THEN [mode |-> "test"] @@ Test(t.rest[1])
     ELSE LET f == Parse(argv, {"-e", "-n", "-p", "-v", "-j"}, {}, "")
              pre == IF "-j" \in f.set /\ jar THEN <<"j">> ELSE <<>>
          IN IF f.err THEN [mode |-> "usage", out |-> <<>>, code |-> 2]
             ELSE IF "-v" \in f.set THEN [mode |-> "version", out |-> <<"master (unstable)">>, code |-> 0]
             ELSE IF f.e # "" THEN [mode |-> "oneliner"] @@ OneLiner(f.e, "-n" \in f.set, "-p" \in f.set, pre)
             ELSE IF f.rest # <<>> THEN [mode |-> "file"] @@ File(f.rest[1], pre)
             ELSE [mode |-> "repl", out |-> pre, code |-> 0]

(* laws *)
Laws(argv, jar) ==
  LET r == Cli(argv, jar) IN
  /\ r.code \in {0, 1, 2}
  /\ (r.mode = "usage") = (r.code = 2)
  /\ (argv # <<>> /\ argv[1] = "-v" => r.mode \in {"version", "usage"})            \* -v first wins unless a later flag is malformed (TLC refuted "always")
  /\ (r.mode = "version" => r.out = <<"master (unstable)">>)
  /\ (~jar => Cli(argv, TRUE).code = r.code /\ Cli(argv, TRUE).mode = r.mode)      \* the jargon file never changes the mode or the code (its text succeeds)
=============================================================================

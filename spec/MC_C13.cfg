SPECIFICATION Spec
INVARIANTS RanIsPrefix Consistent Emit
PROPERTIES Stable
CHECK_DEADLOCK FALSE

------------------------------- MODULE MC_Map -------------------------------
EXTENDS PanMap, Json, TLC
CONSTANTS MaxP, MaxQ
VARIABLES p, q
K == 1..3
V == 1..2
Lists(n) == UNION {[1..l -> K \X V] : l \in 0..n}
Init == p \in Lists(MaxP) /\ q \in Lists(MaxQ)
Next == UNCHANGED <<p, q>>
LawsHold == Laws(p, q, K)
Emit == LET a == Build(p) b == Build(q) IN
        PrintT("CASE " \o ToJson([p |-> p, q |-> q, a |-> a, b |-> b, keys |-> Keys(a), values |-> Values(a), at |-> [k \in K |-> At(a, k)],
          ab |-> Merge(a, b), ba |-> Merge(b, a), eq |-> Eq(a, b), eqm |-> Eq(Merge(a, b), Merge(b, a)), truthy |-> Truthy(a)]))
=============================================================================

------------------------------ MODULE Trace_C20 ------------------------------
(***************************************************************************)
(* Trace validation for C20: the lock and table-access events recorded from *)
(* the real interpreter (auto-instrumented object package, events logged    *)
(* while the lock is held) are replayed through PanLockset's actions.  The  *)
(* trace is accepted iff every event is enabled in turn; the number of      *)
(* distinct states TLC reaches = 1 + number of events consumed.             *)
(* Events of the second channel (production build under the Go race         *)
(* detector): "Unsync" = two accesses to the same interpreter-wide memory,  *)
(* one a write, not ordered by any synchronisation; "ResultDiffers" = a     *)
(* concurrent evaluation gave another result than the same program alone.   *)
(* PanLockset has no step for either (every access is made under the lock), *)
(* so a trace containing one is rejected at that event.                     *)
(***************************************************************************)
EXTENDS Integers, Sequences, TLC, Json
Trace == ndJsonDeserialize("c20.ndjson")
NProc == Trace[1].nproc            \* first line is a header record
Proc == 1..NProc
VARIABLES rc, writer, wrote, l
INSTANCE PanLockset

Ev == Trace[l]
(* Ev.var: the variable a statement touches (the part of the label "symHashTable@writeSymHash" before the function name) *)
TraceInit == LInit /\ l = 2
Consume == l <= Len(Trace) /\ l' = l + 1
TraceNext ==
  /\ Consume
  /\ LET p == Ev.g IN
     CASE Ev.ev = "AutoRLock"   -> RLock(p)
       [] Ev.ev = "AutoRUnlock" -> RUnlock(p)
       [] Ev.ev = "AutoLock"    -> WLock(p)
       [] Ev.ev = "AutoUnlock"  -> WUnlock(p)
       [] Ev.ev = "AutoRead"    -> Read(p)
       [] Ev.ev = "AutoWrite"   -> WriteTab(p, Ev.var)
       [] Ev.ev \in {"Unsync", "ResultDiffers"} -> FALSE
       [] OTHER -> FALSE
TraceSpec == TraceInit /\ [][TraceNext]_<<rc, writer, wrote, l>>
ExclusionInv == Exclusion
Accepted == l = Len(Trace) + 1 => PrintT("V accepted")
=============================================================================

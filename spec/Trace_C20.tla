------------------------------ MODULE Trace_C20 ------------------------------
(***************************************************************************)
(* Trace validation for C20: the lock and table-access events recorded from *)
(* the real interpreter (auto-instrumented object package, events logged    *)
(* while the lock is held) are replayed through PanLockset's actions.  The  *)
(* trace is accepted iff every event is enabled in turn; the number of      *)
(* distinct states TLC reaches = 1 + number of events consumed.             *)
(***************************************************************************)
EXTENDS Integers, Sequences, TLC, Json
Trace == ndJsonDeserialize("c20.ndjson")
NProc == Trace[1].nproc            \* first line is a header record
Proc == 1..NProc
VARIABLES rc, writer, l
INSTANCE PanLockset

Ev == Trace[l]
TraceInit == LInit /\ l = 2
Consume == l <= Len(Trace) /\ l' = l + 1
TraceNext ==
  /\ Consume
  /\ LET p == Ev.g IN
     CASE Ev.ev = "AutoRLock"   -> RLock(p)
       [] Ev.ev = "AutoRUnlock" -> RUnlock(p)
       [] Ev.ev = "AutoLock"    -> WLock(p)
       [] Ev.ev = "AutoUnlock"  -> WUnlock(p)
       [] Ev.ev = "AutoRead"    -> Read(p)
       [] Ev.ev = "AutoWrite"   -> Write(p)
       [] OTHER -> FALSE
TraceSpec == TraceInit /\ [][TraceNext]_<<rc, writer, l>>
ExclusionInv == Exclusion
Accepted == l = Len(Trace) + 1 => PrintT("V accepted")
=============================================================================

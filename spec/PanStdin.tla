------------------------------- MODULE PanStdin -------------------------------
(***************************************************************************)
(* The diamond `<>` (props/diamond_props.go, native/Diamond.pangaea,         *)
(* object/io.go ReadLine): standard input is a QUEUE of lines that every     *)
(* use of `<>` consumes from - a state machine, one action per use:          *)
(*   ReadS     `<>.S`        takes the next line; "" when none is left       *)
(*   ReadProp  `<>.len`      takes the next line (or "") and asks it         *)
(*   ReadA     `<>.A`        takes ALL remaining lines as an arr             *)
(*   ReadMap   `<>@{..}`     takes all remaining lines, one call per line    *)
(*   ReadAll   `<>.All`      takes all remaining lines joined by newlines    *)
(* The text is split at "\n"; a final line without a newline is a line, a    *)
(* final newline does not start another one.  Lines are numbers here: 0 is   *)
(* the empty line, n > 0 stands for a text of n characters (distinct).       *)
(* `done` records, per use, what it answered - the history the replay checks.*)
(***************************************************************************)
EXTENDS Integers, Sequences
VARIABLES input, rest, done
vars == <<input, rest, done>>
Take1 == IF rest = <<>> THEN 0 ELSE Head(rest)
Drop1 == IF rest = <<>> THEN <<>> ELSE Tail(rest)
ReadS == rest' = Drop1 /\ done' = Append(done, [op |-> "S", got |-> <<Take1>>]) /\ UNCHANGED input
ReadProp == rest' = Drop1 /\ done' = Append(done, [op |-> "len", got |-> <<Take1>>]) /\ UNCHANGED input
ReadA == rest' = <<>> /\ done' = Append(done, [op |-> "A", got |-> rest]) /\ UNCHANGED input
ReadMap == rest' = <<>> /\ done' = Append(done, [op |-> "map", got |-> rest]) /\ UNCHANGED input
ReadAll == rest' = <<>> /\ done' = Append(done, [op |-> "All", got |-> rest]) /\ UNCHANGED input
Next == ReadS \/ ReadProp \/ ReadA \/ ReadMap \/ ReadAll
RECURSIVE Flat(_)
Flat(ds) == IF ds = <<>> THEN <<>> ELSE Head(ds).got \o Flat(Tail(ds))
RECURSIVE DropTrailingBlanks(_)
DropTrailingBlanks(q) == IF q # <<>> /\ q[Len(q)] = 0 THEN DropTrailingBlanks(SubSeq(q, 1, Len(q) - 1)) ELSE q
\* every line is handed out exactly once and in order: what was answered so far (reads past the end answer blank lines), followed by the rest, is the input
Conservation == \E k \in 0..Len(done) : Flat(done) \o rest = input \o [i \in 1..k |-> 0]
PrefixOnly == Len(rest) <= Len(input) /\ rest = SubSeq(input, Len(input) - Len(rest) + 1, Len(input))
=============================================================================

------------------------------- MODULE MC_C09 -------------------------------
EXTENDS PanCollections, TLC, Json
CONSTANTS MaxPairs
K(t, s) == [t |-> t, s |-> s]
MapKeys == <<K("int", "1"), K("int", "2"), K("str", "\"1\""), K("str", "\"a\""), K("float", "1.0"), K("nil", "nil"), K("bool", "true"),
             K("bool", "false"), K("arr", "[1]"), K("arr", "[]"), K("obj", "{a: 1}"), K("str", "\"b\""),
             K("float", "1.0000001"), K("float", "1.0000002"),
             K("arr", "B1"), K("range", "(1:2)"), K("range", "R1"),
             K("int", "5"), K("intdesc", "I5"), K("str", "\"len\"")>>      \* I5 is 5.bear: not a scalar key (found by ==, listed after the scalars), and not the key 5     \* distinct keys that print alike
ObjNames == <<"a", "b", "_p", "a!", "_p!">>
(* operands available for ** (values 100.. so that their origin is visible) *)
M1 == <<[k |-> K("int", "1"), v |-> 100], [k |-> K("str", "\"a\""), v |-> 101], [k |-> K("arr", "[1]"), v |-> 102], [k |-> K("str", "\"c\""), v |-> 103]>>
O1 == <<[k |-> NameKey("a"), v |-> 110], [k |-> NameKey("a!"), v |-> 112], [k |-> NameKey("c"), v |-> 111]>>
O2 == <<[k |-> NameKey("b"), v |-> 120], [k |-> NameKey("_p"), v |-> 121], [k |-> NameKey("_q"), v |-> 122]>>
M2 == <<[k |-> K("arr", "[1]"), v |-> 200], [k |-> K("int", "2"), v |-> 201], [k |-> K("obj", "{a: 1}"), v |-> 202]>>
(* an operand that a conversion built (Arr#M compares scalar keys only): it holds the array key [1] twice; unpacked with ** the first one stays *)
M3 == <<[k |-> K("arr", "[1]"), v |-> 300], [k |-> K("arr", "[1]"), v |-> 301], [k |-> K("int", "2"), v |-> 302]>>
Operand(x) == CASE x = "M1" -> M1 [] x = "M2" -> M2 [] x = "O1" -> O1 [] x = "O2" -> O2 [] x = "M3" -> M3
RECURSIVE Flatten(_)
Flatten(xs) == IF xs = <<>> THEN <<>> ELSE Operand(Head(xs)) \o Flatten(Tail(xs))

RECURSIVE IdxSeqs(_, _)
IdxSeqs(n, len) == IF len = 0 THEN {<<>>} ELSE {Append(s, i) : s \in IdxSeqs(n, len - 1), i \in 1..n}
VARIABLES kind, keys, spreads, nilat        \* nilat: the explicit pair whose value is nil (0: none); -2 stands for a STORED nil, -1 for "absent"
vars == <<kind, keys, spreads, nilat>>
Init ==
  \/ /\ kind = "obj" /\ keys \in UNION {IdxSeqs(Len(ObjNames), l) : l \in 0..MaxPairs}
     /\ spreads \in {<<>>, <<"O1">>, <<"O2">>, <<"O1", "O2">>, <<"O2", "O1">>}
     /\ nilat \in 0..Len(keys)
  \/ /\ kind = "map" /\ keys \in UNION {IdxSeqs(Len(MapKeys), l) : l \in 0..MaxPairs}
     /\ spreads \in {<<>>, <<"M1">>, <<"O1">>, <<"M1", "O1">>, <<"O2", "M1">>, <<"M1", "M2">>, <<"M2", "M1">>, <<"M2", "O2", "M1">>, <<"M3">>, <<"M3", "M1">>, <<"M2", "M3">>}
     /\ nilat \in 0..Len(keys)
Next == UNCHANGED vars

Explicit == [i \in 1..Len(keys) |-> [k |-> IF kind = "obj" THEN NameKey(ObjNames[keys[i]]) ELSE MapKeys[keys[i]], v |-> IF i = nilat THEN -2 ELSE i]]
(* explicit pairs first, then the operands in the order written *)
All == Explicit \o Flatten(spreads)
TheMap == MapOf(All)
MapInv == kind = "map" => NoDuplicateKeys(TheMap) /\ ScalarsFirst(TheMap) /\ FirstValueKept(All, TheMap)
ObjInv == kind = "obj" => NoDuplicateKeys(ObjAll(All)) /\ FirstValueKept(All, ObjAll(All))

Probe == IF kind = "map" THEN MapKeys \o <<K("str", "\"c\""), K("str", "\"zz\"")>>
         ELSE <<NameKey("a"), NameKey("a!"), NameKey("b"), NameKey("c"), NameKey("_p"), NameKey("_p!"), NameKey("_q"), NameKey("d")>>
Emit == PrintT("CASE " \o ToJson([kind |-> kind, pairs |-> Explicit, spreads |-> spreads,
           listed |-> IF kind = "map" THEN TheMap ELSE ObjPublic(All),
           all    |-> IF kind = "map" THEN TheMap ELSE ObjAll(All),
           at     |-> [i \in 1..Len(Probe) |-> [k |-> Probe[i], v |-> At(IF kind = "map" THEN TheMap ELSE ObjAll(All), Probe[i])]]]))
=============================================================================

------------------------------ MODULE MC_StrCase ------------------------------
EXTENDS PanStrCase, Json
CONSTANTS MaxLen
VARIABLES s
Init == s \in UNION {[1..l -> Alphabet] : l \in 0..MaxLen}
Next == UNCHANGED s
LawsHold == Laws(s)
Emit == PrintT("CASE " \o ToJson([s |-> s, camel |-> Camel(s), pascal |-> Pascal(s), snake |-> Snake(s), kebab |-> Kebab(s), capital |-> Capital(s), trim |-> Trim(s),
                                  rev |-> Rev(s), t3 |-> Truncate(s, 3, <<".", ".", ".">>), t2 |-> Truncate(s, 2, <<".", ".">>), t1 |-> Truncate(s, 1, <<".", ".", ".">>),
                                  lcp |-> LcAll(s) = s, ucp |-> UcAll(s) = s]))
=============================================================================

------------------------------- MODULE PanFunc -------------------------------
(***************************************************************************)
(* Function objects (props/func_props.go, native/Func.pangaea,              *)
(* evaluator/eval_call.go): a function literal {|a, b, k1: 10| ...} or a     *)
(* method literal m{|a, b| ...} (whose first parameter is the implicit       *)
(* `self`) has                                                               *)
(*   args    the names of its positional parameters (with "self" for methods) *)
(*   arity   their number          kwargs  its keyword parameters + defaults  *)
(*   call    binds the i-th argument to the i-th parameter, nil (0 here) for  *)
(*           a missing one, drops surplus ones; a given keyword replaces the *)
(*           default                                                         *)
(*   curry   one argument at a time: f.curry(x1)...(xn) = f(x1, ..., xn);     *)
(*           with no parameters the curried "function" is the call's value   *)
(*   ==      same kind, same parameters, same body (structural)              *)
(* A function is [kind |-> "f" | "m", npos |-> 0..3, nkw |-> 0..2]; its body  *)
(* lists its parameters, so it is determined by the signature.               *)
(***************************************************************************)
EXTENDS Integers, Sequences
Names == <<"a", "b", "c">>
Args(fn) == (IF fn.kind = "m" THEN <<"self">> ELSE <<>>) \o SubSeq(Names, 1, fn.npos)
Arity(fn) == Len(Args(fn))
KwNames(fn) == SubSeq(<<"k1", "k2">>, 1, fn.nkw)
KwDefaults(fn) == SubSeq(<<10, 20>>, 1, fn.nkw)
\* actuals: a sequence of values for ALL positional parameters in order (self included for methods); over: k1 is given as 5
Call(fn, actuals, over) ==
  [i \in 1..Arity(fn) |-> IF i <= Len(actuals) THEN actuals[i] ELSE 0]
  \o [i \in 1..fn.nkw |-> IF i = 1 /\ over THEN 5 ELSE KwDefaults(fn)[i]]
Curried(fn, actuals) == Call(fn, SubSeq(actuals, 1, Arity(fn)), FALSE)      \* needs Len(actuals) >= Arity(fn)
\* DEVIATION kept as is: curry writes its code with the parameter names, and a method's first parameter is called `self` like the function being curried, so the
\* curried method calls its RECEIVER instead of itself (`o(o, ...)`: NoPropErr `call` for a plain object).  curry works for function literals only.
CurryWorks(fn) == fn.kind = "f"
Eq(f, g) == f = g

Laws(fn, actuals) ==
  /\ Arity(fn) = fn.npos + (IF fn.kind = "m" THEN 1 ELSE 0)
  /\ Len(Call(fn, actuals, FALSE)) = Arity(fn) + fn.nkw
  /\ \A i \in 1..Arity(fn) : Call(fn, actuals, FALSE)[i] = Call(fn, actuals, TRUE)[i]         \* keywords do not disturb positionals
  /\ Call(fn, actuals \o <<99>>, FALSE) = Call(fn, actuals, FALSE) \/ Len(actuals) < Arity(fn)  \* a surplus argument is dropped
  /\ (Len(actuals) >= Arity(fn) => Curried(fn, actuals) = Call(fn, actuals, FALSE))
=============================================================================

------------------------------- MODULE PanMatch -------------------------------
(***************************************************************************)
(* Case matching: `v === k`, `v !== k`, `v.case(%{k1: r1, ...})` and       *)
(* `arr.grep(k)` (native/Obj.pangaea, Arr / Range / Str / Func `asFor?`).   *)
(*                                                                         *)
(*   v === k   iff   v == k,  or k is one of v's ancestors (a type),       *)
(*                   or k "stands for" v:                                  *)
(*                     an array k    contains an element == v              *)
(*                     a range k     has v among its elements              *)
(*                     a str k       is a pattern found in the str v       *)
(*                     a function k  answers true for v                    *)
(*                     anything else only by the first two rules           *)
(*   v.case(m) is the value of the first pair of m, in m's iteration order  *)
(*   (scalar keys in insertion order, then the other keys in insertion     *)
(*   order), whose key k satisfies v === k; nil when there is none.        *)
(*   arr.grep(k) keeps the elements e with e === k (a nil element is       *)
(*   dropped like every nil result of a list chain).                       *)
(* Values are records; the pool is fixed by the model (MC_Match).          *)
(***************************************************************************)
EXTENDS Integers, Sequences, FiniteSets, TLC
IntV(i) == [t |-> "int", i |-> i]
StrV(s) == [t |-> "str", s |-> s]
NilV == [t |-> "nil"]
ArrV(es) == [t |-> "arr", es |-> es]
RangeV(a, b) == [t |-> "range", a |-> a, b |-> b]
TypeV(n) == [t |-> "type", n |-> n]
FnV == [t |-> "fn"]                       \* the predicate {|x| x == 2 || x == "ab"}

(* the prototype chain of a value, by name *)
Anc(v) == CASE v.t = "int" -> {"Int", "Num", "Obj", "BaseObj"}
            [] v.t = "str" -> {"Str", "Obj", "BaseObj"}
            [] v.t = "nil" -> {"Nil", "Obj", "BaseObj"}
            [] v.t = "arr" -> {"Arr", "Obj", "BaseObj"}
            [] v.t = "range" -> {"Range", "Obj", "BaseObj"}
            [] v.t = "fn" -> {"Func", "Obj", "BaseObj"}
            [] OTHER -> {"Obj", "BaseObj"}
(* the pattern (a str of plain letters) occurs in the subject: the pool's strs are "a", "ab", "ba" *)
Found == {<<"a", "a">>, <<"ab", "a">>, <<"ba", "a">>, <<"ab", "ab">>, <<"ba", "ba">>}      \* <<subject, pattern>>
Pred(v) == v = IntV(2) \/ v = StrV("ab")
KindOf(v, k) == v = k \/ (k.t = "type" /\ k.n \in Anc(v))
StandsFor(k, v) ==
  CASE k.t = "arr"   -> \E i \in 1..Len(k.es) : k.es[i] = v
    [] k.t = "range" -> v.t = "int" /\ k.a <= v.i /\ v.i < k.b
    [] k.t = "str"   -> v.t = "str" /\ <<v.s, k.s>> \in Found
    [] k.t = "fn"    -> Pred(v)
    [] OTHER         -> KindOf(v, k)
Matches(v, k) == v = k \/ KindOf(v, k) \/ StandsFor(k, v)

Scalar(k) == k.t \in {"int", "str", "nil"}
(* positions of ks in the iteration order of the map literal %{ks[1]: 1, ks[2]: 2, ...} (keys distinct) *)
IterOrder(ks) == SelectSeq([i \in 1..Len(ks) |-> i], LAMBDA i : Scalar(ks[i])) \o SelectSeq([i \in 1..Len(ks) |-> i], LAMBDA i : ~Scalar(ks[i]))
Case(v, ks) == LET ord == IterOrder(ks)
                   hits == SelectSeq(ord, LAMBDA i : Matches(v, ks[i]))
               IN IF hits = <<>> THEN 0 ELSE hits[1]          \* 0: nil
Grep(es, k) == SelectSeq(es, LAMBDA e : e.t # "nil" /\ Matches(e, k))

(* laws of the definitions (checked by TLC over the pool) *)
Reflexive(v) == Matches(v, v)
CaseSound(v, ks) == /\ (Case(v, ks) = 0) = (\A i \in 1..Len(ks) : ~Matches(v, ks[i]))
                    /\ Case(v, ks) # 0 => Matches(v, ks[Case(v, ks)])
(* a scalar key that matches wins over every non-scalar key, whatever the order written *)
ScalarFirst(v, ks) == \A i, j \in 1..Len(ks) : Scalar(ks[i]) /\ ~Scalar(ks[j]) /\ Matches(v, ks[i]) => Case(v, ks) # j
(* a key that does not match never changes the outcome *)
Irrelevant(v, ks) == \A i \in 1..Len(ks) : ~Matches(v, ks[i]) =>
                        LET rest == SelectSeq([j \in 1..Len(ks) |-> j], LAMBDA j : j # i)
                            ks2 == [j \in 1..Len(rest) |-> ks[rest[j]]]
                            c2 == Case(v, ks2)
                        IN Case(v, ks) = IF c2 = 0 THEN 0 ELSE rest[c2]
=============================================================================

------------------------------- MODULE MC_C11 -------------------------------
(* Bounded-exhaustive family for C11: every (n, start, stop, step) in the   *)
(* window, with the positions the specification selects.  One initial      *)
(* state per family member; the invariant Emit prints the case for the     *)
(* replay into the real interpreter.                                       *)
EXTENDS PanIndex, TLC, Json
CONSTANTS MaxN, Pad

VARIABLES n, a, b, c, mode   \* mode: "slice" | "index"

Bounds(m) == ((-m - Pad)..(m + Pad)) \cup {NIL, PINF, NINF}
Steps(m)  == Bounds(m)

Init == /\ n \in 0..MaxN
        /\ \/ /\ mode = "slice" /\ a \in Bounds(n) /\ b \in Bounds(n) /\ c \in Steps(n)
           \/ /\ mode = "index" /\ a \in (Bounds(n) \ {NIL}) /\ b = NIL /\ c = NIL
Next == UNCHANGED <<n, a, b, c, mode>>

Pos == IF mode = "slice" THEN Slice(n, a, b, c) ELSE <<Index(n, a)>>

(* properties of the definition: nothing is invented, order follows the step *)
NothingInvented == mode = "slice" => InRange(n, Pos)
StepOrder       == mode = "slice" => Monotone(Pos, IF c = NIL THEN 1 ELSE c)
WholeAscending  == (mode = "slice" /\ a = NIL /\ b = NIL /\ c = NIL) => Pos = [k \in 1..n |-> k - 1]
WholeReversed   == (mode = "slice" /\ a = NIL /\ b = NIL /\ c = -1)  => Pos = [k \in 1..n |-> n - k]
InWindowIsSubSeq ==
  (mode = "slice" /\ c = NIL /\ a \in 0..n /\ b \in 0..n) =>
     Pos = [k \in 1..(IF b > a THEN b - a ELSE 0) |-> a + k - 1]
IndexSound == mode = "index" => (Pos[1] = -1 \/ (Pos[1] >= 0 /\ Pos[1] < n))

Emit == PrintT("CASE " \o ToJson([mode |-> mode, n |-> n, a |-> a, b |-> b, c |-> c, pos |-> Pos]))
=============================================================================

------------------------------- MODULE MC_Nil -------------------------------
EXTENDS PanNil, Sequences, Json, TLC
VARIABLES form, op, op2, x, y
\* forms: 1  x op nil;  2  nil op x;  3  (x op nil) op2 y;  4  (nil op x) op2 y;  5  y op2 (nil op x);  6  [x, nil, y].sum and x % nil
Rng == -3..3
Init == /\ form \in 1..6 /\ x \in Rng /\ y \in Rng
        /\ op \in (IF form \in {2, 4, 5} THEN LeftOps ELSE IF form = 6 THEN {"+"} ELSE Ops)
        /\ op2 \in (IF form \in {3, 4, 5} THEN LeftOps ELSE {"+"})
        /\ (form \in {1, 2} => y = 0)
Next == UNCHANGED <<form, op, op2, x, y>>
LawsHold == Laws(x, y)
Val == CASE form = 1 -> NilRight(op, x) [] form = 2 -> NilLeft(op, x)
         [] form = 3 -> Apply(op2, NilRight(op, x), I(y)) [] form = 4 -> Apply(op2, NilLeft(op, x), I(y))
         [] form = 5 -> Apply(op2, I(y), NilLeft(op, x)) [] form = 6 -> I(x + y)
Emit == PrintT("CASE " \o ToJson([form |-> form, op |-> op, op2 |-> op2, x |-> x, y |-> y, val |-> Val, modnil |-> ModNil(x)]))
=============================================================================

------------------------------ MODULE MC_ConvColl ------------------------------
EXTENDS PanConvColl, Json
CONSTANTS MaxLen
P(t, s, v) == [k |-> "pair", key |-> [t |-> t, s |-> s], v |-> v]
Pool == <<P("str", "a", 1), P("str", "b", 2), P("str", "a", 3), P("str", "_p", 4), P("int", "1", 5), P("arr", "[1]", 6), P("arr", "[1]", 7), P("nil", "nil", 8),
          [k |-> "notarr", txt |-> "1"], [k |-> "badlen", txt |-> "[\"a\"]"], [k |-> "badlen", txt |-> "[\"b\", 1, 2]"]>>
VARIABLES ix
Init == ix \in UNION {[1..l -> 1..Len(Pool)] : l \in 0..MaxLen}
Next == UNCHANGED ix
Es == [i \in 1..Len(ix) |-> Pool[ix[i]]]
LawsHold == Laws(Es)
Emit == PrintT("CASE " \o ToJson([ix |-> ix, o |-> ToObj(Es), m |-> ToMap(Es)]))
=============================================================================

----------------------------- MODULE PanIterable -----------------------------
(***************************************************************************)
(* The functions every iterable value answers (native/Iterable.pangaea) as   *)
(* functions on finite sequences.  A value is iterable through its elements  *)
(* in order: an array, an iterator over it, a range.  Results that the       *)
(* implementation computes lazily (iterators) are compared after `A`.        *)
(* P is the predicate {|e| e > 1}, F the function {|e| e * 2}, E the element  *)
(* looked for (1), Ys the second sequence <<7, 8>>.  Nil is the value nil.   *)
(***************************************************************************)
EXTENDS Integers, Sequences, FiniteSets, TLC
Nil == -999                      \* stands for the value nil (elements are small naturals)
P(e) == e > 1
F(e) == e * 2
E == 1
Ys == <<7, 8>>
Min2(a, b) == IF a < b THEN a ELSE b

RECURSIVE SumSeq(_)
SumSeq(s) == IF s = <<>> THEN 0 ELSE Head(s) + SumSeq(Tail(s))
Scan(s, init) == [k \in 1..Len(s) |-> init + SumSeq(SubSeq(s, 1, k))]
First(s) == IF s = <<>> THEN Nil ELSE s[1]
Last(s) == IF s = <<>> THEN Nil ELSE s[Len(s)]
Indices(s, e) == SelectSeq([k \in 1..Len(s) |-> k - 1], LAMBDA i : s[i + 1] = e)
FirstIdx(s, Q(_)) == IF \E k \in 1..Len(s) : Q(s[k]) THEN CHOOSE k \in 1..Len(s) : Q(s[k]) /\ \A j \in 1..(k - 1) : ~Q(s[j]) ELSE 0
NotP(e) == ~P(e)
Max(s) == IF s = <<>> THEN Nil ELSE CHOOSE m \in {s[k] : k \in 1..Len(s)} : \A k \in 1..Len(s) : s[k] <= m
Min(s) == IF s = <<>> THEN Nil ELSE CHOOSE m \in {s[k] : k \in 1..Len(s)} : \A k \in 1..Len(s) : s[k] >= m
RECURSIVE Chunks(_, _)
Chunks(s, n) == IF s = <<>> THEN <<>> ELSE <<SubSeq(s, 1, Min2(n, Len(s)))>> \o Chunks(SubSeq(s, Min2(n, Len(s)) + 1, Len(s)), n)
(* elements up to and including the first one that satisfies Q (all if none does) *)
UpToIncl(s, Q(_)) == IF FirstIdx(s, Q) = 0 THEN s ELSE SubSeq(s, 1, FirstIdx(s, Q))
(* elements before the first one that satisfies Q *)
Before(s, Q(_)) == IF FirstIdx(s, Q) = 0 THEN s ELSE SubSeq(s, 1, FirstIdx(s, Q) - 1)
RECURSIVE FlipFlop(_, _, _, _)
(* from an element = a up to and including the next element = b, again and again *)
FlipFlop(s, a, b, on) == IF s = <<>> THEN <<>>
                         ELSE IF on THEN <<Head(s)>> \o FlipFlop(Tail(s), a, b, Head(s) # b)
                         ELSE IF Head(s) = a THEN <<Head(s)>> \o FlipFlop(Tail(s), a, b, TRUE)
                         ELSE FlipFlop(Tail(s), a, b, FALSE)
(* distinct elements, the one seen last first; with the number of times each occurs *)
RECURSIVE Tally(_, _)
Tally(s, accu) == IF s = <<>> THEN accu
                  ELSE LET e == Head(s)
                           old == SelectSeq(accu, LAMBDA p : p[1] = e)
                           cnt == IF old = <<>> THEN 1 ELSE old[1][2] + 1
                       IN Tally(Tail(s), <<<<e, cnt>>>> \o SelectSeq(accu, LAMBDA p : p[1] # e))

Ops == {"A", "acc", "all?", "any?", "append", "prepend", "chain", "chunk", "doUntil", "doWhile", "empty?", "exclude", "select", "find", "first", "last",
        "index", "rindex", "indices", "map", "max", "min", "reduce", "sum", "tally", "until", "while", "withI", "zip", "flipflop", "len?"}
(* Result(op, s): [k |-> "seq" | "val" | "bool" | "pairs", ...] *)
Seq_(x) == [k |-> "seq", v |-> x]
Val(x) == [k |-> "val", v |-> x]
Result(op, s) ==
  CASE op = "A" -> Seq_(s)
    [] op = "acc" -> Seq_(Scan(s, 0))
    [] op = "all?" -> Val(\A k \in 1..Len(s) : P(s[k]))
    [] op = "any?" -> Val(\E k \in 1..Len(s) : P(s[k]))
    [] op = "append" -> Seq_(Append(s, 9))
    [] op = "prepend" -> Seq_(<<9>> \o s)
    [] op = "chain" -> Seq_(s \o Ys)
    [] op = "chunk" -> Seq_(Chunks(s, 2))
    [] op = "doUntil" -> Seq_(UpToIncl(s, P))
    [] op = "doWhile" -> Seq_(UpToIncl(s, NotP))
    [] op = "empty?" -> Val(s = <<>>)
    [] op = "exclude" -> Seq_(SelectSeq(s, NotP))
    [] op = "select" -> Seq_(SelectSeq(s, P))
    [] op = "find" -> Val(IF FirstIdx(s, P) = 0 THEN Nil ELSE s[FirstIdx(s, P)])
    [] op = "first" -> Val(First(s))
    [] op = "last" -> Val(Last(s))
    [] op = "index" -> Val(IF Indices(s, E) = <<>> THEN -1 ELSE Indices(s, E)[1])
    [] op = "rindex" -> Val(IF Indices(s, E) = <<>> THEN -1 ELSE Indices(s, E)[Len(Indices(s, E))])
    [] op = "indices" -> Seq_(Indices(s, E))
    [] op = "map" -> Seq_([k \in 1..Len(s) |-> F(s[k])])
    [] op = "max" -> Val(Max(s))
    [] op = "min" -> Val(Min(s))
    [] op = "reduce" -> Val(100 + SumSeq(s))
    [] op = "sum" -> Val(IF s = <<>> THEN Nil ELSE SumSeq(s))
    [] op = "tally" -> Seq_(Tally(s, <<>>))
    [] op = "until" -> Seq_(Before(s, P))
    [] op = "while" -> Seq_(Before(s, NotP))
    [] op = "withI" -> Seq_([k \in 1..Len(s) |-> <<k - 1, s[k]>>])
    [] op = "zip" -> Seq_([k \in 1..Min2(Len(s), Len(Ys)) |-> <<s[k], Ys[k]>>])
    [] op = "flipflop" -> Seq_(FlipFlop(s, 1, 2, FALSE))
    [] op = "len?" -> Val(Len(s))

(* relations between the functions (checked on every sequence of the model) *)
Laws(s) ==
  /\ Result("select", s).v \o Result("exclude", s).v \in {t \in {Result("select", s).v \o Result("exclude", s).v} : Len(t) = Len(s)}
  /\ (Result("all?", s).v => (Result("exclude", s).v = <<>>))
  /\ (Result("any?", s).v <=> (Result("find", s).v # Nil))
  /\ Result("until", s).v \o (IF Result("find", s).v = Nil THEN <<>> ELSE <<Result("find", s).v>>) = Result("doUntil", s).v
  /\ (s # <<>> => Result("acc", s).v[Len(s)] = Result("sum", s).v)
  /\ Len(Result("zip", s).v) <= Len(s)
=============================================================================

SPECIFICATION TraceSpec
INVARIANTS ExclusionInv Accepted
CHECK_DEADLOCK FALSE

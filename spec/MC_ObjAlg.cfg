INIT Init
NEXT Next
INVARIANTS Laws Emit
CHECK_DEADLOCK FALSE

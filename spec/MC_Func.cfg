INIT Init
NEXT Next
INVARIANTS LawsHold Emit
CHECK_DEADLOCK FALSE

"""Shared plumbing for the Pangaea verification checks (see DESIGN.md §2).

Nothing in here decides a property: it builds the worker from /repo's working
tree, moves cases between TLC and the real interpreter, and writes evidence.
"""
import json, os, re, shutil, subprocess, sys, tempfile, time, hashlib, random

VERIF = os.path.dirname(os.path.abspath(__file__))
REPO = os.environ.get("VERIF_REPO", "/repo")
BIN = os.path.join(VERIF, ".bin")
SPEC = os.path.join(VERIF, "spec")
NCPU = int(os.environ.get("VERIF_NCPU", "16"))

TLC_CP = "/opt/veriftools/tla/tla2tools.jar:/opt/veriftools/tla/CommunityModules-deps.jar"

GOENV = dict(os.environ, GOFLAGS="-mod=mod", GOPROXY="off", GOSUMDB="off", GOTOOLCHAIN="local")


class Broken(Exception):
    """The machinery (not the property) failed: exit 2."""


def log(*a):
    print(*a, file=sys.stderr, flush=True)


# ----------------------------------------------------------------- build

_built = {}


def build_worker(variant="committed"):
    """Build pvworker against /repo's working tree with -tags verif.

    variant "committed": parser/y.go as it is on disk.
    variant "regen": parser/y.go regenerated from parser/parser.go.y with the
    vendored goyacc, through `go build -overlay` (never writes into /repo).
    Returns the path of the binary, or None when the regenerated parser is
    identical to the committed one.
    """
    if variant in _built:
        return _built[variant]
    os.makedirs(BIN, exist_ok=True)
    h = os.path.join(VERIF, "harness")
    shutil.copyfile(os.path.join(REPO, "go.sum"), os.path.join(h, "go.sum"))
    # the replace directives point at the repository under check (/repo, or a scratch copy in seed-matrix runs); they are re-pointed on
    # every build, so a tree that was once used against a scratch copy checks /repo again afterwards
    gm0 = open(os.path.join(h, "go.mod")).read()
    gm = re.sub(r"=> \S*?(/third_party/simplexer)?\n", lambda m: "=> " + REPO + (m.group(1) or "") + "\n", gm0)
    if gm != gm0:
        open(os.path.join(h, "go.mod"), "w").write(gm)
    out = os.path.join(BIN, {"committed": "pvworker", "regen": "pvworker-regen", "hooked": "pvworker-hooked"}[variant])
    cmd = ["go", "build", "-tags", "verif", "-o", out]
    if variant == "hooked":
        cmd += ["-overlay", hookgen_overlay()]
    if variant == "regen":
        ov = regen_parser_overlay()
        if ov is None:
            _built[variant] = None
            return None
        cmd += ["-overlay", ov]
    cmd += ["./cmd/pvworker"]
    t0 = time.time()
    p = subprocess.run(cmd, cwd=h, env=GOENV, capture_output=True, text=True)
    if p.returncode != 0:
        raise Broken("go build failed:\n" + p.stdout + p.stderr)
    log(f"[build] {variant} worker built in {time.time()-t0:.1f}s")
    _built[variant] = out
    return out


def build_race_driver():
    """Build harness/cmd/pvrace against /repo's working tree WITHOUT the verif tag and WITH the Go race detector."""
    if "race" in _built:
        return _built["race"]
    build_worker("committed")          # go.sum / go.mod prepared
    h = os.path.join(VERIF, "harness")
    out = os.path.join(BIN, "pvrace")
    t0 = time.time()
    p = subprocess.run(["go", "build", "-race", "-o", out, "./cmd/pvrace"], cwd=h, env=dict(GOENV, CGO_ENABLED="1"), capture_output=True, text=True)
    if p.returncode != 0:
        raise Broken("go build -race failed:\n" + p.stdout + p.stderr)
    log(f"[build] race driver built in {time.time()-t0:.1f}s")
    _built["race"] = out
    return out


def build_plain_driver():
    """The same driver without the race detector (C19's server sessions: many short runs)."""
    if "plaindriver" in _built:
        return _built["plaindriver"]
    build_worker("committed")
    h = os.path.join(VERIF, "harness")
    out = os.path.join(BIN, "pvdrive")
    p = subprocess.run(["go", "build", "-o", out, "./cmd/pvrace"], cwd=h, env=GOENV, capture_output=True, text=True)
    if p.returncode != 0:
        raise Broken("go build of the plain driver failed:\n" + p.stdout + p.stderr)
    _built["plaindriver"] = out
    return out


def run_plain_driver(req, timeout_s=300):
    binary = build_plain_driver()
    try:
        p = subprocess.run([binary], input=json.dumps(req) + "\n", capture_output=True, text=True, timeout=timeout_s)
    except subprocess.TimeoutExpired:
        raise Broken("driver timed out")
    try:
        return json.loads(p.stdout.strip().splitlines()[-1])
    except Exception:
        return {"end": "died:" + (p.stderr or "")[-1500:]}


def run_race_driver(req, timeout_s=900):
    """Run pvrace on one request; returns (response dict, list of race reports).  A report is a list of accesses
    [(kind, [frames...])], frames = "func file:line" innermost first."""
    import tempfile
    binary = build_race_driver()
    d = tempfile.mkdtemp(prefix="pvrace")
    try:
        env = dict(os.environ, GORACE=f"halt_on_error=0 log_path={d}/race")
        try:
            p = subprocess.run([binary], input=json.dumps(req) + "\n", capture_output=True, text=True, env=env, timeout=timeout_s)
        except subprocess.TimeoutExpired:
            raise Broken("race driver timed out")
        try:
            resp = json.loads(p.stdout.strip().splitlines()[-1])
        except Exception:
            err = p.stderr or ""
            m = re.search(r"^(fatal error: [^\n]*|panic: [^\n]*)", err, re.M)       # the first line of a Go crash report is far above the goroutine dump's tail
            resp = {"end": "died:" + ((m.group(1) + " ... ") if m else "") + err[-2000:]}
        reports = []
        for f in sorted(os.listdir(d)):
            text = open(os.path.join(d, f), errors="replace").read()
            for block in text.split("WARNING: DATA RACE")[1:]:
                block = block.split("==================")[0]
                accesses = []
                for sec in re.split(r"\n(?=\S)", block.strip()):
                    head = sec.split("\n", 1)[0]
                    m = re.match(r"(Previous )?(atomic )?(read|write) at \S+ by ", head, re.I)
                    if not m:
                        continue
                    frames = re.findall(r"\n  (\S+)\(\)\n\s+(\S+):(\d+)", "\n" + sec.split("\n", 1)[1] if "\n" in sec else "")
                    accesses.append((m.group(3).lower(), [f"{fn} {os.path.relpath(fl, REPO) if fl.startswith(REPO) else fl}:{ln}" for fn, fl, ln in frames]))
                reports.append(accesses)
        return resp, reports
    finally:
        shutil.rmtree(d, ignore_errors=True)


HOOKGEN_INFO = {}


def hookgen_overlay():
    """Auto-instrument /repo/object (lock operations and table accesses) into an overlay; see harness/cmd/hookgen."""
    h = os.path.join(VERIF, "harness")
    tool = os.path.join(BIN, "hookgen")
    p = subprocess.run(["go", "build", "-o", tool, "./cmd/hookgen"], cwd=h, env=GOENV, capture_output=True, text=True)
    if p.returncode != 0:
        raise Broken("go build hookgen failed:\n" + p.stderr)
    d = os.path.join(BIN, "hookgen_out")
    shutil.rmtree(d, ignore_errors=True)
    p = subprocess.run([tool, os.path.join(REPO, "object"), d], capture_output=True, text=True)
    if p.returncode != 0:
        raise Broken("hookgen failed:\n" + p.stdout + p.stderr)
    HOOKGEN_INFO.update(json.loads(p.stdout))
    return os.path.join(d, "overlay.json")


def _strip_line_directives(text):
    return "\n".join(l for l in text.splitlines() if not l.startswith(("//line ", "// Code generated by goyacc")))


def regen_parser_overlay():
    """Regenerate y.go from parser.go.y; return overlay json path or None if identical."""
    d = os.path.join(BIN, "regen")
    os.makedirs(d, exist_ok=True)
    gen = os.path.join(d, "y.go")
    p = subprocess.run(
        ["go", "run", "golang.org/x/tools/cmd/goyacc", "-o", gen, "-v", os.path.join(d, "y.output"),
         "parser/parser.go.y"], cwd=REPO, env=GOENV, capture_output=True, text=True)
    if p.returncode != 0 or not os.path.exists(gen):
        raise Broken("goyacc failed:\n" + p.stdout + p.stderr)
    a = _strip_line_directives(open(gen, encoding="utf-8", errors="replace").read())
    b = _strip_line_directives(open(os.path.join(REPO, "parser/y.go"), encoding="utf-8", errors="replace").read())
    if a == b:
        return None
    ov = os.path.join(d, "overlay.json")
    json.dump({"Replace": {os.path.join(REPO, "parser/y.go"): gen}}, open(ov, "w"))
    log("[build] parser/y.go differs from goyacc(parser.go.y): syntax checks run on both variants")
    return ov


# ----------------------------------------------------------------- worker pool

def _run_shard(binary, reqs, timeout_s):
    """Run one worker process over reqs; returns (responses, index_of_unanswered or None, stderr_tail)."""
    inp = "".join(json.dumps(r) + "\n" for r in reqs)
    try:
        p = subprocess.run([binary], input=inp, capture_output=True, text=True, timeout=timeout_s)
        out, err = p.stdout, p.stderr
    except subprocess.TimeoutExpired as e:
        out = e.stdout.decode() if isinstance(e.stdout, bytes) else (e.stdout or "")
        err = "shard timeout"
    resps = []
    for line in out.splitlines():
        line = line.strip()
        if not line:
            continue
        try:
            resps.append(json.loads(line))
        except Exception:
            break
    nxt = len(resps) if len(resps) < len(reqs) else None
    m = re.search(r"^(fatal error: [^\n]*|panic: [^\n]*)", err, re.M)       # the first line of a Go crash report may be far above the tail
    head = (m.group(1) + "\n") if m and m.group(1) not in err[-3000:] else ""
    return resps, nxt, head + err[-3000:]


def run_cases(reqs, binary=None, nproc=None, shard_timeout_s=1800, label="", isolate=False, retry_timeouts=True):
    """Execute requests on the real interpreter; returns dict id -> response.

    A worker that dies or times out on a case is restarted; the case is re-run
    alone once to attribute the death: 'panic:'/'fatal error:' text => outcome
    'crash:<text>'; anything else => 'discarded:<why>'.
    """
    from concurrent.futures import ThreadPoolExecutor
    binary = binary or build_worker()
    nproc = nproc or NCPU
    for i, r in enumerate(reqs):
        r.setdefault("id", str(i))
    results = {}
    if not reqs:
        return results
    nshards = min(nproc, max(1, len(reqs) // 8)) or 1
    # interleave so that expensive neighbours spread over shards
    shards = [reqs[i::nshards] for i in range(nshards)]
    if isolate:            # one brand-new worker process per request (process-wide interpreter state must be pristine)
        shards = [[r] for r in reqs]
        nshards = min(nproc, len(shards))

    def work(shard):
        res = {}
        pending = list(shard)
        while pending:
            resps, nxt, err = _run_shard(binary, pending, shard_timeout_s)
            for r in resps:
                res[r["id"]] = r
            if nxt is None:
                break
            if resps and resps[-1].get("end") == "discarded:timeout" and resps[-1]["id"] == pending[nxt - 1]["id"]:
                # worker answered the timed-out case itself and exited
                pending = pending[nxt:]
                continue
            culprit = pending[nxt]
            r1, n1, err1 = _run_shard(binary, [culprit], 120)
            if r1:
                res[culprit["id"]] = r1[0]
            else:
                res[culprit["id"]] = {"id": culprit["id"], "events": [], "end": classify_death(err1 or err)}
            pending = pending[nxt + 1:]
        return res

    t0 = time.time()
    with ThreadPoolExecutor(max_workers=nshards) as ex:
        for res in ex.map(work, shards):
            results.update(res)
    log(f"[worker] {label} {len(reqs)} cases in {time.time()-t0:.1f}s on {nshards} workers")
    # a wall-clock deadline that expired says as much about the machine as about the program: such cases are asked again, a few at a time,
    # with a deadline six times as long (at least a minute), before anyone looks at them
    if retry_timeouts:
        late = [r for r in reqs if results.get(r["id"], {}).get("end") == "discarded:timeout"]
        if late and len(late) <= 40:
            log(f"[worker] {label} {len(late)} cases hit their deadline, asking again with a longer one")
            redo = [dict(r, deadline_ms=max(60000, 6 * int(r.get("deadline_ms") or 10000))) for r in late]
            second = run_cases(redo, binary=binary, nproc=8, shard_timeout_s=shard_timeout_s, label=label + " (late)", isolate=True, retry_timeouts=False)
            for r in late:
                if r["id"] in second:
                    results[r["id"]] = second[r["id"]]
    missing = [r["id"] for r in reqs if r["id"] not in results]
    if missing and len(missing) <= 50:       # a response lost in the pipe protocol: ask again, alone, before giving up
        log(f"[worker] {label} {len(missing)} cases without a response, re-running them alone: {missing[:3]}")
        lost = set(missing)
        for r in reqs:
            if r["id"] in lost:
                r1, _, err1 = _run_shard(binary, [r], 120)
                if r1 and r1[0].get("id") == r["id"]:
                    results[r["id"]] = r1[0]
                elif err1:
                    results[r["id"]] = {"id": r["id"], "events": [], "end": classify_death(err1)}
        missing = [r["id"] for r in reqs if r["id"] not in results]
    if missing:
        raise Broken(f"worker produced no response for {len(missing)} cases, e.g. {missing[:3]}")
    return results


def confirm(reqs, label="confirm", **kw):
    """Re-execute rejected cases (at most 400, spread evenly) in fresh workers; returns id -> response."""
    if not reqs:
        return {}
    if len(reqs) > 400:
        step = len(reqs) / 400.0
        picked = [reqs[int(i * step)] for i in range(400)]
    else:
        picked = reqs
    out = run_cases([dict(r) for r in picked], label=label, **kw)
    full = {}
    for r in reqs:
        full[r["id"]] = out.get(r["id"]) or {"id": r["id"], "end": None, "unconfirmed": True}
    return full


def history_confirm(reqs, rid, nproc=None, label="history confirm"):
    """A rejected case that does not reproduce alone may depend on what the same worker process evaluated before it
    (process-wide caches).  Re-run the prefix of the shard the case was in, in ONE process, and return the case's response
    (None if the case cannot be located)."""
    nproc = nproc or NCPU
    nshards = min(nproc, max(1, len(reqs) // 8)) or 1
    for k in range(nshards):
        shard = reqs[k::nshards]
        ids = [r["id"] for r in shard]
        if rid in ids:
            prefix = [dict(r) for r in shard[:ids.index(rid) + 1]]
            out = run_cases(prefix, nproc=1, label=label)
            return out.get(rid)
    return None


def history_prefix(reqs, rid, nproc=None):
    """the requests the worker process of `rid` had evaluated before it (the shard prefix), for a replay file"""
    nproc = nproc or NCPU
    nshards = min(nproc, max(1, len(reqs) // 8)) or 1
    for k in range(nshards):
        shard = reqs[k::nshards]
        ids = [r["id"] for r in shard]
        if rid in ids:
            return [dict(r) for r in shard[:ids.index(rid)]]
    return []


def classify_death(stderr):
    s = stderr or ""
    if "stack exceeds" in s or "stack overflow" in s:
        return "discarded:stack"
    if "heap limit exceeded" in s or "out of memory" in s:
        return "discarded:memory"
    if "shard timeout" in s:
        return "discarded:timeout"
    m = re.search(r"(fatal error: [^\n]*|panic: [^\n]*)", s)
    if m:
        return "crash:" + m.group(1)
    return "discarded:worker-died:" + s[-200:].replace("\n", " / ")


RESOURCE_PANICS = ("makeslice: len out of range", "Repeat output length overflow", "Repeat count causes overflow",
                   "out of memory", "cannot allocate", "makeslice: cap out of range", "negative Repeat count")


# sites whose result is genuinely astronomically large for the arguments that make them panic (string repetition by a
# count near 2^63): the property's bounded-memory proviso.  Anything else that panics is a host crash, whatever the message.
RESOURCE_SITES = ("props/str_props.go",)


def is_host_crash(end):
    """C01 verdict helper: a Go panic / fatal error that is not resource exhaustion at a known huge-result site."""
    if end.startswith("panic:") or end.startswith("crash:"):
        if "out of memory" in end or "cannot allocate" in end:
            return False
        site = end.split(" @ ", 1)[1].split(" < ")[0] if " @ " in end else ""
        return not (any(m in end for m in RESOURCE_PANICS) and any(site.startswith(f) for f in RESOURCE_SITES))
    return False


# ----------------------------------------------------------------- TLC

class TLCResult:
    def __init__(self):
        self.generated = 0
        self.distinct = 0
        self.lines = []      # decoded PrintT payload strings
        self.ok = False
        self.violation = None
        self.raw = ""
        self.wall = 0.0
        self.coverage_zero = []


def run_tlc(module, cfg=None, files=None, workers=None, timeout_s=600, extra=None, defines=None,
            java_opts="-Xss512m", expect_violation=False, simulate=None, coverage=False, prefix=("CASE ", "V ")):
    """Run TLC on spec/<module>.tla in a scratch copy of spec/.

    files: dict name -> text, written next to the modules (ndjson inputs).
    defines: dict CONSTANT name -> TLA+ expression text, appended to a copy of the cfg.
    Returns TLCResult; raises Broken on TLC errors / timeouts (never a verdict).
    """
    tmp = tempfile.mkdtemp(prefix="pvtlc_")
    try:
        for f in os.listdir(SPEC):
            if f.endswith((".tla", ".cfg")):
                shutil.copyfile(os.path.join(SPEC, f), os.path.join(tmp, f))
        for name, text in (files or {}).items():
            with open(os.path.join(tmp, name), "w") as fh:
                fh.write(text)
        cfg = cfg or (module + ".cfg")
        if defines:
            with open(os.path.join(tmp, cfg), "a") as fh:
                fh.write("\nCONSTANTS\n")
                for k, v in defines.items():
                    fh.write(f"  {k} = {v}\n")
        # NOTE: -Xss must be on the java command line: the launcher sizes the main thread (which
        # evaluates initial states and their invariants) from it; JAVA_TOOL_OPTIONS comes too late.
        os.makedirs(os.path.join(tmp, "jtmp"), exist_ok=True)       # TLC's own scratch (tlc-<n> directories) goes with this run's directory, not into /tmp
        cmd = ["timeout", str(int(timeout_s)), "java", java_opts, "-Djava.io.tmpdir=" + os.path.join(tmp, "jtmp"), "-XX:+UseParallelGC", "-cp", TLC_CP, "tlc2.TLC",
               "-workers", str(workers or NCPU), "-metadir", os.path.join(tmp, "meta"), "-config", cfg]
        if simulate:
            cmd += ["-simulate", simulate]
        if coverage:
            cmd += ["-coverage", "1"]
        cmd += (extra or []) + [module + ".tla"]
        env = dict(os.environ)
        t0 = time.time()
        p = subprocess.run(cmd, cwd=tmp, env=env, capture_output=True, text=True)
        res = TLCResult()
        res.wall = time.time() - t0
        res.raw = p.stdout + p.stderr
        for line in p.stdout.splitlines():
            if line.startswith('"') and line.endswith('"'):
                try:
                    s = json.loads(line)
                except Exception:
                    continue
                if s.startswith(prefix):
                    res.lines.append(s)
            m = re.match(r"(\d+) states generated, (\d+) distinct states found", line)
            if m:
                res.generated, res.distinct = int(m.group(1)), int(m.group(2))
            m = re.match(r"Error: Invariant (\S+) is violated", line)
            if m:
                res.violation = m.group(1)
            m = re.match(r"Error: Action property (\S+) is violated", line)
            if m:
                res.violation = m.group(1)
            if "Temporal properties were violated" in line:
                res.violation = res.violation or "temporal"
            if coverage:
                m = re.match(r"\s*(<.*>|\|*line .*): 0$", line)
                if m:
                    res.coverage_zero.append(line.strip())
        if p.returncode == 124:
            raise Broken(f"TLC timed out after {timeout_s}s on {module}")
        if res.violation:
            if not expect_violation:
                # a model-level violation is a spec/design problem, reported by the caller
                pass
            res.ok = False
            return res
        if p.returncode != 0 or "Model checking completed. No error has been found." not in p.stdout and not simulate:
            raise Broken(f"TLC failed on {module} (exit {p.returncode}):\n" + tail(res.raw, 60))
        res.ok = True
        return res
    finally:
        shutil.rmtree(tmp, ignore_errors=True)


def tail(s, n):
    return "\n".join([l for l in s.splitlines() if not l.startswith(('"CASE ', '"V '))][-n:])


def payloads(res, prefix):
    """JSON payloads of PrintT lines with the given prefix."""
    out = []
    for s in res.lines:
        if s.startswith(prefix):
            out.append(json.loads(s[len(prefix):]))
    return out


def ndjson(rows):
    return "".join(json.dumps(r, separators=(",", ":")) + "\n" for r in rows)


# ----------------------------------------------------------------- known findings, verdicts, evidence

def load_known():
    p = os.path.join(VERIF, "known_findings.json")
    if not os.path.exists(p):
        return []
    return json.load(open(p))


class Check:
    """Collects verdicts and evidence for one property run."""

    def __init__(self, pid, level="model_checking"):
        self.pid = pid
        self.level = level
        self.tier = os.environ.get("VERIF_TIER") or "quick"
        try:
            self.seed = int(os.environ.get("VERIF_SEED", "1"))
        except ValueError:
            self.seed = 1
        self.rng = random.Random(self.seed)
        self.t0 = time.time()
        self.violations = []       # (signature, what, case)
        self.known_hit = {}        # signature -> what
        self.cov = {"evaluations": 0, "distinct_nontrivial": 0, "rule": "", "samples": [], "states": 0,
                    "transitions": 0, "traces_validated_against_impl": 0}
        self.assumptions = []
        self.known = [k for k in load_known() if k.get("property") == pid and k.get("status") == "known"]
        self.divergences = []

    def add_tlc(self, res, name):
        self.cov["states"] += res.distinct
        self.cov["transitions"] += res.generated
        self.cov.setdefault("tlc_runs", []).append(
            {"config": name, "states_generated": res.generated, "distinct_states": res.distinct, "wall_s": round(res.wall, 1)})

    def sample(self, x, limit=5):
        if len(self.cov["samples"]) < limit:
            self.cov["samples"].append(x)

    def reject(self, signature, what, case):
        """A real-code observation the property forbids."""
        for k in self.known:
            if k["signature"] == signature:
                self.known_hit[signature] = k["what"]
                return
        self.violations.append((signature, what, case))

    def divergence(self, what, case):
        if len(self.divergences) < 50:
            self.divergences.append({"what": what, "case": case})

    def finish(self):
        wall = time.time() - self.t0
        for sig, what in sorted(self.known_hit.items()):
            print(f"KNOWN-FINDING: property={self.pid} {sig}: {what}")
        rc = 0
        if self.violations:
            rc = 1
            d = os.path.join(VERIF, "replays", self.pid)
            os.makedirs(d, exist_ok=True)
            seen = set()
            n = 0
            for sig, what, case in self.violations:
                if sig in seen:
                    continue
                seen.add(sig)
                n += 1
                if n > 10:
                    break
                h = hashlib.sha1((sig + json.dumps(case, sort_keys=True, default=str)).encode()).hexdigest()[:10]
                path = os.path.join(d, f"{h}.json")
                json.dump({"property": self.pid, "signature": sig, "what": what, "case": case}, open(path, "w"),
                          indent=1, default=str)
                print(f"VIOLATION property={self.pid} replay={path}")
                log(f"  {sig}: {what}")
        cov = dict(self.cov)
        cov["known_findings_hit"] = sorted(self.known_hit)
        if self.divergences:
            cov["spec_divergences_logged"] = self.divergences[:20]
        ev = {"property_id": self.pid, "tier": self.tier if self.tier in ("quick", "thorough") else "quick",
              "seed": self.seed, "level": self.level, "coverage": cov, "assumptions": self.assumptions,
              "wall_s": round(wall, 2), "violations": len({v[0] for v in self.violations})}
        os.makedirs(os.path.join(VERIF, "evidence"), exist_ok=True)
        json.dump(ev, open(os.path.join(VERIF, "evidence", f"{self.pid}.json"), "w"), indent=1, default=str)
        log(f"[{self.pid}] tier={self.tier} seed={self.seed} evaluations={cov['evaluations']} "
            f"nontrivial={cov['distinct_nontrivial']} states={cov['states']} violations={len(self.violations)} "
            f"known={len(self.known_hit)} wall={wall:.1f}s")
        return rc


def main_wrap(fn):
    try:
        rc = fn()
    except Broken as e:
        log("BROKEN: " + str(e))
        sys.exit(2)
    sys.exit(rc)

#!/bin/sh
# usage: tools/sweep.sh <tier> <seed>...   runs every registered check on the unchanged tree with each VERIF_SEED
# and reports any run that exits non-zero or prints a VIOLATION line (which would be a false alarm or a machinery fault).
TIER="$1"; shift
cd "$(dirname "$0")/.."
for S in "$@"; do
  for C in C01 C02 C03 C04 C05 C06 C07 C08 C09 C10 C11 C12 C13 C14 C15 C16 C17 C18 C19 C20; do
    START=$(date +%s)
    VERIF_SEED=$S python3 pv.py $C --tier $TIER > /tmp/sweep.$$.out 2> /tmp/sweep.$$.err
    RC=$?
    V=$(grep -c '^VIOLATION' /tmp/sweep.$$.out)
    echo "seed=$S $C tier=$TIER exit=$RC violations=$V $(( $(date +%s) - START ))s $(tail -1 /tmp/sweep.$$.err | cut -c1-160)"
    if [ $RC -ne 0 ]; then grep '^  C[0-9]\|BROKEN' /tmp/sweep.$$.err | head -5 | cut -c1-300; fi
  done
done
rm -f /tmp/sweep.$$.out /tmp/sweep.$$.err

#!/bin/sh
# usage: tools/round.sh <seed-out-dir> <id>...   confirm sub-agent seeds (scratch worktree /tmp/seed3/CONF), file them, try the owning check
OUT="$1"; shift
cd /verif
for ID in "$@"; do
  SEED_WT="${SEED_WT:-/tmp/seed3/CONF}" SEED_OUT="$OUT" python3 tools/confirm_seed.py "$ID" 2>&1 | tail -1 | cut -c1-400
  if [ -d seeded/$ID ]; then
    P=${ID%%-*}
    echo "--- $ID vs $P"; tools/trypatch.sh /verif/seeded/$ID/patch.diff $P 2>&1 | head -3 | cut -c1-250
  fi
done

#!/bin/sh
# usage: tools/trypatch.sh <patch.diff | revert:<commit>> <property> [tier]
# applies the change to /repo, runs the property's check, and always restores /repo.
set -u
P="$1"; PROP="$2"; TIER="${3:-quick}"
# TP_REPO: the repository checkout to patch (default /repo; a scratch clone when /repo is in use); PV_DIR: the /verif tree to run the check from
REPO="${TP_REPO:-/repo}"; VDIR="${PV_DIR:-/verif}"
cd "$REPO" || exit 2
if [ -n "$(git status --porcelain)" ]; then echo "$REPO not clean"; exit 2; fi
case "$P" in
  revert:*) C="${P#revert:}"; git diff "$C~1" "$C" | git apply -R || { echo "cannot revert $C"; exit 2; } ;;
  *) git apply "$P" || { echo "patch does not apply"; exit 2; } ;;
esac
cd "$VDIR"; T=/tmp/trypatch.$$
VERIF_REPO="$REPO" python3 pv.py "$PROP" --tier "$TIER" > $T.out 2> $T.err
RC=$?
git -C "$REPO" checkout -- . ; git -C "$REPO" clean -fdq
echo "exit=$RC"; grep -c '^VIOLATION' $T.out | sed 's/^/violation_lines=/'
grep '^VIOLATION\|^KNOWN' $T.out | head -3
grep -A1 '^VIOLATION' $T.err | head -2; grep '^  C[0-9]' $T.err | head -4 | cut -c1-300
tail -1 $T.err | cut -c1-300
# restore evidence of the unchanged tree afterwards (evidence files are rewritten by every run)
git -C "$VDIR" checkout -- evidence 2>/dev/null
rm -f $T.out $T.err
exit 0

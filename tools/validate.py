#!/usr/bin/env python3
# run with python3-vt (tooling venv has jsonschema)
import json, glob, jsonschema, sys
ok = True
def v(path, schema):
    global ok
    try:
        jsonschema.validate(json.load(open(path)), json.load(open(schema)))
    except Exception as e:
        ok = False
        print("INVALID", path, str(e)[:300])
v('/verif/MANIFEST.json', '/root/.vp/MANIFEST.schema.json')
for f in sorted(glob.glob('/verif/evidence/*.json')):
    v(f, '/root/.vp/EVIDENCE.schema.json')
print("all valid" if ok else "FAILED")

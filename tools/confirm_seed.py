#!/usr/bin/env python3
"""Confirms a seeded change produced by a sub-agent in a scratch worktree, then files it under /verif/seeded/<id>/.

usage: tools/confirm_seed.py C10-1 [...]
For each: (1) demo passes on the clean tree, (2) patch applies, tree builds, existing suite passes, (3) demo fails with the patch.
"""
import json, os, re, shutil, subprocess, sys
ENV = dict(os.environ, GOFLAGS="-mod=mod", GOPROXY="off", GOSUMDB="off", GOTOOLCHAIN="local")
WT = os.environ.get("SEED_WT", "/tmp/seed/CONF")
OUT = os.environ.get("SEED_OUT", "/tmp/seed/out")
PKGDIR = {"evaluator": "evaluator", "parser": "parser", "di": "di", "object": "object", "props": "props", "runscript": "runscript",
          "builtin": "props/modules/http/builtin", "simplexer": "third_party/simplexer", "main": "."}


def sh(cmd, cwd=WT, timeout=900):
    p = subprocess.run(cmd, shell=True, cwd=cwd, env=ENV, capture_output=True, text=True, errors="replace", timeout=timeout)
    return p.returncode, p.stdout + p.stderr


def clean():
    sh("git checkout -q -- . && git clean -fdq")


def run_demo(sid, d):
    if os.path.exists(os.path.join(d, "demo_test.go")):
        src = open(os.path.join(d, "demo_test.go")).read()
        pkg = re.search(r"^package (\w+)", src, re.M).group(1).replace("_test", "")
        meta = json.load(open(os.path.join(d, "meta.json")))
        path = meta.get("demo_test_path")
        if not path:
            m = re.search(r"([\w/]+/)?\w+_test\.go", meta.get("demo", ""))
            cand = [x for x in re.findall(r"((?:[\w.]+/)*\w+_test\.go)", meta.get("demo", "")) if not x.startswith(("tmp", "/"))]
            cand = [c for c in cand if "/" in c and not c.startswith("seed/")]
            path = cand[0] if cand else None
        pkgdir = os.path.dirname(path) if path and os.path.isdir(os.path.join(WT, os.path.dirname(path))) else PKGDIR.get(pkg, pkg)
        dst = os.path.join(WT, pkgdir, "zz_seed_demo_test.go")
        shutil.copyfile(os.path.join(d, "demo_test.go"), dst)
        tests = "|".join(re.findall(r"^func (Test\w+)", src, re.M))
        race = "-race " if sid.startswith("C20") else ""
        rc, out = sh(f"go test {race}-vet=off -count=1 -run '^({tests})$' ./{pkgdir}/")
        os.remove(dst)
        return rc == 0, out[-1500:]
    if os.path.exists(os.path.join(d, "run_demo.sh")):       # the agent's own runner: run_demo.sh <worktree>, exit 0 = demo passes
        rc, out = sh(f"sh {os.path.join(d, 'run_demo.sh')} {WT} 2>&1")
        return rc == 0, out[-1500:]
    if os.path.exists(os.path.join(d, "demo.pangaea")):
        exp = None
        for n in ("expected_output.txt", "expected.txt", "expected_output"):
            if os.path.exists(os.path.join(d, n)):
                exp = open(os.path.join(d, n)).read()
        stdin = os.path.join(d, "stdin.txt")       # a demo that reads its standard input ships the text
        rc, out = sh(f"go run . {os.path.join(d, 'demo.pangaea')} 2>&1" + (f" < {stdin}" if os.path.exists(stdin) else " < /dev/null"))
        if exp is None:
            return rc == 0, out[-1500:]
        return out.strip() == exp.strip(), out[-1500:]
    return None, "no demo found"


def main():
    if not os.path.isdir(WT):
        subprocess.run(["git", "-C", "/repo", "worktree", "add", "-q", "--detach", WT, "HEAD"], check=True)
    for sid in sys.argv[1:]:
        d = os.path.join(OUT, sid)
        clean()
        res = {"id": sid}
        ok_clean, o1 = run_demo(sid, d)
        res["demo_passes_on_clean_tree"] = ok_clean
        rc, o = sh(f"git apply {d}/patch.diff")
        res["patch_applies"] = rc == 0
        rc, o = sh("go build ./... ")
        res["builds"] = rc == 0
        rc, o = sh("go test -vet=off -count=1 ./... 2>&1")
        failed_pkgs = re.findall(r"^FAIL\t(\S+)", o, re.M)
        fails = [l for l in o.splitlines() if l.startswith("--- FAIL")]
        if failed_pkgs == ["github.com/Syuparn/pangaea/props/modules/http/builtin"]:
            # the http tests bind fixed port 50000 (other scratch runs may hold it): re-run alone in a private network namespace
            rc2, o2x = sh("unshare -rn sh -c 'ip link set lo up; go test -vet=off -count=1 ./props/modules/http/builtin 2>&1'")
            fails = [l for l in o2x.splitlines() if l.startswith("--- FAIL") and "TestServeBackground" not in l]
            failed_pkgs = [] if not fails else failed_pkgs
        res["suite_passes_with_patch"] = not failed_pkgs
        res["suite_fail_lines"] = fails[:6]
        ok_patched, o2 = run_demo(sid, d)
        res["demo_fails_with_patch"] = (ok_patched is False)
        res["demo_output_with_patch"] = o2[-600:]
        clean()
        res["confirmed"] = bool(ok_clean and res["patch_applies"] and res["builds"] and res["suite_passes_with_patch"] and ok_patched is False)
        print(json.dumps({k: v for k, v in res.items() if k != "demo_output_with_patch"}))
        if res["confirmed"]:
            dst = os.path.join("/verif/seeded", sid)
            os.makedirs(dst, exist_ok=True)
            for f in os.listdir(d):
                if f == "meta.json":
                    continue
                if os.path.isdir(os.path.join(d, f)):
                    shutil.copytree(os.path.join(d, f), os.path.join(dst, f), dirs_exist_ok=True)
                else:
                    shutil.copyfile(os.path.join(d, f), os.path.join(dst, f))
            meta = json.load(open(os.path.join(d, "meta.json")))
            meta["breaks_property"] = sid.split("-")[0]
            meta["confirmation"] = {"worktree": "scratch git worktree of /repo HEAD under /tmp (removed afterwards)",
                                    "ran": ["demo on clean tree: passes", "git apply patch.diff; go build ./...; go test -vet=off -count=1 ./... : passes (TestServeBackground/http flaky ignored)",
                                            "demo with patch: fails"],
                                    "base_commit": subprocess.run(["git", "-C", "/repo", "rev-parse", "--short", "HEAD"], capture_output=True, text=True).stdout.strip(),
                                    "demo_output_with_patch_tail": res["demo_output_with_patch"]}
            json.dump(meta, open(os.path.join(dst, "meta.json"), "w"), indent=1)


main()

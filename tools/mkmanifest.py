#!/usr/bin/env python3
"""Regenerates MANIFEST.json from the table below (single source of truth for the interface file)."""
import json, os, subprocess
V = os.path.dirname(os.path.dirname(os.path.abspath(__file__)))

CHECKS = {
    "C11": dict(
        technique="TLA+ spec PanIndex; TLC enumerates the (n,start,stop,step) window exhaustively and checks the definition's invariants; every behaviour is replayed into the real interpreter",
        text="Bounded-exhaustive model checking of the slice/index definition (PanIndex) plus replay of every enumerated case on arrays, ASCII and multi-byte strings in the interpreter built from /repo; small-scope, not a proof.",
        note="Trusts TLC, the worker's canonical rendering of values, and that 2^31/2^62/2^63-1 represent all bounds beyond the window.",
        design="§5 C11"),
}

CHECKS["C10"] = dict(
    technique="TLA+ specs BigInt/PanArith (exact limb arithmetic, binary long division); TLC validates them against native integers on a small window and then validates recorded operations of the real interpreter (trace validation), plus replay of the TLC-enumerated window",
    text="Every recorded Int operation (boundary grid, powers, seeded random int64 pairs, exhaustive small window) must satisfy the exact relation stated in PanArith, evaluated by TLC over BigInt; small-scope plus sampling of the 2^128 pair space, not a proof.",
    note="Trusts TLC, the BigInt module (cross-checked against TLC-native integers on [-W,W]^2 and by identities at 2^40), and decoding of float text to (significand, exponent).",
    design="§5 C10")

CHECKS["C20"] = dict(
    technique="TLA+ specs PanLockset/PanSymtab: TLC explores all interleavings of 3 processes (locked variant safe, unlocked variant must violate NoRace); lock/table-access traces recorded from the auto-instrumented real interpreter (start-up goroutines + N concurrent evaluations) are validated against PanLockset by TLC (trace validation); second observation channel: the production build (no hooks) under the Go race detector (barrier rounds, random programs, a real http-module server with concurrent clients), each report of an unsynchronised access pair in the interpreter's packages is an Unsync trace event that PanLockset never enables, and concurrent results must equal the sequential ones",
    text="Design-level exhaustive model checking of the RWMutex protocol, and lockset trace validation of real concurrent executions: every table access event must be enabled (lock held) in the specification, independent of whether a race happens in the observed schedule. Interpreter-wide state outside object/hashtable.go (other packages, fields of shared objects) is observed by the race detector on schedule-dependent runs: 96 barrier rounds and three real servers of the http module (serveBackground, blocking serve, and a script whose top level is a scope of its own).",
    note="Trusts TLC, the build-time instrumentation (harness/cmd/hookgen, statement granularity, package-level variables of object/hashtable.go only), the event order recorded under the tracer's mutex, and the Go race detector (happens-before; finds only pairs not ordered in the observed run).",
    design="§5 C20")

CHECKS["C18"] = dict(
    technique="TLA+ spec PanOrder states the equality/ordering laws over a recorded relation table; the table (pool of ~80 values x 7 operators, max/min, between?/clip) is recorded from the real interpreter and TLC checks every law on every pair and same-family triple (trace validation of a recorded table)",
    text="Exhaustive law checking (reflexivity, symmetry, negation, trichotomy, unions, antisymmetry, transitivity, max/min/between?/clip agreement) by TLC over the relation table recorded from the interpreter for a fixed pool covering every built-in data type and typed descendants; pool-bounded, not a proof over all values.",
    note="Trusts TLC and the canonical rendering used to identify which operand max/min/clip returned; the pool defines the scope (NaN/Inf are not constructible).",
    design="§5 C18")

CHECKS["C02"] = dict(
    technique="TLA+ spec PanGrammar: precedence-climbing machine driven by the documented table computes the implied parenthesisation of every TLC-enumerated statement (all connector pairs/triples x operand shapes); replayed into the real parser: parse(w) must equal parse(Paren(w))",
    text="Bounded-exhaustive: every ordered pair (thorough: triple) of the 23 infix operators, assignments, if/else, under jump keywords, with 31 operand shapes (prefix operators, chains, calls, indexing, grouping, operator-named properties, parenthesised conditionals) is grouped by the specification's table; every statement without a jump keyword is also written inside 20 enclosing places (list element, argument, index, pair, body, interpolation, parentheses) where its tree must be the same, and with predicate-style names and no spaces; and compared with the real parser's grouping, on the committed y.go and on y.go regenerated from parser.go.y when they differ.",
    note="Trusts TLC, that grouping parentheses parse correctly, and ast String() as a faithful rendering of the tree; chained if is not determined by the table and is only logged.",
    design="§5 C02")

CHECKS["C16"] = dict(
    technique="TLA+ spec PanLexer (reader/buffer/longest-match scanner): TLC explores all inputs up to MaxLen abstract characters under all chunk schedules (whole-input policy safe, pinned window policy must violate ChunkIndependence) and padding of line breaks; token streams and trees recorded from the real lexer/parser for base texts and variants are validated against PanLexer's relations by TLC (trace validation)",
    text="Design-level exhaustive model checking of the lexer protocol plus validation of real token streams (hook H2) and parse trees for the repository's Pangaea corpus and generated programs under other read schedules, padded line breaks (sizes around 1 KiB/2 KiB/5000) and long tokens (to 10000 bytes).",
    note="Trusts TLC, hook H2 (token export through the real Lexer.Lex loop) and ast String(); corpus- and size-bounded on the implementation side.",
    design="§5 C16")

CHECKS["C17"] = dict(
    technique="TLA+ spec PanLiterals (digit Horner over BigInt, exponent forms, escape table, name pattern): TLC enumerates spellings and prescribes value / rejection / working name, each replayed into the real interpreter; float literals recorded from the interpreter are validated as nearest doubles by TLC with integer arithmetic (trace validation)",
    text="Bounded-exhaustive spelling families (4 bases with separators, exponent forms, strings/raw strings by pieces, identifiers incl. reserved-word derivatives) plus boundary and seeded random spellings around 2^53/2^63/2^64, judged against exact BigInt values; every two-character name and listed look-alikes defined together as variables / properties / keywords and read back; floats judged by an exact correct-rounding inequality.",
    note="Trusts TLC, BigInt (validated by MC_BigInt in C10) and the worker's canonical rendering; escapes the reference does not mention and non-integer exponent forms are logged, not judged.",
    design="§5 C17")

_EV = "TLA+ spec PanEval (big-step semantics of the core language structured like the Go evaluator: frames, closures, argument binding, property/literal calls, errors, defers, truthiness, try); "
_EVN = "Trusts TLC, the worker's canonical rendering and the harness built-ins say/probe; programs outside the PanEval fragment are discarded (counted in evidence), never judged."
CHECKS["C03"] = dict(
    technique=_EV + "runs recorded from the real interpreter (probe events = variable frames at statement boundaries, output, outcome) are validated against it by TLC (trace validation): exhaustive binding/closure grids + seeded random nested programs",
    text="Every recorded run must be the single behaviour PanEval prescribes: frames visible inside calls, argument binding incl. padding/ignoring, keyword layouts, * and ** unpacking, argument variables, receiver passing, closures reading the defining scope.",
    note=_EVN, design="§5 C03")
CHECKS["C07"] = dict(
    technique=_EV + "a raise is injected at every child position of every host construct under every nesting/handler; recorded runs are validated against PanEval by TLC (trace validation); leaked error objects are searched in every rendered value",
    text="Exhaustive over hosts x positions x raise kinds x nestings x handlers: no marker after the raise, same kind/message at the handler (try / thoughtful chain) or program end, no raised error stored inside a value; runs of the real test driver over directories in which one file raises end with that error.",
    note=_EVN, design="§5 C07")
CHECKS["C08"] = dict(
    technique=_EV + "side-effecting children in every slot: recorded effect order validated against PanEval by TLC; determinism (the spec is a function: out-degree 1) bound by N-fold repetition in and across processes, also for programs over maps/objects/JSON outside the fragment",
    text="Order of evaluation is the specification's for every host construct; every program gives identical events/value in 16 (64) repetitions in each of 3 (8) processes, with and without re-parsing.",
    note=_EVN + " Reproducibility of a Go map-order bug is probabilistic: survival probability 2^-(N-1) per 2-way choice.", design="§5 C08")
CHECKS["C12"] = dict(
    technique=_EV + "eleven conditional constructs (incl. double negation) x condition-value pool validated against PanEval's single Truthy operator by TLC, plus TLC check of the law Agree (PanTruth) on the decision table recorded for the whole pool incl. typed descendants and user-defined B",
    text="All constructs decide like the value's B property for every pool value; exactly one branch / at most one evaluation of the right operand; deciding operand returned (validated through PanEval where modelled); chains of three and four operands incl. a raising operand.",
    note=_EVN, design="§5 C12")
CHECKS["C15"] = dict(
    technique=_EV + "every body of n statements over the defer/exit alphabet in five calling contexts; recorded runs validated against PanEval by TLC (trace validation)",
    text="Bounded-exhaustive over bodies (n<=3 quick, 4 thorough; 15 statement kinds incl. plain/guarded/raising defers, return, four raise kinds, nested callees with own defers) x {function, method, literal call, under try, nested function}: defers once, in order, after the body, on every exit; raising defer replaces the outcome and stops the rest; bodies of 63..1030 statements with defers around positions 64 / 128 / 256; guarded defers whose guard raises.",
    note=_EVN, design="§5 C15")

CHECKS["C04"] = dict(
    technique=_EV + "extended with one chain machine (scalar/list/reduce x none/lonely/thoughtful/strict, element sources, digest) shared by the three call forms; recorded runs of every context x form x element-behaviour pattern are validated against it by TLC (trace validation), and the three forms are compared with each other on the real side",
    text="Bounded-exhaustive: 10 contexts x 3 call forms x arrays whose elements give value / nil / raise / are nil at every position (length <= 2 quick, 3 thorough), ints, ranges, objects, chain arguments, extra arguments, callee raising StopIterErr.",
    note=_EVN + " String and iterator receivers are outside the element model.", design="§5 C04")

CHECKS["C05"] = dict(
    technique="TLA+ spec PanProto (prototype forest state machine: Literal / Bear / Bro / unrelated-literal steps; Find, Resolve, Ancestors, KindOf): TLC explores every forest of <= 3 constructor steps and checks the forest invariants; every behaviour is replayed as a program in the real interpreter and each lookup query compared",
    text="Bounded-exhaustive model checking of the forest machine and replay of its behaviours: for every object and name (own / inherited / shadowed / absent / via _missing): read, call with arguments, index by symbol, which, list-chain form, keys, ancestors, proto, kindOf?; roots that are not objects (5, \"s\", [1, 2], nil), their children and their siblings; afterwards every ordered pair of objects re-parented (oP.bear(oX): oX's own properties first, then oP's chain) and asked by index and which.",
    note="Trusts TLC, the canonical rendering, and the marker values the replay puts into properties; objects carry a unique tag so that structural == is identity.",
    design="§5 C05")

CHECKS["C09"] = dict(
    technique="TLA+ spec PanCollections (first-wins insertion of explicit pairs then ** operands, key identity, listing order, accessors): TLC enumerates literals over a key pool with every duplicate pattern, checks the definitions' invariants and prescribes every accessor's result; each literal is replayed in the real interpreter",
    text="Bounded-exhaustive over object and map literals (<= 2 pairs quick, 3 thorough; 12 map keys of all key kinds; ** of maps and objects in both orders): keys/values/items (with private?: true), iteration, len, index for every pool key, structure and printed pairs agree with the model; the ** operands are unchanged afterwards.",
    note="Trusts TLC and the canonical rendering; printed form is compared as a set of pairs.",
    design="§5 C09")

CHECKS["C13"] = dict(
    technique="TLA+ spec PanEither (k-step Either machine: steps run only while no failure, accessor table): TLC explores every chain of <= 3 steps over 10 step kinds, checks Stable and accessor consistency; every behaviour is replayed wrapped (all accessors) and plain in the real interpreter",
    text="Bounded-exhaustive: calls made, captured error kind/message (= plain raise), skipping after the first failure, and val/err/A/or/val?/err?/catch/ignore/abandon for every chain; steps: methods returning value / nil / raising three error kinds, method with positional+keyword arguments, non-callable property, literal steps incl. one returning a caught error object; built-in receivers x the names of their prototypes as steps, callable receivers (function and object), wrapped vs plain.",
    note="Trusts TLC and the interpreter's own rendering of receiver objects; three deviation classes of Wrappable._missing are recorded as known findings.",
    design="§5 C13")

CHECKS["C14"] = dict(
    technique="TLA+ spec PanIter (per-iterator state machine: new / _iter copy / alias / next / pure walks): TLC explores every history of <= 4 (5) operations over two variables for 13 body kinds (incl. a chain whose function asks the other iterator for its next value, WalkZip) and checks OnlyTargetMoves / WalksArePure / StoppedStays; every behaviour is replayed operation by operation in the real interpreter",
    text="Bounded-exhaustive histories: each next / A / list-chain / reduce-chain result must be the machine's, so iterators derived by new, x.new, _iter never share progress, aliases do, walks do not advance, StopIterErr persists.",
    note="Trusts TLC and the canonical rendering; StopIterErr outcomes are observed through try; built-in iterators are outside the statement.",
    design="§5 C14")

CHECKS["C06"] = dict(
    technique="TLA+ spec PanHeap (heap of value fingerprints, action property AppendOnly); histories of operations over live values are run in the real interpreter, every live value is fingerprinted after every operation, and TLC validates the recorded fingerprint logs against AppendOnly (trace validation)",
    text="Every property of every pool value's prototype chain (surface dumped from the current tree) with 0/1 argument, ~40 written-out operand-building operations, repeated operations on one operand, and seeded random histories of 3..6 operations: no existing value's fingerprint (structure, prototype chain, every entry of its pairs map, function source, error text) ever changes.",
    note="Trusts TLC and the worker's fingerprint function; histories are generated by the harness (direction B only: the specification validates, it does not enumerate); arrays with spare capacity and objects sharing pair maps are in the pool on purpose.",
    design="§5 C06")

CHECKS["C19"] = dict(
    technique="TLA+ spec PanSession (one interpreter, sequence of programs in fresh scopes: observation = FreshObs(p), shared state constant): TLC enumerates sessions; each is run in one real interpreter under three embeddings and the recorded observations / shared-state projections are validated against PanSession by TLC (trace validation), FreshObs measured in newly started interpreters",
    text="Every (history, probe) pair and two-program histories over a pool of 83 programs (quick: 900 seeded, thorough: 40000 seeded two-program histories; five 'wear' histories of >10000 handled errors / calls / new names before ordinary probes) under the playground pattern, Str#evalEnv, the real `pangaea test` driver and one real http server (14 requests, pairs and triples): output, value, error message and stack trace of each program equal those of a newly started interpreter; the projection of built-in objects and of the shared `_` error never changes.",
    note="Trusts TLC and the worker's projections; web/wasm/executor.go (GOOS=js) cannot be linked natively, its execute pattern is reproduced; HTTP handlers are not driven (loopback not assumed).",
    design="§5 C19")

CHECKS["C01"] = dict(
    level="exploration",
    technique="TLA+ spec PanCallSpace defines the explored space (receiver x reachable property index tuples, token-representative pairs) and the legal outcome classes; TLC enumerates the index space, the harness expands argument tuples and replays everything into the real interpreter; recorded outcome classes are checked against the specification's Legal set by TLC; TLA+ spec PanRepl (the interactive interpreter as a state machine: modes, blocks, prompts) is model-checked and its sessions are typed into runscript.StartREPL, transcripts compared with the prescribed ones",
    text="Robustness exploration, not a proof of absence: ~200k (quick) / millions (thorough) runs over the built-in call space of the current tree (surface dumped at run time), token pairs/triples, corpus mutations, index/slice space, derived structures (conversions over descendants of str then expansion), stdin shapes, REPL sessions, partly through runscript.RunSource; a recovered Go panic, fatal error or worker death attributable to a case is a violation; fuel/deadline/heap cut-offs are discarded (the property's proviso).",
    note="Trusts the worker's recover()/watchdogs and the classification of Go runtime resource-exhaustion panics at string repetition as discarded; web/wasm cannot be linked natively.",
    design="§5 C01")

NOT_YET = {}

def main():
    props = [json.loads(l) for l in open(os.path.join(V, "properties.jsonl"))]
    hooks = subprocess.run(["git", "-C", "/repo", "log", "--format=%H %s"], capture_output=True, text=True).stdout.splitlines()
    hook_commits = [l.split()[0] for l in hooks if " verif hook " in " " + l]
    checks = []
    na = []
    for p in props:
        pid = p["id"]
        if pid in CHECKS:
            c = CHECKS[pid]
            checks.append({
                "property_id": pid,
                "quick_cmd": f"python3 pv.py {pid} --tier quick",
                "thorough_cmd": f"python3 pv.py {pid} --tier thorough",
                "evidence_file": f"/verif/evidence/{pid}.json",
                "replay_cmd_template": f"python3 pv.py {pid} --replay {{path}}",
                "engine": "pv",
                "level_claimed": {"category": c.get("level", "model_checking"), "text": c["text"], "design_ref": c["design"]},
                "level_note": c["note"],
                "technique": c["technique"],
            })
        else:
            na.append({"property_id": pid, "reason": NOT_YET.get(pid, "check not built yet in this revision (planned with the TLA+ specification, see DESIGN.md §5); nothing is claimed for it")})
    m = {
        "version": 1,
        "setup_cmd": "python3 pv.py setup",
        "hooks": {
            "guard": "verif (Go build tag)",
            "enable": "go build -tags verif (harness module with replace github.com/Syuparn/pangaea => /repo)",
            "baseline_off_cmd": "cd /repo && GOFLAGS=-mod=mod GOPROXY=off GOSUMDB=off go test -vet=off -count=1 -timeout 25m ./...",
            "source_commits": hook_commits,
            "add_only": True,
        },
        "engines": [{"name": "pv", "path": "/verif/pv.py", "serves_properties": sorted(CHECKS),
                     "kind_free_text": "TLA+ specifications (spec/) checked with TLC; TLC-enumerated behaviours replayed into, and recorded traces validated against, the interpreter built from /repo (harness/cmd/pvworker, build tag verif)"}],
        "checks": checks,
        "not_applicable": na,
        "notes": "See DESIGN.md. known_findings.json lists repaired defects (status fixed) and recorded findings (status known).",
    }
    json.dump(m, open(os.path.join(V, "MANIFEST.json"), "w"), indent=1)
    print("checks:", len(checks), "not_applicable:", len(na))

main()

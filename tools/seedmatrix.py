#!/usr/bin/env python3
"""Runs every filed seed (seeded/<id>/patch.diff) and every reverted fix against the check of the property it breaks, in a scratch
copy of the repository (never /repo), and writes seeded/RESULTS.json.   usage: tools/seedmatrix.py [--tier quick] [ids...]"""
import json, os, re, shutil, subprocess, sys, time
V = os.path.dirname(os.path.dirname(os.path.abspath(__file__)))
SCRATCH = os.environ.get("SEED_REPO", "/tmp/seedmatrix_repo")
args = [a for a in sys.argv[1:] if not a.startswith("--")]
tier = sys.argv[sys.argv.index("--tier") + 1] if "--tier" in sys.argv else "quick"
if "--tier" in sys.argv:
    args = [a for a in args if a != tier]


def sh(cmd, **kw):
    return subprocess.run(cmd, shell=True, capture_output=True, text=True, **kw)


def main():
    if os.path.exists(SCRATCH):
        shutil.rmtree(SCRATCH)
    sh(f"git clone -q /repo {SCRATCH}")
    ids = args or sorted(d for d in os.listdir(os.path.join(V, "seeded")) if re.fullmatch(r"C\d\d-\w", d))
    results = {}
    env = dict(os.environ, VERIF_REPO=SCRATCH, VERIF_TIER=tier)
    for sid in ids:
        prop = sid.split("-")[0]
        patch = os.path.join(V, "seeded", sid, "patch.diff")
        meta = json.load(open(os.path.join(V, "seeded", sid, "meta.json")))
        if meta.get("not_detected_by_design"):
            results[sid] = {"property": prop, "not_detected_by_design": meta["not_detected_by_design"][:300]}
            continue
        if meta.get("obsolete_since"):
            results[sid] = {"property": prop, "obsolete_since": meta["obsolete_since"], "note": meta.get("obsolete_note", "")[:200]}
            continue
        sh("git checkout -q -- . && git clean -fdq", cwd=SCRATCH)
        a = sh(f"git apply {patch}", cwd=SCRATCH)
        if a.returncode != 0:
            results[sid] = {"applies": False, "stderr": a.stderr[-300:]}
            continue
        t0 = time.time()
        p = subprocess.run(["python3", "pv.py", prop, "--tier", tier], cwd=V, env=env, capture_output=True, text=True)
        sigs = re.findall(r"^  (C\d\d:[^ ]+?): ", p.stderr, re.M)
        results[sid] = {"property": prop, "check_exit": p.returncode, "violation_lines": p.stdout.count("VIOLATION property="), "detected": p.returncode == 1,
                        "signatures": sorted(set(sigs))[:6], "wall_s": round(time.time() - t0, 1), "tier": tier}
        print(sid, results[sid]["detected"], results[sid]["check_exit"], results[sid]["signatures"][:2], flush=True)
    sh("git checkout -q -- . && git clean -fdq", cwd=SCRATCH)
    # the unchanged scratch copy must be quiet
    out = os.environ.get("SEED_RESULTS") or os.path.join(V, "seeded", "RESULTS.json")       # SEED_RESULTS: a file of this run's own ids only (for runs in halves)
    old = json.load(open(out)) if os.path.exists(out) and not os.environ.get("SEED_RESULTS") else {}
    old.update(results)
    json.dump(old, open(out, "w"), indent=1, sort_keys=True)
    shutil.rmtree(SCRATCH, ignore_errors=True)
    subprocess.run(["git", "checkout", "--", "evidence", "harness/go.mod"], cwd=V)


main()

#!/usr/bin/env python3
"""pv: one sub-command per property.  Usage: pv.py C11 [--tier quick|thorough] [--replay file]"""
import importlib, os, sys
sys.path.insert(0, os.path.dirname(os.path.abspath(__file__)))
import pvlib


def main():
    args = sys.argv[1:]
    if not args:
        print(__doc__)
        sys.exit(2)
    pid = args[0]
    if "--tier" in args:
        os.environ["VERIF_TIER"] = args[args.index("--tier") + 1]
    os.environ.setdefault("VERIF_TIER", "quick")
    if pid == "setup":
        pvlib.build_worker()
        sys.exit(0)
    if pid == "selftest":
        from checks import selftest
        pvlib.main_wrap(selftest.run)
    mod = importlib.import_module("checks." + pid.lower())
    if "--replay" in args:
        path = args[args.index("--replay") + 1]
        pvlib.main_wrap(lambda: mod.replay(path))
    pvlib.main_wrap(mod.run)


if __name__ == "__main__":
    main()

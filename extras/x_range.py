"""Extra model: ranges as sequences (spec/PanRange.tla).  TLC enumerates every triplet (start, stop, step) over a window of ints (step incl. 0 and nil),
checks the laws of the progression and prescribes what iteration, the Iterable functions, the predicates, printing, equality and slicing with the same
triplet give; each triplet is one program in the real interpreter, for int bounds and for one-character str bounds."""
import json
import pvlib
from pvlib import run_tlc, run_cases, payloads

NIL = 1000
LO, HI, MAXSTEP = -2, 5, 3


def run():
    res = run_tlc("MC_Range", cfg="MC_Range.cfg", defines={"NegLo": str(-LO), "Hi": str(HI), "MaxStep": str(MAXSTEP)}, timeout_s=900)
    if res.violation:
        raise pvlib.Broken("PanRange law violated in the model: " + res.violation)
    cases = payloads(res, "CASE ")
    if len(cases) != res.distinct:
        raise pvlib.Broken(f"TLC printed {len(cases)} cases for {res.distinct} states")
    lit = lambda v: "nil" if v == NIL else (str(v) if v >= 0 else f"(0 - {-v})")
    arr = lambda q: "[" + ", ".join(str(x) for x in q) + "]"
    b = lambda x: "true" if x else "false"
    ch = lambda v: '"' + chr(ord("c") + v) + '"'                # the window -2..5 as the characters a..h
    reqs, want = [], []
    for c in cases:
        a, bb, s, q = c["a"], c["b"], c["s"], c["q"]
        r = f"({lit(a)}:{lit(bb)}:{lit(s)})"
        probes = list(range(LO, HI + 1))
        src = (f"r := {r}\n"
               f"say(nil.try.{{|u| [r.A, r@{{|i| i * 2}}, r$(0)+, r.first, r.last, r.empty?, r.max, r.min]}}.A)\n"
               f"say([r.inc?, r.dec?, r.counter?, r.start, r.stop, r.step, r.S, r == {r}, r == ({lit(a)}:{lit(bb)}), r.B])\n"
               f"say(nil.try.{{|u| [{', '.join(f'r.index({lit(v)})' for v in probes)}]}}.A)\n"
               f"say(nil.try.{{|u| [{', '.join(f'r.asFor?({lit(v)})' for v in probes)}]}}.A)\n"
               f"say(nil.try.{{|u| [0, 1, 2, 3, 4][r]}}.A)\n"
               f"say({lit(a)}.A)")
        zero = "[nil, <err ValueErr: cannot use 0 for range step>]"
        step_txt = "nil" if s == NIL else str(s)
        ev = []
        if c["zero"]:
            ev.append("out:" + zero)
        else:
            ev.append("out:[[" + ", ".join([arr(q), arr([2 * x for x in q]), str(c["sum"]), str(q[0]) if q else "nil", str(q[-1]) if q else "nil", b(not q),
                                           str(max(q)) if q else "nil", str(min(q)) if q else "nil"]) + "], nil]")
        ev.append(f"out:[{b(c['inc'])}, {b(c['dec'])}, true, {a}, {bb}, {step_txt}, \"({a}:{bb}:{step_txt})\", true, {b(s == NIL)}, true]")
        ev.append("out:" + (zero if c["zero"] else "[" + arr(c["idx"]) + ", nil]"))
        ev.append("out:" + (zero if c["zero"] else "[[" + ", ".join(b(x) for x in c["mem"]) + "], nil]"))
        if c["zero"]:
            ev.append("out:[nil, <err ValueErr: cannot use 0 for range step>]")
        elif c["inside"]:
            ev.append("out:[" + arr(q) + ", nil]")
        else:
            ev.append(None)          # clamping / counting from the end: C11's model, not this one
        ev.append("out:" + arr(c["ints"]))
        reqs.append({"id": str(len(reqs)), "src": src, "fuel": 400000, "deadline_ms": 8000})
        want.append(ev)
        # the same triplet over one-character strs
        if s != 0:
            rs = f"({ch(a)}:{ch(bb)}:{lit(s)})"
            src2 = f"r := {rs}\nsay(nil.try.{{|u| [r.A, r.first, r.last, r.empty?, r.counter?, r.inc?, r.dec?]}}.A)"
            qs = "[" + ", ".join(ch(x) for x in q) + "]"
            reqs.append({"id": str(len(reqs)), "src": src2, "fuel": 400000, "deadline_ms": 8000})
            want.append(["out:[[" + ", ".join([qs, ch(q[0]) if q else "nil", ch(q[-1]) if q else "nil", b(not q), "false", b(c["inc"]), b(c["dec"])]) + "], nil]"])
    out = run_cases(reqs, label="X range")
    bad = []
    for rq, ev in zip(reqs, want):
        o = out[rq["id"]]
        got = o["events"]
        if len(got) != len(ev) or any(w is not None and g != w for g, w in zip(got, ev)):
            k = next((i for i, (g, w) in enumerate(zip(got, ev)) if w is not None and g != w), -1)
            bad.append({"src": rq["src"].splitlines()[0], "line": k + 1, "observed": got[k] if 0 <= k < len(got) else [got, o["end"]], "expected": ev[k] if k >= 0 else ev})
    return {"model": "PanRange", "cases": len(reqs), "states": res.distinct, "mismatches": len(bad), "examples": bad[:8],
            "rule": f"every triplet (start, stop, step) with bounds in {LO}..{HI} and step in -{MAXSTEP}..{MAXSTEP} or nil: iteration (A, list chain, reduce, first, last, empty?, max, min), "
                    "inc? / dec? / counter?, start / stop / step, printing, equality with the same literal and with the two-part literal, index and asFor? of every value of the window, "
                    "slicing [0..4] with the triplet when it lies inside the array, the int iteration n.A; the same triplets over one-character strs; laws: arithmetic progression, stop never "
                    "reached and nothing left out before it, emptiness, membership by bounds and remainder, the reverse walk",
            "deviations_kept": ["index matches with ===, under which the int 0 (== Int, its prototype's zero value) matches every int: (5:9).index(0) is 0"]}

"""Extra model: functions of arrays (spec/PanArr.tla).  TLC enumerates every pair of arrays over {1, 2, 3} of length <= MaxLen, checks the laws and prescribes
concatenation, repetition, len, has?, rev, assign at every position -4..3, unwrap, empty?, B, join, ==, and that the receivers are unchanged; one program per pair."""
import pvlib
from pvlib import run_tlc, run_cases, payloads


def run(maxlen=3):
    res = run_tlc("MC_Arr", cfg="MC_Arr.cfg", defines={"MaxLen": str(maxlen)}, timeout_s=900)
    if res.violation:
        raise pvlib.Broken("PanArr law violated in the model: " + res.violation)
    cases = payloads(res, "CASE ")
    if len(cases) != res.distinct:
        raise pvlib.Broken(f"TLC printed {len(cases)} cases for {res.distinct} states")
    arr = lambda q: "[" + ", ".join(str(x) for x in q) + "]"
    b = lambda x: "true" if x else "false"
    lit = lambda v: str(v) if v >= 0 else f"(0 - {-v})"
    reqs, want = [], []
    for c in cases:
        a, bb = c["a"], c["b"]
        src = (f"a := {arr(a)}; b := {arr(bb)}\n"
               f"say([a + b, a.rev, a.len, a.empty?, a.B, a == b, a != b, a.unwrap, a.join(\"-\"), a.A, a.A == a])\n"
               f"say([{', '.join(f'a * {n}' for n in range(4))}])\n"
               f"say([{', '.join(f'a.has?({v})' for v in range(1, 5))}, a.asFor?(1)])\n"
               f"say([{', '.join(f'a.assign({lit(k - 5)}, 9)' for k in range(1, 9))}])\n"
               f"say([a, b])")
        unwrap = str(a[0]) if len(a) == 1 else arr(a)
        ev = ["out:[" + ", ".join([arr(c["cat"]), arr(c["rev"]), str(len(a)), b(not a), b(bool(a)), b(c["eq"]), b(not c["eq"]), unwrap, '"' + "-".join(str(x) for x in a) + '"', arr(a), "true"]) + "]",
              "out:[" + ", ".join(arr(r) for r in c["rep"]) + "]",
              "out:[" + ", ".join(b(x) for x in c["has"]) + ", " + b(c["has"][0]) + "]",
              "out:[" + ", ".join(arr(r) for r in c["asg"]) + "]",
              "out:[" + arr(a) + ", " + arr(bb) + "]"]
        reqs.append({"id": str(len(reqs)), "src": src, "fuel": 200000, "deadline_ms": 5000})
        want.append(ev)
    # transposition of rectangular arrays of arrays (1..2 rows x 1..3 columns)
    for rows in (1, 2, 3):
        for cols in (1, 2, 3):
            m = [[r * 10 + cc for cc in range(cols)] for r in range(rows)]
            t = [[m[r][cc] for r in range(rows)] for cc in range(cols)]
            src = f"m := {arr([arr(r) for r in m]).replace(chr(39), '')}\nsay([m.T, m.T.T == m, m])"
            reqs.append({"id": str(len(reqs)), "src": src})
            want.append(["out:[" + arr([arr(r) for r in t]) + ", true, " + arr([arr(r) for r in m]) + "]"])
    out = run_cases(reqs, label="X arr")
    bad = []
    for rq, ev in zip(reqs, want):
        got = out[rq["id"]]["events"]
        if got != ev:
            k = next((i for i, (g, w) in enumerate(zip(got, ev)) if g != w), -1)
            bad.append({"src": rq["src"].splitlines()[0], "line": k + 1, "observed": got[k] if 0 <= k < len(got) else [got, out[rq["id"]]["end"]], "expected": ev[k] if k >= 0 else ev})
    return {"model": "PanArr", "cases": len(reqs), "states": res.distinct, "mismatches": len(bad), "examples": bad[:8],
            "rule": f"every pair of arrays over {{1, 2, 3}} of length <= {maxlen}: +, rev, len, empty?, B, ==, !=, unwrap, join, A, * 0..3, has? / asFor?, assign at positions -4..3, "
                    "receivers unchanged afterwards; transposition of 9 rectangular arrays of arrays; laws: lengths add, rev is an involution and reverses concatenation, membership distributes over "
                    "concatenation, assign keeps the length, sets exactly one position, is undone by assigning the old value and is the identity out of range, repetition multiplies the length",
            "deviations_kept": ["arr.assign(-1, v) does not replace the last element: it gives [*arr[:-1], v, *arr] (the tail arr[i+1:] is arr[0:] for i = -1); every other position behaves as documented"]}

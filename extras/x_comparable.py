"""Extra model: native/Comparable.pangaea (spec/PanComparable.tla).  TLC enumerates six <=> tables over three values (natural, reversed, all-equal, a cycle, nil for different
values, not even reflexive) and every triple (x, lo, hi), checks the laws and prescribes <, <=, >, >=, ==, !=, between? and (for the two total orders) clip; one program per state."""
import pvlib
from pvlib import run_tlc, run_cases, payloads


def run():
    res = run_tlc("MC_Comparable", cfg="MC_Comparable.cfg", timeout_s=900)
    if res.violation:
        raise pvlib.Broken("PanComparable law violated in the model: " + res.violation)
    cases = payloads(res, "CASE ")
    if len(cases) != res.distinct:
        raise pvlib.Broken(f"TLC printed {len(cases)} cases for {res.distinct} states")
    b = lambda v: "true" if v else "false"
    cell = lambda v: "nil" if v == 2 else (str(v) if v >= 0 else f"(0 - {-v})")
    reqs, want = [], []
    for c in cases:
        tbl = "[" + ", ".join("[" + ", ".join(cell(v) for v in row) + "]" for row in c["tbl"]) + "]"
        src = (f"T := {tbl}\nC := Comparable.bear({{new: m{{|v| .bear({{v: v}})}}, '<=>: m{{|o| T[.v - 1][o.v - 1]}}}})\n"
               f"x := C.new({c['x']}); lo := C.new({c['lo']}); hi := C.new({c['hi']})\n"
               f"say([x < lo, x <= lo, x > lo, x >= lo, x == lo, x != lo, x.between?(lo, hi)])")
        ev = ["out:[" + ", ".join(b(v) for v in c["ops"] + [c["between"]]) + "]"]
        if c["clip"]:
            src += "\nsay([x.clip(lo, hi).v, x.v, lo.v, hi.v])"
            ev.append(f"out:[{c['clip']}, {c['x']}, {c['lo']}, {c['hi']}]")
        reqs.append({"id": str(len(reqs)), "src": src, "fuel": 200000, "deadline_ms": 5000})
        want.append(ev)
    out = run_cases(reqs, label="X comparable")
    bad = []
    for rq, ev in zip(reqs, want):
        got = out[rq["id"]]["events"]
        if got != ev:
            bad.append({"src": rq["src"], "observed": [got, out[rq["id"]]["end"]], "expected": ev})
    return {"model": "PanComparable", "cases": len(reqs), "states": res.distinct, "mismatches": len(bad), "examples": bad[:8],
            "rule": "objects born of Comparable whose <=> is a table over three values (natural, reversed, all-equal, a cycle, nil for different values, not even reflexive), every triple (x, lo, hi): "
                    "<, <=, >, >=, ==, != against lo, between?(lo, hi), and for the two total orders clip(lo, hi); laws: <= is not >, >= is not <, a nil answer makes both <= and >= hold and none of <, ==, >; "
                    "for total orders antisymmetry, == exactly for equal values, transitivity, clip lands between the bounds and fixes exactly the values between them",
            "deviations_kept": []}

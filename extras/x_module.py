"""Extra model (not one of the listed properties): source files, import and invite! (spec/PanModule.tla).
TLC enumerates every assignment of bodies to a fixed tree of four files and prescribes the run of r/main; each case is
written to disk and run through runscript.RunSource exactly as `pangaea r/main.pangaea` does; output and the kind of the
final error are compared."""
import json, re
import pvlib
from pvlib import run_tlc, run_cases, payloads


def stmt_src(s):
    op, a, n, p = s["op"], s["a"], s["n"], s["p"]
    return {"def": f"{a} := {n}", "say": f"{a}.p", "str": f'"{p}".p', "imp": f'{a} := import("{p}")', "fld": f"{a}.{p}.p", "keys": f"{a}.keys.p",
            "inv": f'invite!("{p}")', "path": "_PANGAEA_SOURCE_PATH.p"}[op]


def expected(case):
    lines = []
    for o in case["out"]:
        if o["k"] == "int":
            lines.append(str(o["n"]))
        elif o["k"] == "str":
            lines.append(o["s"])
        elif o["k"] == "path":
            lines.append("<dir>/" + o["s"] + ".pangaea")
        else:
            lines.append("[" + ", ".join('"' + x + '"' for x in o["names"]) + "]")
    return "".join(l + "\n" for l in lines)


def run():
    res = run_tlc("MC_Module", cfg="MC_Module.cfg", timeout_s=600)
    if res.violation:
        raise pvlib.Broken("PanModule invariant violated in the model: " + res.violation)
    cases = payloads(res, "CASE ")
    reqs = []
    for i, c in enumerate(cases):
        files = {f + ".pangaea": "\n".join(stmt_src(s) for s in body) + "\n" for f, body in c["files"].items()}
        reqs.append({"id": str(i), "mode": "runsource", "files": files, "main": "r/main.pangaea", "fuel": 200000, "depth": 100, "deadline_ms": 5000})
    out = run_cases(reqs, label="X module")
    bad = []
    for i, c in enumerate(cases):
        o = out[str(i)]
        io = next((e[3:] for e in o["events"] if e.startswith("io:")), "")
        err = next((e[7:] for e in o["events"] if e.startswith("stderr:")), "")
        kind = "ok" if o["end"] == "exit:0" else (re.match(r"(\w+):", err) or [None, o["end"]])[1]
        if io != expected(c) or kind != c["err"]:
            bad.append({"files": reqs[i]["files"], "observed": [io, kind], "expected": [expected(c), c["err"]]})
    return {"model": "PanModule", "cases": len(cases), "states": res.distinct, "mismatches": len(bad), "examples": bad[:5],
            "rule": "4 files (r/main, r/h, r/s/h, r/s/g) x menus of 10/6/4/3 bodies built from define / print / import / field / keys / invite! / source-path "
                    "statements, every acyclic assignment; invariants ImportIsolated, Ends"}

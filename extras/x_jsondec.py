"""Extra model: JSON.dec / Str#decJSON (spec/PanJsonDec.tla).  TLC enumerates small JSON documents (leaves, arrays and objects of <= 2 members, one more level of
nesting, duplicate member names, private and non-identifier names, integral floats), builds their text, checks the laws and prescribes the decoded value."""
import json
import pvlib
from pvlib import run_tlc, run_cases, payloads


def show(v):
    t = v["t"]
    if t == "int":
        return str(v["v"])
    if t == "float":
        return v["txt"]
    if t == "str":
        return '"' + v["s"] + '"'
    if t == "nil":
        return "nil"
    if t == "bool":
        return "true" if v["b"] else "false"
    if t == "arr":
        return "[" + ", ".join(show(e) for e in v["es"]) + "]"
    ps = {p["k"]: p["v"] for p in v["ps"]}
    pub = sorted(k for k in ps if k[:1] != "_" and " " not in k)
    prv = sorted(k for k in ps if not (k[:1] != "_" and " " not in k))          # the worker lists public names, then the others
    return "{" + ", ".join(f"{k}: {show(ps[k])}" for k in pub + prv) + "}"


def run():
    res = run_tlc("MC_JsonDec", cfg="MC_JsonDec.cfg", timeout_s=900)
    if res.violation:
        raise pvlib.Broken("PanJsonDec law violated in the model: " + res.violation)
    cases = payloads(res, "CASE ")
    if len(cases) != res.distinct:
        raise pvlib.Broken(f"TLC printed {len(cases)} cases for {res.distinct} states")
    reqs, want = [], []
    for c in cases:
        for form in ("JSON.dec(`{t}`)", "`{t}`.decJSON", "JSON.dec(`  {t} \t `)"):
            reqs.append({"id": str(len(reqs)), "src": form.format(t=c["text"])})
            want.append("val:" + show(c["v"]))
    for bad in ("{", "", "[1,]", "nul", "{a: 1}", "[1 2]", "'a'"):
        reqs.append({"id": str(len(reqs)), "src": f"nil.try.{{|u| JSON.dec(`{bad}`)}}.err.type._name"})
        want.append('val:"ValueErr"')
    out = run_cases(reqs, label="X jsondec")
    bad = [{"src": rq["src"], "observed": out[rq["id"]]["end"], "expected": w} for rq, w in zip(reqs, want) if out[rq["id"]]["end"] != w]
    return {"model": "PanJsonDec", "cases": len(reqs), "states": res.distinct, "mismatches": len(bad), "examples": bad[:8],
            "rule": "12 leaves (ints, integral and non-integral floats, strs, true / false / null), every array and object of <= 2 members over 4 leaves x 4 member names "
                    "(public, private, with a blank; duplicates included), nested one level; three call forms; 7 malformed texts -> ValueErr; laws: one property per name, the last of equal names stays",
            "deviations_kept": ["of two members with the same name the last one stays (encoding/json), unlike literals"]}

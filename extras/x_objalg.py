"""Extra model: the object "update" functions (spec/PanObjAlg.tla): constructors made with Kernel._init, bro, patch, del, digest.
TLC enumerates every chain of <= MaxOps updates (11 concrete ones) from two constructed objects, checks the laws of the definitions and prescribes the
resulting object; each chain is one program in the real interpreter (names, values, prototype)."""
import json
import pvlib
from pvlib import run_tlc, run_cases, payloads

OPS = [".bro({a: 7})", ".bro({})", ".bro({d: 1, _h: 3})", ".patch(a: 8, d: 2)", ".patch(_h: 5)", ".patch", ".del('a)", ".del('_h)", ".del('a, 'b, 'c)",
       ".digest([['a, 9], ['e, 1], ['e, 2]])", ".digest([])"]
STARTS = ["P.new(1, 2)", "P.new(1, 2, c: 4, other: 5, _h: 9)"]
PRE = "P := {new: _init('a, 'b, c: 3, _h: 0), hello: m{.a}}\n"


def run(maxops=3):
    res = run_tlc("MC_ObjAlg", cfg="MC_ObjAlg.cfg", defines={"MaxOps": str(maxops)}, timeout_s=900)
    if res.violation:
        raise pvlib.Broken("PanObjAlg law violated in the model: " + res.violation)
    cases = payloads(res, "CASE ")
    if len(cases) != res.distinct:
        raise pvlib.Broken(f"TLC printed {len(cases)} cases for {res.distinct} states")
    reqs, want = [], []
    for c in cases:
        src = STARTS[c["start"] - 1] + "".join(OPS[k - 1] for k in c["ops"])
        ps = {n: v for n, v in c["ps"].items() if v != -1}
        names = sorted(n for n in ps if not n.startswith("_")) + sorted(n for n in ps if n.startswith("_"))
        isp = "true" if c["p"] == "P" else "false"
        notp = "false" if c["p"] == "P" else "true"
        reqs.append({"id": str(len(reqs)), "src": PRE + f"x := {src}\n[x.keys(private?: true), x.values(private?: true), x.proto == P, x.proto == Obj, x.kindOf?(P), x.which('hello) == P]",
                     "fuel": 200000, "deadline_ms": 5000})
        want.append("val:[[" + ", ".join(f'"{n}"' for n in names) + "], [" + ", ".join(str(ps[n]) for n in names) + f"], {isp}, {notp}, {isp}, {isp}]")
    # the constructor's arity check
    for args in ("1", "1, 2, 3", ""):
        reqs.append({"id": str(len(reqs)), "src": PRE + f"P.new({args})"})
        want.append("err:TypeErr:arity must be 2")
    out = run_cases(reqs, label="X objalg")
    bad = [{"src": rq["src"], "observed": out[rq["id"]]["end"], "expected": w} for rq, w in zip(reqs, want) if out[rq["id"]]["end"] != w]
    return {"model": "PanObjAlg", "cases": len(reqs), "states": res.distinct, "mismatches": len(bad), "examples": bad[:8],
            "rule": f"2 constructed objects x every chain of <= {maxops} updates out of 11 (bro x3, patch x3, del x3, digest x2): names incl. private, values, prototype, "
                    "kindOf?, where an inherited method is found; laws: bro forgets, patch keeps prototype and names and is idempotent, del / digest give plain objects",
            "deviations_kept": ["a declared default with a private name cannot be overridden through new", "del drops private properties and the prototype", "digest drops the prototype"]}

"""Extra model: case matching (spec/PanMatch.tla): `v === k`, `v !== k`, `v.case(%{k: r, ...})`, `arr.grep(k)`.
TLC enumerates (subject, sequence of <= MaxKeys distinct keys) over a pool of 9 subjects and 14 keys (ints, strs, nil, arrays, ranges, types, a
predicate), checks the laws of the definitions and prescribes every result; each case is one program in the real interpreter."""
import json
import pvlib
from pvlib import run_tlc, run_cases, payloads

SUBJ = ["1", "2", "3", '"a"', '"ab"', '"ba"', "nil", "[1, 2]", "(1:3)"]
KEYS = ["1", "2", '"a"', '"ab"', "nil", "[1, 2]", '[3, "a", nil]', "(1:3)", "(2:9)", "Int", "Str", "Arr", "Obj", "p"]
PRE = 'p := {|x| x == 2 || x == "ab"}\n'


def run(maxkeys=3):
    res = run_tlc("MC_Match", cfg="MC_Match.cfg", defines={"MaxKeys": str(maxkeys)}, timeout_s=900)
    if res.violation:
        raise pvlib.Broken("PanMatch law violated in the model: " + res.violation)
    cases = payloads(res, "CASE ")
    if len(cases) != res.distinct:
        raise pvlib.Broken(f"TLC printed {len(cases)} cases for {res.distinct} states")
    b = lambda x: "true" if x else "false"
    reqs, want = [], []
    for c in cases:
        v, ks = SUBJ[c["v"] - 1], [KEYS[k - 1] for k in c["ks"]]
        m = "%{" + ", ".join(f"{k}: {i + 1}" for i, k in enumerate(ks)) + "}"
        parts = [f"x.case({m})"] + [f"x === {k}" for k in ks] + [f"x !== {k}" for k in ks]
        exp = ["nil" if c["case"] == 0 else str(c["case"])] + [b(x) for x in c["m"]] + [b(not x) for x in c["m"]]
        if len(ks) == 1:
            parts.append(f"[{', '.join(SUBJ)}].grep({ks[0]})")
            exp.append("[" + ", ".join(s for s, keep in zip(SUBJ, c["grep"]) if keep) + "]")
        reqs.append({"id": str(len(reqs)), "src": PRE + f"x := {v}\n[" + ", ".join(parts) + "]", "fuel": 200000, "deadline_ms": 5000})
        want.append("val:[" + ", ".join(exp) + "]")
    out = run_cases(reqs, label="X match")
    bad = []
    for rq, w in zip(reqs, want):
        got = out[rq["id"]]["end"].replace("(1:3:nil)", "(1:3)")
        if got != w:
            bad.append({"src": rq["src"], "observed": got, "expected": w})
    return {"model": "PanMatch", "cases": len(reqs), "states": res.distinct, "mismatches": len(bad), "examples": bad[:8],
            "rule": f"9 subjects x every sequence of <= {maxkeys} distinct keys out of 14 (ints, strs, nil, two arrays, two ranges, Int / Str / Arr / Obj, a predicate): "
                    "case over the map literal, === and !== per key, grep over all subjects for single keys; laws: reflexive, case sound, a matching scalar key wins over "
                    "non-scalar keys, non-matching keys are irrelevant"}

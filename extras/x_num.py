"""Extra model: functions of numbers (spec/PanNum.tla).  TLC enumerates every number k/4 of a window (floor, ceil, round, F / int forms) and every int of a window with
every pair of bounds (prime?, even?, odd?, bits, between?, clip, sqrt of squares and of negatives, chr), checks the laws and prescribes the values; one program per case."""
import pvlib
from pvlib import run_tlc, run_cases, payloads

K, N = 22, 40


def run():
    res = run_tlc("MC_Num", cfg="MC_Num.cfg", defines={"K": str(K), "N": str(N)}, timeout_s=900)
    if res.violation:
        raise pvlib.Broken("PanNum law violated in the model: " + res.violation)
    cases = payloads(res, "CASE ")
    if len(cases) != res.distinct:
        raise pvlib.Broken(f"TLC printed {len(cases)} cases for {res.distinct} states")
    b = lambda v: "true" if v else "false"
    lit = lambda v: str(v) if v >= 0 else f"(0 - {-v})"
    reqs, want = [], []
    for c in cases:
        if c["mode"] == "q":
            k = c["k"]
            mag = abs(k)
            txt = f"{mag // 4}.{('%02d' % ((mag % 4) * 25)).rstrip('0') or '0'}"
            src = (f"x := {txt if k >= 0 else '(0.0 - ' + txt + ')'}\nsay([x.floor, x.ceil, x.round, x.floor.proto == Int, x == x.floor.F, (0.0 - x).round, x.between?(x.floor.F, x.ceil.F), x.clip(x.ceil.F, x.floor.F) == x.floor.F])")
            ev = [f"out:[{c['floor']}, {c['ceil']}, {c['round']}, true, {b(c['isint'])}, {-c['round']}, true, {b(True)}]"]
            if c["isint"]:       # the same number written as an int
                n = k // 4
                src += f"\nn := {lit(n)}\nsay([n.floor, n.ceil, n.round, n.F == x, n.F.floor])"
                ev.append(f"out:[{n}, {n}, {n}, true, {n}]")
        else:
            n, lo, hi = c["n"], c["lo"], c["hi"]
            src = f"n := {lit(n)}\nsay([n.prime?, n.even?, n.odd?, n.between?({lit(lo)}, {lit(hi)}), n.clip({lit(lo)}, {lit(hi)})])"
            ev = [f"out:[{b(c['prime'])}, {b(c['even'])}, {b(not c['even'])}, {b(c['between'])}, {c['clip']}]"]
            if lo == 0 and hi == 0:       # once per n
                if n >= 0:
                    src += f"\nsay([{', '.join(f'n[{i}]' for i in range(6))}])"
                    ev.append("out:[" + ", ".join(str(x) for x in c["bits"]) + "]")
                src += "\nsay(nil.try.{|u| n.sqrt}.A)"
                if n < 0:
                    ev.append(f"out:[nil, <err ValueErr: sqrt of {n} is not a real number>]")
                elif c["square"]:
                    ev.append(f"out:[{c['root']}.0, nil]")
                else:
                    ev.append(None)
                if n >= 0:
                    src += f"\nsay([(n + 65).chr, (n + 65).chr.len, \"A\"._incBy(n) == (n + 65).chr])"
                    ev.append('out:["' + chr(n + 65).replace("\\", "\\\\") + '", 1, true]')
        reqs.append({"id": str(len(reqs)), "src": src, "fuel": 200000, "deadline_ms": 5000})
        want.append(ev)
    out = run_cases(reqs, label="X num")
    bad = []
    for rq, ev in zip(reqs, want):
        got = out[rq["id"]]["events"]
        if len(got) != len(ev) or any(w is not None and g != w for g, w in zip(got, ev)):
            bad.append({"src": rq["src"], "observed": [got, out[rq["id"]]["end"]], "expected": ev})
    return {"model": "PanNum", "cases": len(reqs), "states": res.distinct, "mismatches": len(bad), "examples": bad[:8],
            "rule": f"every number k/4 with |k| <= {K}: floor, ceil, round (halves away from zero), the int forms; every int -3..{N} x bounds -1..3: prime?, even?, odd?, between?, clip, "
                    "bits n[0..5], sqrt of squares / non-squares (not judged) / negatives, chr and the successor of a character; laws: floor / ceil bracket the number, round is one of them and "
                    "symmetric, ceil(x) = -floor(-x), clip lands between ordered bounds and is the identity inside them, the bits add up to the number",
            "deviations_kept": []}

"""Extra model: the command line of `pangaea` (spec/PanCli.tla): which mode an argument vector selects (test / version / one-liner with -n, -p / script
file / REPL, jargon preload) and what it writes and returns.  TLC enumerates every argument vector of <= MaxArgs tokens out of 16 x jargon file present or
not, checks the laws and prescribes stdout and the exit code; each vector is one run of the real binary built from /repo."""
import json, os, shutil, subprocess, tempfile
from concurrent.futures import ThreadPoolExecutor
import pvlib
from pvlib import run_tlc, payloads

TOK = {"F": "ok.pangaea", "B": "bad.pangaea", "M": "missing.pangaea", "D": "D", "X": "X", "S1": '"s".p', "S2": "\\.uc"}
PATHS = {"F": "ok.pangaea", "B": "bad.pangaea", "M": "missing.pangaea", "D/a_test": "D/a_test.pangaea", "D/b_test": "D/b_test.pangaea", "X/a_test": "X/a_test.pangaea"}


def build_cli():
    out = os.path.join(pvlib.BIN, "pangaea_cli")
    p = subprocess.run(["go", "build", "-o", out, "."], cwd=pvlib.REPO, env=pvlib.GOENV, capture_output=True, text=True)
    if p.returncode != 0:
        raise pvlib.Broken("go build of the command line binary failed:\n" + p.stderr[-2000:])
    return out


def run(maxargs=3):
    res = run_tlc("MC_Cli", cfg="MC_Cli.cfg", defines={"MaxArgs": str(maxargs)}, timeout_s=900)
    if res.violation:
        raise pvlib.Broken("PanCli law violated in the model: " + res.violation)
    cases = payloads(res, "CASE ")
    if len(cases) != res.distinct:
        raise pvlib.Broken(f"TLC printed {len(cases)} cases for {res.distinct} states")
    binary = build_cli()
    d = tempfile.mkdtemp(prefix="pvcli")
    try:
        w = lambda rel, text: (os.makedirs(os.path.dirname(os.path.join(d, rel)) or d, exist_ok=True), open(os.path.join(d, rel), "w").write(text))
        w("ok.pangaea", '"file".p\n')
        w("bad.pangaea", "1 / 0\n")
        w("D/a_test.pangaea", '"t1".p\n')
        w("D/b_test.pangaea", '"t2".p\n')
        w("D/notes.txt", "not a test\n")
        w("X/a_test.pangaea", 'assertEq(1, 2)\n')
        w("X/b_test.pangaea", '"t2".p\n')
        w("home/.keep", "")
        w("jargon.pangaea", '"j".p')

        def one(c):
            argv = [TOK.get(t, t) for t in c["argv"]]
            env = dict(os.environ, HOME=os.path.join(d, "home"))
            env.pop("PANGAEA_JARGON_FILE", None)
            if c["jar"]:
                env["PANGAEA_JARGON_FILE"] = os.path.join(d, "jargon.pangaea")
            try:
                p = subprocess.run([binary] + argv, cwd=d, env=env, input="ab\ncd\n", capture_output=True, text=True, timeout=60)
            except subprocess.TimeoutExpired:
                return None
            return p.returncode, p.stdout

        with ThreadPoolExecutor(max_workers=pvlib.NCPU) as ex:
            results = list(ex.map(one, cases))
    finally:
        shutil.rmtree(d, ignore_errors=True)
    bad, modes = [], {}
    for c, r in zip(cases, results):
        if r is None:
            raise pvlib.Broken(f"the binary did not finish for {c['argv']}")
        code, out = r
        want = c["r"]
        modes[want["mode"]] = modes.get(want["mode"], 0) + 1
        lines = []
        for l in want["out"]:
            for k, v in PATHS.items():
                if l.endswith(" " + k):
                    l = l[:-len(k)] + v
            lines.append(l)
        exp = "".join(l + "\n" for l in lines)
        if want["mode"] == "repl":
            ok = code == 0 and out.startswith(exp + "Pangaea master (unstable)\n") and out.endswith(">>> ")
        elif want["mode"] == "usage":
            ok = code == 2 and out == ""
        else:
            ok = code == want["code"] and out == exp
        if not ok:
            bad.append({"argv": [TOK.get(t, t) for t in c["argv"]], "jargon_file": c["jar"], "observed": [code, out[:300]], "expected": [want["code"], exp[:300]], "mode": want["mode"]})
    return {"model": "PanCli", "cases": len(cases), "states": res.distinct, "mismatches": len(bad), "examples": bad[:8], "modes": modes,
            "rule": f"every argument vector of <= {maxargs} tokens out of 16 (test, 3 script paths, 2 directories, -e, 2 sources, -n, -p, --p, -v, -j, an undefined flag, --) x jargon "
                    "file present / absent, stdin of two lines: exit code and stdout of the real binary; laws: code 2 iff usage error, -v first wins, the jargon file never changes mode or code"}

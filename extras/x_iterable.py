"""Extra model: the functions of Iterable (native/Iterable.pangaea) as sequence functions (spec/PanIterable.tla).
TLC enumerates (sequence over {0..3} of length <= MaxLen) x function, checks relations between the functions and prescribes
each result; every case is evaluated on an array, on an iterator over it and, for consecutive sequences, on a range."""
import json
import pvlib
from pvlib import run_tlc, run_cases, payloads

CALL = {"A": ".A", "acc": ".acc({|a, b| a + b}, init: 0).A", "all?": ".all?({|e| e > 1})", "any?": ".any?({|e| e > 1})", "append": ".append(9).A", "prepend": ".prepend(9).A",
        "chain": ".chain([7, 8]).A", "chunk": ".chunk(2).A", "doUntil": ".doUntil({|e| e > 1}).A", "doWhile": ".doWhile({|e| e > 1}).A", "empty?": ".empty?",
        "exclude": ".exclude({|e| e > 1})", "select": ".select({|e| e > 1})", "find": ".find({|e| e > 1})", "first": ".first", "last": ".last", "index": ".index(1)",
        "rindex": ".rindex(1)", "indices": ".indices(1)", "map": ".map({|e| e * 2})", "max": ".max", "min": ".min", "reduce": ".reduce({|a, b| a + b}, init: 100)", "sum": ".sum",
        "tally": ".tally.items", "until": ".until({|e| e > 1}).A", "while": ".while({|e| e > 1}).A", "withI": ".withI.A", "zip": ".zip([7, 8]).A", "flipflop": ".flipflop(1, 2)",
        "len?": ".A.len"}


def fmt(v):
    if isinstance(v, bool):
        return "true" if v else "false"
    if isinstance(v, list):
        return "[" + ", ".join(fmt(x) for x in v) + "]"
    return "nil" if v == -999 else str(v)


def run(maxlen=3):
    res = run_tlc("MC_Iterable", cfg="MC_Iterable.cfg", defines={"MaxLen": str(maxlen)}, timeout_s=900)
    if res.violation:
        raise pvlib.Broken("PanIterable law violated in the model: " + res.violation)
    cases = payloads(res, "CASE ")
    reqs, meta = [], []
    for i, c in enumerate(cases):
        s = c["s"]
        lit = "[" + ", ".join(map(str, s)) + "]"
        recvs = [("arr", lit), ("iter", lit + "._iter")]
        if s and all(b == a + 1 for a, b in zip(s, s[1:])):
            recvs.append(("range", f"({s[0]}:{s[-1] + 1})"))
        for kind, r in recvs:
            reqs.append({"id": str(len(reqs)), "src": r + CALL[c["op"]], "fuel": 100000, "deadline_ms": 4000})
            meta.append((i, kind))
    out = run_cases(reqs, label="X iterable")
    bad, per = [], {}
    for rq, (i, kind) in zip(reqs, meta):
        c = cases[i]
        want = "val:" + fmt(c["r"]["v"])
        got = out[rq["id"]]["end"]
        if got != want:
            per[c["op"]] = per.get(c["op"], 0) + 1
            bad.append({"src": rq["src"], "observed": got, "expected": want, "receiver": kind})
    return {"model": "PanIterable", "cases": len(reqs), "states": res.distinct, "mismatches": len(bad), "examples": bad[:8], "mismatches_per_function": per,
            "rule": f"{len(CALL)} functions x every sequence over {{0,1,2,3}} of length <= {maxlen} x receivers (array, iterator over it, range when consecutive); "
                    "law invariants: select/exclude partition, all?/exclude, any?/find, until+find=doUntil, acc/sum, zip length"}

"""Extra model: nil in arithmetic over ints (spec/PanNil.tla).  TLC enumerates every expression of six forms over ints -3..3 with one nil operand, checks the laws (nil is the
neutral element of the operator it meets) and prescribes the value or the ZeroDivisionErr; one program per expression."""
import pvlib
from pvlib import run_tlc, run_cases, payloads


def run():
    res = run_tlc("MC_Nil", cfg="MC_Nil.cfg", timeout_s=900)
    if res.violation:
        raise pvlib.Broken("PanNil law violated in the model: " + res.violation)
    cases = payloads(res, "CASE ")
    if len(cases) != res.distinct:
        raise pvlib.Broken(f"TLC printed {len(cases)} cases for {res.distinct} states")
    lit = lambda v: str(v) if v >= 0 else f"(0 - {-v})"
    show = lambda v: f"[{v['v']}, nil]" if v["t"] == "int" else "[nil, <err ZeroDivisionErr: cannot be divided by 0>]"
    reqs, want = [], []
    for c in cases:
        f, op, op2, x, y = c["form"], c["op"], c["op2"], lit(c["x"]), lit(c["y"])
        e = {1: f"{x} {op} nil", 2: f"nil {op} {x}", 3: f"({x} {op} nil) {op2} {y}", 4: f"(nil {op} {x}) {op2} {y}", 5: f"{y} {op2} (nil {op} {x})",
             6: f"[{x}, nil, {y}].sum"}[f]
        src = f"say(nil.try.{{|u| {e}}}.A)"
        ev = ["out:" + show(c["val"])]
        if f == 6:
            src += f"\nsay(nil.try.{{|u| {x} % nil}}.A)\nsay([[nil, {x}, {y}, nil].sum, [{x}, {y}].sum, [nil, {x}].sum])"
            ev += ["out:" + show(c["modnil"]), f"out:[{c['x'] + c['y']}, {c['x'] + c['y']}, {c['x']}]"]
        reqs.append({"id": str(len(reqs)), "src": src, "fuel": 200000, "deadline_ms": 5000})
        want.append(ev)
    out = run_cases(reqs, label="X nil")
    bad = []
    for rq, ev in zip(reqs, want):
        got = out[rq["id"]]["events"]
        if got != ev:
            bad.append({"src": rq["src"], "observed": [got, out[rq["id"]]["end"]], "expected": ev})
    return {"model": "PanNil", "cases": len(reqs), "states": res.distinct, "mismatches": len(bad), "examples": bad[:8],
            "rule": "ints -3..3 with one nil operand: x op nil (+ - * // **), nil op x (+ - * //), (x op nil) op2 y, (nil op x) op2 y, y op2 (nil op x), sums with nils, x % nil; "
                    "laws: nil on the right changes nothing, nil on the left is 0 for + and -, 1 for * and //, a nil operand never changes what the others contribute, floor division brackets the quotient",
            "deviations_kept": ["x % nil treats nil as 0 and raises ZeroDivisionErr although x // nil treats it as 1"]}

"""Extra model: functions of strs (spec/PanStr.tla).  TLC enumerates every pair of strs over {",", "a", "b"} of length <= MaxLen, checks the laws and prescribes
+, * n, len, rev, A, empty?, B, first, last, ==, <=>, and / (split by ",", by "a" and by the empty str); one program per pair."""
import pvlib
from pvlib import run_tlc, run_cases, payloads

CH = {1: ",", 2: "a", 3: "b"}


def run(maxlen=3):
    res = run_tlc("MC_Str", cfg="MC_Str.cfg", defines={"MaxLen": str(maxlen)}, timeout_s=900)
    if res.violation:
        raise pvlib.Broken("PanStr law violated in the model: " + res.violation)
    cases = payloads(res, "CASE ")
    if len(cases) != res.distinct:
        raise pvlib.Broken(f"TLC printed {len(cases)} cases for {res.distinct} states")
    tx = lambda q: "".join(CH[c] for c in q)
    qs = lambda q: '"' + tx(q) + '"'
    arr = lambda ps: "[" + ", ".join(qs(p) for p in ps) + "]"
    b = lambda x: "true" if x else "false"
    reqs, want = [], []
    for c in cases:
        s, t = c["s"], c["t"]
        src = (f"s := {qs(s)}; t := {qs(t)}\n"
               f"say([s + t, s.rev, s.len, s.empty?, s.B, s == t, s != t, s <=> t, s.A, s.first, s.last])\n"
               f"say([s / \",\", s / \"a\", s / \"\", (s / \",\").join(\"\")])\n"
               f"say([{', '.join(f's * {n}' for n in range(4))}])\n"
               f"say([s, t])")
        ev = ["out:[" + ", ".join([qs(c["cat"]), qs(c["rev"]), str(len(s)), b(not s), b(bool(s)), b(s == t), b(s != t), str(c["cmp"]), arr(c["chars"]),
                                   qs(s[:1]) if s else "nil", qs(s[-1:]) if s else "nil"]) + "]",
              "out:[" + ", ".join([arr(c["split"]), arr(c["splita"]), arr(c["chars"]), qs([x for x in s if x != 1])]) + "]",
              "out:[" + ", ".join(qs(r) for r in c["rep"]) + "]",
              "out:[" + qs(s) + ", " + qs(t) + "]"]
        reqs.append({"id": str(len(reqs)), "src": src, "fuel": 200000, "deadline_ms": 5000})
        want.append(ev)
    out = run_cases(reqs, label="X str")
    bad = []
    for rq, ev in zip(reqs, want):
        got = out[rq["id"]]["events"]
        if got != ev:
            k = next((i for i, (g, w) in enumerate(zip(got, ev)) if g != w), -1)
            bad.append({"src": rq["src"].splitlines()[0], "line": k + 1, "observed": got[k] if 0 <= k < len(got) else [got, out[rq["id"]]["end"]], "expected": ev[k] if k >= 0 else ev})
    return {"model": "PanStr", "cases": len(reqs), "states": res.distinct, "mismatches": len(bad), "examples": bad[:8],
            "rule": f"every pair of strs over {{',', 'a', 'b'}} of length <= {maxlen}: +, rev, len, empty?, B, ==, !=, <=>, A, first, last, / by ',' / by 'a' / by the empty str, the pieces joined again, * 0..3, "
                    "receivers unchanged; laws: lengths add, rev is an involution, the pieces of a split are non-empty and free of the separator and lose nothing but separators, <=> is antisymmetric, "
                    "0 exactly for equal strs and puts a prefix first, repetition multiplies the length",
            "deviations_kept": []}

"""Extra model: the diamond `<>` as a queue of input lines (spec/PanStdin.tla) - a state machine whose actions are the uses of `<>`.  TLC explores every sequence of <= MaxOps uses
(S, a property, A, a mapped iteration, All) over every input of <= MaxLines lines (empty, one, two characters), checks conservation (every line handed out exactly once, in order) and the
history of answers; every reachable state (= behaviour, the history is part of it) is replayed as one program with that standard input, with and without the final newline."""
import pvlib
from pvlib import run_tlc, run_cases, payloads

TXT = {0: "", 1: "a", 2: "bc"}


def run(maxlines=3, maxops=4):
    res = run_tlc("MC_Stdin", cfg="MC_Stdin.cfg", defines={"MaxLines": str(maxlines), "MaxOps": str(maxops)}, timeout_s=900)
    if res.violation:
        raise pvlib.Broken("PanStdin invariant violated in the model: " + res.violation)
    cases = payloads(res, "CASE ")
    if len(cases) != res.distinct:
        raise pvlib.Broken(f"TLC printed {len(cases)} cases for {res.distinct} states")
    q = lambda n: '"' + TXT[n] + '"'
    reqs, want = [], []
    for c in cases:
        if not c["done"]:
            continue
        lines, ev = [], []
        for d in c["done"]:
            got = d["got"]
            if d["op"] == "S":
                lines.append("say(<>.S)"); ev.append("out:" + q(got[0]))
            elif d["op"] == "len":
                lines.append("say(<>.len)"); ev.append("out:" + str(len(TXT[got[0]])))
            elif d["op"] == "A":
                lines.append("say(<>.A)"); ev.append("out:[" + ", ".join(q(g) for g in got) + "]")
            elif d["op"] == "map":
                lines.append('say(<>@{|l| l + "!"})'); ev.append("out:[" + ", ".join('"' + TXT[g] + '!"' for g in got) + "]")
            else:
                lines.append("say(<>.All)"); ev.append('out:"' + "\\n".join(TXT[g] for g in got) + '"')
        text = "".join(TXT[n] + "\n" for n in c["input"])
        variants = [text] + ([text[:-1]] if c["input"] and c["input"][-1] != 0 else [])     # a final line needs no newline unless it is empty
        for v in variants:
            reqs.append({"id": str(len(reqs)), "src": "\n".join(lines), "stdin": v, "fuel": 200000, "deadline_ms": 5000})
            want.append(ev)
    out = run_cases(reqs, label="X stdin")
    bad = []
    for rq, ev in zip(reqs, want):
        got = out[rq["id"]]["events"]
        if got != ev:
            bad.append({"src": rq["src"], "stdin": rq["stdin"], "observed": [got, out[rq["id"]]["end"]], "expected": ev})
    return {"model": "PanStdin", "cases": len(reqs), "states": res.distinct, "mismatches": len(bad), "examples": bad[:8],
            "rule": f"every sequence of <= {maxops} uses of <> (S, len, A, a mapped iteration, All) over every input of <= {maxlines} lines (empty, 'a', 'bc'), with and without the final newline: each use "
                    "answers what the queue model says (the next line, or the empty str past the end; all remaining lines for A / @ / All); invariants: conservation (every line handed out exactly once, in order), "
                    "the rest is always a suffix of the input",
            "deviations_kept": []}

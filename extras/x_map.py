"""Extra model: maps with scalar keys (spec/PanMap.tla).  TLC enumerates every pair of pair lists (keys 1..3, values 10/20; lengths <= MaxP / MaxQ), checks the laws and
prescribes the literal (first occurrence wins), keys, values, items, len, B, at / [] for every key, unpacking both ways, digest, ==, A, @ over pairs and Arr#M; one program per pair."""
import pvlib
from pvlib import run_tlc, run_cases, payloads


def run(maxp=3, maxq=2, maxq_nh=2):
    res = run_tlc("MC_Map", cfg="MC_Map.cfg", defines={"MaxP": str(maxp), "MaxQ": str(maxq)}, timeout_s=900)
    if res.violation:
        raise pvlib.Broken("PanMap law violated in the model: " + res.violation)
    cases = payloads(res, "CASE ")
    if len(cases) != res.distinct:
        raise pvlib.Broken(f"TLC printed {len(cases)} cases for {res.distinct} states")
    lit = lambda ps: "%{" + ", ".join(f"{k}: {v * 10}" for k, v in ps) + "}"
    pairs = lambda ps: "[" + ", ".join(f"[{k}, {v * 10}]" for k, v in ps) + "]"
    ints = lambda xs: "[" + ", ".join(str(x) for x in xs) + "]"
    val = lambda v: "nil" if v == 0 else str(v * 10)
    b = lambda x: "true" if x else "false"
    reqs, want = [], []
    for c in cases:
        p, q, a = c["p"], c["q"], c["a"]
        src = (f"a := {lit(p)}; b := {lit(q)}\n"
               f"say([a.keys, a.values, a.items, a.len, a.B, a[1], a[2], a[3], a.at([1]), a.at([3])])\n"
               f"say([%{{**a, **b}}.items, %{{**b, **a}}.items, a.digest(b.items).items, a.digest({pairs(q)}).items])\n"
               f"say([a == b, b == a, %{{**a, **b}} == %{{**b, **a}}, a == {lit(a)}, a.A, a@{{|k, v| k * 100 + v}}, {pairs(p)}.M.items])\n"
               f"say([a.items, b.items])")
        ev = ["out:[" + ", ".join([ints(c["keys"]), ints(v * 10 for v in c["values"]), pairs(a), str(len(a)), b(c["truthy"]),
                                   val(c["at"][0]), val(c["at"][1]), val(c["at"][2]), val(c["at"][0]), val(c["at"][2])]) + "]",
              "out:[" + ", ".join([pairs(c["ab"]), pairs(c["ba"]), pairs(c["ab"]), pairs(c["ab"])]) + "]",
              "out:[" + ", ".join([b(c["eq"]), b(c["eq"]), b(c["eqm"]), "true", pairs(a), ints(k * 100 + v * 10 for k, v in a), pairs(a)]) + "]",
              "out:[" + pairs(a) + ", " + pairs(c["b"]) + "]"]
        reqs.append({"id": str(len(reqs)), "src": src, "fuel": 200000, "deadline_ms": 5000})
        want.append(ev)
    nscalar = len(reqs)
    res2 = run_tlc("MC_MapNH", cfg="MC_MapNH.cfg", defines={"MaxP": str(maxp), "MaxQ": str(maxq_nh)}, timeout_s=900)
    if res2.violation:
        raise pvlib.Broken("PanMap (non-hashable keys) law violated in the model: " + res2.violation)
    cases2 = payloads(res2, "CASE ")
    if len(cases2) != res2.distinct:
        raise pvlib.Broken(f"TLC printed {len(cases2)} cases for {res2.distinct} states")
    key = lambda k: {1: "1", 2: "2", 3: "[1]", 4: "[2]"}[k]
    lit2 = lambda ps: "%{" + ", ".join(f"{key(k)}: {v * 10}" for k, v in ps) + "}"
    pairs2 = lambda ps: "[" + ", ".join(f"[{key(k)}, {v * 10}]" for k, v in ps) + "]"
    for c in cases2:
        p, q, a = c["p"], c["q"], c["a"]
        src = (f"a := {lit2(p)}; b := {lit2(q)}; m := {pairs2(p)}.M\n"
               f"say([a.items, a.keys, a.len, a[1], a[2], a[[1]], a[[2]], a.B])\n"
               f"say([%{{**a, **b}}.items, %{{**b, **a}}.items, a.digest(b.items).items, a == b, b == a, a == {lit2(a)}])\n"
               f"say([m.items, m.len, m[1], m[2], m[[1]], m[[2]]])\n"
               f"say([a.items, b.items])")
        ev = ["out:[" + ", ".join([pairs2(a), "[" + ", ".join(key(k) for k, _ in a) + "]", str(len(a))] + [val(x) for x in c["at"]] + [b(bool(a))]) + "]",
              "out:[" + ", ".join([pairs2(c["ab"]), pairs2(c["ba"]), pairs2(c["ab"]), b(c["eq"]), b(c["eq"]), "true"]) + "]",
              "out:[" + ", ".join([pairs2(c["arrm"]), str(len(c["arrm"]))] + [val(x) for x in c["arrmat"]]) + "]",
              "out:[" + pairs2(a) + ", " + pairs2(c["b"]) + "]"]
        reqs.append({"id": str(len(reqs)), "src": src, "fuel": 200000, "deadline_ms": 5000})
        want.append(ev)
    out = run_cases(reqs, label="X map")
    bad = []
    for rq, ev in zip(reqs, want):
        got = out[rq["id"]]["events"]
        if got != ev:
            k = next((i for i, (g, w) in enumerate(zip(got, ev)) if g != w), -1)
            bad.append({"src": rq["src"].splitlines()[0], "line": k + 1, "observed": got[k] if 0 <= k < len(got) else [got, out[rq["id"]]["end"]], "expected": ev[k] if k >= 0 else ev})
    return {"model": "PanMap", "cases": len(reqs), "states": res.distinct + res2.distinct, "mismatches": len(bad), "examples": bad[:8],
            "rule": f"every pair of pair lists (keys 1..3, values 10/20, lengths <= {maxp} / {maxq}): the literal keeps the first occurrence of a key, keys / values / items in that order, len, B, "
                    "[] and at for every key (nil when absent), unpacking %{**a, **b} both ways and digest (the left operand wins, order = first occurrence), == both ways (sets of pairs, order-blind), "
                    "a map equals its own literal, A, @ over |k, v|, Arr#M, receivers unchanged; laws: distinct keys, Build idempotent, unpacking = writing the pairs out, merge with itself / the empty map, "
                    "left operand wins per key, merge length bounds, == reflexive and symmetric and implies equal lookups, both merge orders have the same key set"
                    f"; second part ({len(reqs) - nscalar} programs): keys 1, 2 and the arrs [1], [2] (not hashable), lengths <= {maxp} / {maxq_nh}: every walk visits hashed pairs first, then the others; duplicates "
                    "among arr keys are found with == in literals and unpackings; [] with arr keys; Arr#M",
            "deviations_kept": ["Arr#M (object.NewPanMap) does not look for duplicates among non-hashable keys: [[[1], 7], [[1], 8]].M has len 2 and two keys [1]; the literal %{[1]: 7, [1]: 8} has one. "
                                "Lookups answer the first pair either way."]}

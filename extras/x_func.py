"""Extra model: function objects (spec/PanFunc.tla).  TLC enumerates every signature (function / method literal, 0..3 positional and 0..2 keyword parameters), every number of
actual arguments 0..5, a given keyword, and every pair of signatures, checks the laws and prescribes args, arity, kwargs, the call, the curried call and ==; one program per state."""
import pvlib
from pvlib import run_tlc, run_cases, payloads


def lit(fn):
    names = ["a", "b", "c"][:fn["npos"]]
    kws = [f"k{i + 1}: {(i + 1) * 10}" for i in range(fn["nkw"])]
    body = "[" + ", ".join((["self.v"] if fn["kind"] == "m" else []) + names + [f"k{i + 1}" for i in range(fn["nkw"])]) + "]"
    return ("m" if fn["kind"] == "m" else "") + "{|" + ", ".join(names + kws) + "| " + body + "}"


def run():
    res = run_tlc("MC_Func", cfg="MC_Func.cfg", timeout_s=900)
    if res.violation:
        raise pvlib.Broken("PanFunc law violated in the model: " + res.violation)
    cases = payloads(res, "CASE ")
    if len(cases) != res.distinct:
        raise pvlib.Broken(f"TLC printed {len(cases)} cases for {res.distinct} states")
    b = lambda v: "true" if v else "false"
    strs = lambda xs: "[" + ", ".join('"' + x + '"' for x in xs) + "]"
    vals = lambda xs: "[" + ", ".join("nil" if x == 0 else str(x) for x in xs) + "]"
    reqs, want = [], []
    for c in cases:
        fn, gn, given = c["fn"], c["gn"], c["given"]
        act = (["o"] + [str(i) for i in range(1, given)]) if fn["kind"] == "m" else [str(i) for i in range(1, given + 1)]
        cact = (["o"] + [str(i) for i in range(1, c["arity"])]) if fn["kind"] == "m" else [str(i) for i in range(1, c["arity"] + 1)]
        callargs = ", ".join(act + (["k1: 5"] if c["over"] else []))
        curry = f"cf := f.curry\nsay(cf{''.join('(' + a + ')' for a in cact)})"
        src = (f"o := {{v: 9}}; f := {lit(fn)}; g := {lit(gn)}\n"
               f"say([f.args, f.arity, f.kwargs.keys, f.kwargs.values])\n"
               f"say(f({callargs}))\n"
               f"say([f == g, g == f, f == f, f.call({callargs})])\n" + curry)
        ev = [f"out:[{strs(c['args'])}, {c['arity']}, {strs(c['kwn'])}, {vals(c['kwd'])}]", "out:" + vals(c["call"]),
              f"out:[{b(c['eq'])}, {b(c['eq'])}, true, {vals(c['call'])}]"]
        ev.append("out:" + vals(c["curried"]) if c["curryok"] else "END err:NoPropErr:property `call` is not defined.")
        reqs.append({"id": str(len(reqs)), "src": src, "fuel": 200000, "deadline_ms": 5000})
        want.append(ev)
    out = run_cases(reqs, label="X func")
    bad = []
    for rq, ev in zip(reqs, want):
        got = out[rq["id"]]["events"]
        if ev[-1].startswith("END "):
            got = got + ["END " + out[rq["id"]]["end"]]
        if got != ev:
            k = next((i for i, (g, w) in enumerate(zip(got, ev)) if g != w), -1)
            bad.append({"src": rq["src"], "line": k + 1, "observed": got[k] if 0 <= k < len(got) else [got, out[rq["id"]]["end"]], "expected": ev[k] if k >= 0 else ev})
    return {"model": "PanFunc", "cases": len(reqs), "states": res.distinct, "mismatches": len(bad), "examples": bad[:8],
            "rule": "every function / method literal with 0..3 positional and 0..2 keyword parameters, 0..5 actual arguments, a given keyword, every pair of signatures: args (with self for methods), arity, "
                    "kwargs, the call written f(...) and f.call(...) (missing -> nil, surplus dropped, a given keyword replaces the default), curry applied one argument at a time, == both ways and with itself; "
                    "laws: arity counts self, keywords do not disturb positionals, a surplus argument is dropped, the curried call equals the call with all arguments",
            "deviations_kept": ["curry of a method literal calls the receiver instead of the method: the generated code names its first parameter `self`, which shadows the function being curried "
                                "(m{|a| ...}.curry(o)(1) raises NoPropErr `call` for a plain object o)"]}

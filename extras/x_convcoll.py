"""Extra model: conversions between collections (spec/PanConvColl.tla): arr.O, arr.M, and back with A.
TLC enumerates every array of <= MaxLen elements out of 11 (well-formed pairs with str / private / int / array / nil keys, duplicates, three malformed
elements), checks the laws and prescribes the object / map or the error; each array is one program in the real interpreter."""
import json
import pvlib
from pvlib import run_tlc, run_cases, payloads

POOL = ["['a, 1]", "['b, 2]", "['a, 3]", "['_p, 4]", "[1, 5]", "[[1], 6]", "[[1], 7]", "[nil, 8]", "1", "['a]", "['b, 1, 2]"]


def key_txt(key):
    return '"' + key["s"] + '"' if key["t"] == "str" else key["s"]


def run(maxlen=3):
    res = run_tlc("MC_ConvColl", cfg="MC_ConvColl.cfg", defines={"MaxLen": str(maxlen)}, timeout_s=900)
    if res.violation:
        raise pvlib.Broken("PanConvColl law violated in the model: " + res.violation)
    cases = payloads(res, "CASE ")
    if len(cases) != res.distinct:
        raise pvlib.Broken(f"TLC printed {len(cases)} cases for {res.distinct} states")
    reqs, want = [], []
    for c in cases:
        lit = "[" + ", ".join(POOL[i - 1] for i in c["ix"]) + "]"
        src = (f"xs := {lit}\nsay(nil.try.{{|u| xs.O.{{|o| [o.keys(private?: true), o.values(private?: true), o.A]}}}}.A)\n"
               f"say(nil.try.{{|u| xs.M.{{|m| [m.A, m.len, m.keys]}}}}.A)\n[xs.try.O.val.nil?, xs.try.M.val.nil?]")
        o, m = c["o"], c["m"]
        if o["k"] == "err":
            eo = f"[nil, <err ValueErr: {o['msg']}>]"
        else:
            ps = {p["key"]["s"]: p["v"] for p in o["ps"]}
            names = sorted(n for n in ps if not n.startswith("_")) + sorted(n for n in ps if n.startswith("_"))
            pub = [n for n in names if not n.startswith("_")]
            eo = ("[[[" + ", ".join(f'"{n}"' for n in names) + "], [" + ", ".join(str(ps[n]) for n in names) + "], [" +
                  ", ".join(f'["{n}", {ps[n]}]' for n in pub) + "]], nil]")
        if m["k"] == "err":
            em = f"[nil, <err ValueErr: {m['msg']}>]"
        else:
            em = ("[[[" + ", ".join(f"[{key_txt(p['key'])}, {p['v']}]" for p in m["ps"]) + f"], {len(m['ps'])}, [" + ", ".join(key_txt(p["key"]) for p in m["ps"]) + "]], nil]")
        reqs.append({"id": str(len(reqs)), "src": src, "fuel": 200000, "deadline_ms": 5000})
        b = lambda x: "true" if x else "false"
        want.append((["out:" + eo, "out:" + em], f"val:[{b(o['k'] == 'err')}, {b(m['k'] == 'err')}]"))
    out = run_cases(reqs, label="X convcoll")
    bad = []
    for rq, (ev, end) in zip(reqs, want):
        o = out[rq["id"]]
        if o["events"] != ev or o["end"] != end:
            bad.append({"src": rq["src"], "observed": [o["events"], o["end"]], "expected": [ev, end]})
    return {"model": "PanConvColl", "cases": len(reqs), "states": res.distinct, "mismatches": len(bad), "examples": bad[:8],
            "rule": f"every array of <= {maxlen} elements out of 11 (pairs with str / private / int / array / nil keys incl. duplicates; a non-array, a 1-element and a 3-element array): "
                    "arr.O (names incl. private, values, A), arr.M (A, len, keys) or the ValueErr naming the first offending element; laws: M rejects => O rejects, no duplicate names / "
                    "scalar keys, scalar keys first, O never larger than M",
            "deviations_kept": ["arr.M keeps every occurrence of a non-scalar key (they are not compared)"]}

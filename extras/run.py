#!/usr/bin/env python3
"""Extra specification coverage beyond the listed properties: `python3 extras/run.py [name...]`.
Each extra model is model-checked by TLC and bound to the implementation by replay; results go to /verif/evidence_extra/<name>.json.
Exit 0: every replay agreed with its model; 1: a mismatch (printed as `MISMATCH model=<name> ...`, never as a VIOLATION: these are not
listed properties); 2: the machinery itself failed."""
import importlib, json, os, sys, time
HERE = os.path.dirname(os.path.abspath(__file__))
sys.path.insert(0, os.path.dirname(HERE))
sys.path.insert(0, HERE)
import pvlib

ALL = ["x_module", "x_iterable", "x_match", "x_objalg", "x_strcase", "x_convcoll", "x_cli", "x_jsondec", "x_range", "x_num", "x_arr", "x_str", "x_map", "x_nil", "x_comparable", "x_func", "x_stdin"]


def main():
    names = [a for a in sys.argv[1:] if not a.startswith("-")] or ALL
    os.makedirs(os.path.join(pvlib.VERIF, "evidence_extra"), exist_ok=True)
    rc = 0
    pvlib.build_worker("committed")
    for n in names:
        t0 = time.time()
        try:
            r = importlib.import_module(n).run()
        except pvlib.Broken as e:
            print(f"BROKEN model={n}: {e}")
            return 2
        r["wall_s"] = round(time.time() - t0, 1)
        json.dump(r, open(os.path.join(pvlib.VERIF, "evidence_extra", n + ".json"), "w"), indent=1, ensure_ascii=False)
        print(f"[{n}] cases={r['cases']} states={r['states']} mismatches={r['mismatches']} wall={r['wall_s']}s")
        for ex in r["examples"][:3]:
            print(f"MISMATCH model={n} " + json.dumps(ex, ensure_ascii=False)[:700])
        if r["mismatches"]:
            rc = 1
    return rc


if __name__ == "__main__":
    sys.exit(main())

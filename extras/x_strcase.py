"""Extra model: spelling conversions of strs (spec/PanStrCase.tla): camel, pascal, snake, kebab, capital, trim, rev, truncate and the predicates.
TLC enumerates every str over {a, B, -, _, space} of length <= MaxLen, checks the laws (idempotence, character classes) and prescribes every result."""
import json
import pvlib
from pvlib import run_tlc, run_cases, payloads


def run(maxlen=5):
    res = run_tlc("MC_StrCase", cfg="MC_StrCase.cfg", defines={"MaxLen": str(maxlen)}, timeout_s=900)
    if res.violation:
        raise pvlib.Broken("PanStrCase law violated in the model: " + res.violation)
    cases = payloads(res, "CASE ")
    if len(cases) != res.distinct:
        raise pvlib.Broken(f"TLC printed {len(cases)} cases for {res.distinct} states")
    q = lambda cs: "[nil, <err>]" if cs == ["<err>"] else '["' + "".join(cs) + '", nil]'
    b = lambda x: "true" if x else "false"
    reqs, want = [], []
    for c in cases:
        lit = '"' + "".join(c["s"]) + '"'
        calls = [("camel", "camel"), ("pascal", "pascal"), ("snake", "snake"), ("kebab", "kebab"), ("capital", "capital"), ("trim", "trim"), ("rev", "rev"),
                 ("t3", "truncate(3)"), ("t2", 'truncate(2, end: "..")'), ("t1", "truncate(1)")]
        src = f"s := {lit}\nsay([" + ", ".join(f"s.try.{call}.A" for _, call in calls) + "]@{|p| [p[0], \"<err>\" if p[1] else nil]})\n" \
              "[s.lc?, s.uc?, s.try.camel?.val, s.try.pascal?.val, s.snake?, s.kebab?]"
        reqs.append({"id": str(len(reqs)), "src": src, "fuel": 200000, "deadline_ms": 5000})
        exp = "out:[" + ", ".join(q(c[k]).replace("<err>", '"<err>"') for k, _ in calls) + "]"
        preds = [b(c["lcp"]), b(c["ucp"]), "nil" if c["camel"] == ["<err>"] else b(c["camel"] == c["s"]), "nil" if c["pascal"] == ["<err>"] else b(c["pascal"] == c["s"]),
                 b(c["snake"] == c["s"]), b(c["kebab"] == c["s"])]
        want.append(([exp], "val:[" + ", ".join(preds) + "]"))
    out = run_cases(reqs, label="X strcase")
    bad = []
    for rq, (ev, end) in zip(reqs, want):
        o = out[rq["id"]]
        if o["events"] != ev or o["end"] != end:
            bad.append({"src": rq["src"], "observed": [o["events"], o["end"]], "expected": [ev, end]})
    return {"model": "PanStrCase", "cases": len(reqs), "states": res.distinct, "mismatches": len(bad), "examples": bad[:8],
            "rule": f"every str over {{a, B, -, _, space}} of length <= {maxlen}: camel, pascal, snake, kebab, capital, trim, rev, truncate (3 / 2 with '..' / 1), "
                    "lc?, uc?, camel?, pascal?, snake?, kebab?; laws: camel / trim idempotent (snake / kebab are not: TLC refuted it, one leading separator is removed per call), rev involutive, snake has no capitals and no '-', truncate(3, '..') fits",
            "deviations_kept": ["truncate(n) with n < len(end) takes the negative count from the end of the str (result longer than n)"]}

"""C01 no host-level crash (robustness exploration driven by a TLA+-defined space).

(i) call space: TLC enumerates (receiver, reachable property) over a boundary-value pool; the harness expands argument tuples;
(ii) indexing space: at / slices with boundary indices on arr, str, int, range, map, obj;
(iii) token space: all pairs (thorough: seeded triples too) of token representatives collected from the real lexer over the corpus, plus malformed
     tokens; corpus files with byte-level mutations; (iv) stdin shapes through <>; a sample goes through runscript.RunSource (the script / -e path).
Every run's outcome class is checked against PanCallSpace (a host panic / fatal error is not an outcome of the language)."""
import glob, json, os, re
import pvlib
from pvlib import Check, run_tlc, run_cases, payloads, ndjson

POOL = ["0", "1", "(-1)", "2", "9223372036854775807", "(-9223372036854775807-1)", "4611686018427387904", "0.0", "1.5", "(-0.5)", "1.0e308", '""', '"a"', '"abc"',
        '"日本語"', '"a,b"', '" "', '"("', '"[a"', '"*"', '"a{2,1}"', "[]", "[1]", "[1, 2, 3]", "[[1], [2]]", "[nil]", '["a", "b"]', "{}", "{a: 1}", "{a: 1, b: {c: 2}}", "{_missing: m{|n| n}}",
        "%{}", "%{1: 2}", '%{"a": [1]}', "(1:3)", "(3:1:-1)", "(1:10:0)", "(nil:nil)", '("a":"c")', "(1:nil)", "((-1):1:9223372036854775807)", '("":?c)', "{|x| x}",
        "{|x, y| y}", "m{self}", "<{|x| yield x}>", "[1, 2]._iter", "nil", "true", "false", "Int", "Str", "Arr", "Obj", "BaseObj", "Map", "Range", "Func", "Iter",
        "Iterable", "Comparable", "Wrappable", "Kernel", "JSON", "Either", "EitherVal", "EitherErr", "Err", "TypeErr", "FileNotFoundErr", "StopIterErr", "Diamond",
        "1.try", "1.try.nosuchprop", "1.try.nosuchprop.err", "_", "'sym", "?c", "`raw`", "<>", "Int.bear.new(3)", "Str.bear.new(\"s\")", "{a: 1}.bear({b: 2})",
        # floats that no literal can spell: not-a-number and the infinities
        "((-8.0) ** 0.5)", "(1.0e308 * 10.0)", "(-1.0e308 * 10.0)", "(0.0 * -1.0)"]
SUB12 = ["0", "(-1)", "9223372036854775807", '""', '"abc"', "[]", "[1, 2, 3]", "{a: 1}", "nil", "(1:3)", "{|x| x}", "Int", '"("']
SUB25 = SUB12 + ["((-8.0) ** 0.5)", "(1.0e308 * 10.0)", "1", "1.5", '"日本語"', "[nil]", "%{1: 2}", "(3:1:-1)", "true", "Str", "Obj", "1.try", "_", "'sym", "(-9223372036854775807-1)"]
SKIP = {"exit", "serve", "serveBackground", "import", "invite!", "readline", "readlines"}
BAD_TOKENS = ['"abc', "\\", "#{", "`x", "'", "?", "\\9", "0x", "1e", '"a#{', "}", ")", "]", "|", "^", "**", "=>", ":=", "@", "$", "&.", "~@", "=@"]


def classify(end):
    if end.startswith("syntax"):
        return "syntax"
    if end.startswith("val:") or end.startswith("exit:") or end == "ok" or end.startswith("ast:") or end == "lexerr":
        return "value"
    if end.startswith("err:"):
        return "panerr"
    if end.startswith(("fuel:", "discarded:")):
        return "discarded"
    if pvlib.is_host_crash(end):
        return "host-crash"
    if end.startswith(("panic:", "crash:")):
        return "discarded-resource"   # resource-exhaustion panics of the Go runtime (the property's bounded-memory proviso)
    return "unknown:" + end[:30]


def call_src(recv, prop, args):
    if not prop[0].isalpha() and prop[0] != "_":
        return f"{recv}.{prop}({', '.join(args)})" if args else f"{recv}.{prop}"
    return f"{recv}.{prop}" + (f"({', '.join(args)})" if args else "")


def corpus_files():
    return sorted(glob.glob(os.path.join(pvlib.REPO, "tests", "*.pangaea")))[::4] + sorted(glob.glob(os.path.join(pvlib.REPO, "example", "**", "*.pangaea"), recursive=True))


def run():
    ck = Check("C01", level="exploration")
    thorough = ck.tier == "thorough"
    rng = ck.rng
    surf = run_cases([{"id": "s", "mode": "surface", "progs": POOL}], nproc=1)["s"]["extra"]
    base = sorted({p for e in surf["builtins"] if e["name"] in ("Obj", "BaseObj") for p in (e["props"] or [])})
    # a receiver whose prototype chain cannot even be walked still gets the calls every object answers
    reach = [[p for p in (ps or base) if p not in SKIP] for ps in surf["reach"]]
    # token representatives from the real lexer over the corpus
    toks = {}
    lexed = run_cases([{"id": str(i), "mode": "tokens", "src": open(f, encoding="utf-8").read()} for i, f in enumerate(corpus_files())], label="C01 lex corpus")
    for r in lexed.values():
        for e in r["events"]:
            name, _, _, lit = e.split("|", 3)
            if name not in toks or (len(lit) < len(toks[name]) and lit.strip()):
                toks[name] = lit
    reps = [v for k, v in sorted(toks.items()) if k not in ("RET",)] + ["\n"] + BAD_TOKENS
    res = run_tlc("MC_C01", cfg="MC_C01.cfg", files={"c01_reach.ndjson": ndjson([{"n": max(1, len(r))} for r in reach])}, defines={"NTok": str(len(reps))}, timeout_s=900)
    ck.add_tlc(res, f"MC_C01 receivers={len(POOL)} NTok={len(reps)}")
    cases = payloads(res, "CASE ")
    argsets = [[]] + [[a] for a in (POOL if thorough else SUB12)] + [[a, b] for a in (SUB12 if thorough else SUB12[:3]) for b in (SUB12 if thorough else SUB12[:3])] + \
              [["k: 1"], ["1", "k: nil"], ["*[1, 2]"], ["**{a: 1}"]]
    reqs, meta = [], {}
    for c in cases:
        if c["kind"] == "call":
            r, p = c["a"] - 1, c["b"] - 1
            if p >= len(reach[r]):
                continue
            for args in argsets:
                rid = f"c{len(reqs)}"
                reqs.append({"id": rid, "src": call_src(POOL[r], reach[r][p], args), "fuel": 200000 if thorough else 40000, "depth": 150, "deadline_ms": 4000 if thorough else 2000})
                meta[rid] = ("call", POOL[r], reach[r][p], len(args))
        else:
            t1, t2 = reps[c["a"] - 1], (reps[c["b"] - 1] if c["b"] > 0 else "")
            rid = f"t{len(reqs)}"
            reqs.append({"id": rid, "src": (t1 + " " + t2).strip(" "), "fuel": 50000, "deadline_ms": 4000})
            meta[rid] = ("tok", t1, t2, 0)
    # token triples (seeded), corpus mutations, indexing space, stdin shapes
    for _ in range(200000 if thorough else 20000):
        ts = [rng.choice(reps) for _ in range(3)]
        rid = f"t{len(reqs)}"
        reqs.append({"id": rid, "src": " ".join(ts), "fuel": 50000, "deadline_ms": 4000})
        meta[rid] = ("tok3", ts[0], ts[1], 0)
    for f in corpus_files():
        src = open(f, encoding="utf-8").read()
        for _ in range(30 if thorough else 6):
            b = bytearray(src.encode())
            for _ in range(rng.randint(1, 3)):
                k = rng.randrange(len(b))
                op = rng.randint(0, 3)
                if op == 0:
                    del b[k]
                elif op == 1:
                    b.insert(k, rng.choice(b"(){}[]|\\\"'#:;.,@$&~=<>?!*+-/%^ \n0a_"))
                elif op == 2:
                    b[k] = rng.choice(b"(){}[]|\\\"'#:;.,@$&~=<>?!*+-/%^ \n0a_")
                else:
                    j = rng.randrange(len(b))
                    b[k], b[j] = b[j], b[k]
            rid = f"m{len(reqs)}"
            reqs.append({"id": rid, "src": b.decode("utf-8", "replace"), "fuel": 300000, "deadline_ms": 5000, "stdin": "x\n"})
            meta[rid] = ("mutation", os.path.basename(f), "", 0)
    idxs = ["0", "(-1)", "5", "(-6)", "9223372036854775807", "(-9223372036854775807-1)", "nil", '"a"', "1.5", "[1]", "(1:2)", "(nil:nil:-1)", "(5:0:-2)", "(0:9:0)",
            "((-9223372036854775807-1):9223372036854775807:9223372036854775807)", "(1:2:nil)", "(nil:nil:9223372036854775807)", "(nil:nil:(-9223372036854775807))", "(0:3:9223372036854775770)", "(nil:nil:4611686018427387904)",
            "(2:nil:(-4611686018427387904))", '("a":2)', "(1.5:2)", "'a", "{a: 1}", "true"]
    for x in ["[1, 2, 3]", '"abc"', '"日本語"', "5", "(-1)", "(1:10)", "%{1: 2, 'a: 3}", "{a: 1}", "nil", "Arr", "Str", "Int", "{|x| x}", "[]", '""']:
        for i in idxs:
            for form in (f"{x}[{i}]", f"{x}.at([{i}])", f"{x}.at({i})", f"{x}[{i}, {i}]"):
                rid = f"i{len(reqs)}"
                reqs.append({"id": rid, "src": form, "fuel": 100000, "deadline_ms": 4000})
                meta[rid] = ("index", x, i, 0)
    for sin in ["", "no newline", "a\nb\n", "\x00\x00", "\xff\xfe", "x" * 70000, "\n\n\n", "é" * 3000]:
        for prog in ["<>.p", "<>@p", "<>.A.len", "[<>, <>]", "<>@{|l| l.len}.sum", "<>.readline? || 1", "x := <>; [x.next, x.next, x.next]"]:
            rid = f"s{len(reqs)}"
            reqs.append({"id": rid, "src": prog, "stdin": sin, "fuel": 400000, "deadline_ms": 5000})
            meta[rid] = ("stdin", prog, str(len(sin)), 0)
    # derived structures: values built by a conversion from keys / elements of every kind, handed on to consumers that take them apart
    keys = ["'a", "'a.bear", '"x".bear({y: 1})', "Str", "Int", "1", "nil", "[1]", "{}", "Obj", 'Str.bear.new("s")', "Int.bear.new(3)", "'_p", '"a b"', '""', "1.5", "true", "{|x| x}", "(1:2)", "_"]
    builders = ["[[{k}, 1]].O", "[[{k}, 1]].M", "[[{k}, 1], [{k}, 2]].O", "%{{{k}: 1}}.O", "%{{{k}: 1}}", "{{a: {k}}}", "[{k}, {k}]", "[[{k}]]", "[[{k}, 1, 2]].O", "[{k}].O", "[{k}].M", "{{^{k}: 1}}",
                "[[1, {k}]].M.O", "{{a: 1}}.bear({{b: {k}}})", "[{k}].try", "({k}:{k})", "{k}.try",
                "[[{k}, 1], [{k}, 2]].M", "[[{k}, 1], [2, 2], [{k}, 3]].M", "[{k}, 1, {k}].keyBy {{|e| e}}", "[{k}, {k}]@(%{{}}){{|e| [e, 1]}}", "[{k}, {k}]@({{}}){{|e| [e, 1]}}",
                "%{{{k}: 1, **[[{k}, 2]].M}}", "[[{k}, 1]].M.bear({{}})"]
    consumers = ["{{|a: 0| a}}(**{d})", "{{|x, a: 0, y: 1| [x, a, y, \\_]}}(1, **{d})", "{{m: m{{|a: 0| a}}}}.m(**{d})", "<{{|a: 0| yield a}}>.new(**{d}).next", "{{**{d}}}", "%{{**{d}}}",
                 "{{a: 5, **{d}}}.a", "{d}.keys", "{d}.items", "{d}.values", "{d}.S", "{d}.repr", "{d} == {d}", "{d}.bear({{}})", "{d}['a]", "{d}.a", "{d}.which('a)", "JSON.dec({d}.S)",
                 "{d}@{{|k, v| [k, v]}}", "{d}.A", "{d}.O", "{d}.M", "[*{d}]", "{{|x| \\0}}(*{d})", "{d}.len", "{d}$([]){{|acc, e| [*acc, e]}}", "{d}.keys(private?: true)", "{d}.try.keys.A",
                 "\"#{{{d}}}\"", "{d}.bear({{}}).bear.keys", "%{{{d}: 1}}[{d}]", "{d}.patch(a: 1)", "{d}.del('a)",
                 "{d}[[7]]", "{d}[{{zz: 1}}]", "{d}.p", "{d}.has?([7])", "[{d}].S", "{d} != %{{}}"]
    nb = len(keys) * len(builders)
    ders = rng.sample(range(nb * len(consumers)), nb * len(consumers) if thorough else 9000)
    for x in ders:
        bi, ci = divmod(x, len(consumers))
        ki, bj = divmod(bi, len(builders))
        d = "(" + builders[bj].format(k=keys[ki]) + ")"
        rid = f"d{len(reqs)}"
        reqs.append({"id": rid, "src": consumers[ci].format(d=d), "fuel": 100000, "depth": 150, "deadline_ms": 4000})
        meta[rid] = ("derived", builders[bj], consumers[ci], 0)
    # user objects that implement the protocols natives and built-ins call back into (<=>, _incBy, _iter, S, B, ==, call, at, digest, new, _missing),
    # written in Pangaea (so the callee is a Pangaea function with parameters, keywords and a body), rooted at Obj / Comparable / Iterable
    protos = ["{{{body}}}", "Comparable.bear({{{body}}})", "Iterable.bear({{{body}}})", "Int.bear({{{body}}})"]
    body_ = ("new: m{|n| .bear({n: n})}, '<=>: m{|o, k: 0| .n <=> o.n}, _incBy: m{|k, j: 1| .new(.n + k)}, S: m{|base: 10| \"v#{.n}\"}, B: m{.n > 0}, '==: m{|o| .n == o.n}, "
             "_iter: m{[.n, .n + 1]._iter}, call: m{|x, k: 0| [.n, x]}, at: m{|i| .n}, digest: m{|pairs| pairs.len}, n: 0, '+: m{|o| .new(.n + o.n)}, _missing: m{|name| name}")
    cons = ["(V.new(1):V.new(4))@S", "(V.new(1):V.new(4)).A.len", "(V.new(1):V.new(9):V.new(3))@{|e| e.n}", "(V.new(4):V.new(1):V.new(-1)).A", "[V.new(2), V.new(1)].max.n", "[V.new(2), V.new(1)].min.n",
            "V.new(1) < V.new(2)", "V.new(1).between?(V.new(0), V.new(3))", "V.new(5).clip(V.new(0), V.new(3)).n", "V.new(1)@{|e| e}", "V.new(1).A", "V.new(1)$(0)+", "\"#{V.new(3)}\"", "V.new(3).S",
            "V.new(3).p", "[V.new(3)].S", "(1 if V.new(1) else 2)", "(V.new(0) || 5)", "!V.new(1)", "V.new(1) == V.new(1)", "[V.new(1)] == [V.new(1)]", "%{V.new(1): 1}[V.new(1)]", "{a: V.new(1)} == {a: V.new(1)}",
            "[V.new(1), V.new(1)].uniq.len" if False else "[V.new(1), V.new(2)].has?(V.new(2))", "V.new(1)(5)", "[1, 2]@^v1", "v1.call(3, k: 1)", "V.new(7)[2]", "V.new(7)[1:2]", "[1, 2]@(V.new(0)){|e| [e, e]}",
            "V.new(1) + V.new(2)", "[V.new(1), V.new(2)].sum.n", "V.new(1).try.nosuch.A", "V.new(1).nosuch(1, 2)", "V.new(1) === V.new(1)", "1.case(%{V.new(1): 'a})", "[V.new(3), V.new(1), V.new(2)].sort",
            "(V.new(1):V.new(3)).has?(V.new(2))", "(V.new(1):V.new(3))[0]", "(V.new(1):V.new(3)) == (V.new(1):V.new(3))", "V.new(1).bear.n", "V.new(2) ** 2", "-V.new(2)", "V.new(2).keys", "JSON.dec(V.new(2).S)",
            "[V.new(1)].tally", "[V.new(1), V.new(2)].keyBy {|e| e}", "[V.new(1), V.new(2)].index(V.new(2))", "V.new(1).zip([1, 2]).A", "V.new(1).withI.A", "V.new(1).chain(V.new(5)).A"]
    for pk, pt in enumerate(protos):
        pre = "V := " + pt.format(body=body_) + "; v1 := V.new(1)\n"
        for c_ in cons:
            rid = f"P{len(reqs)}"
            reqs.append({"id": rid, "src": pre + c_, "fuel": 60000, "depth": 150, "deadline_ms": 4000})
            meta[rid] = ("protocol", str(pk), c_, 0)
    # one-liners (no source path) working with files of the directory they were started in: several relative invite! / import / read in a row,
    # failing ones in between, modules that invite or import each other
    tree = {"m1.pangaea": "a := 1\n", "m2.pangaea": "b := 2\n", "m3.pangaea": "invite!(\"./m1\"); c := a + 10\n", "bad.pangaea": "x := (1 +\n", "boom.pangaea": "d := 1 / 0\n",
            "sub/m4.pangaea": "invite!(\"../m2\"); e := b * 2\n", "sub/m5.pangaea": "f := import(\"./m4\").e\n"}
    steps = ["invite!(\"./m1\")", "invite!(\"./m2\")", "invite!(\"./m3\")", "invite!(\"./sub/m4\")", "import(\"./m1\").a.p", "import(\"./sub/m5\").f.p", "nil.try.{|u| invite!(\"./bad\")}.A.p",
             "nil.try.{|u| invite!(\"./boom\")}.A.p", "nil.try.{|u| invite!(\"./nosuch\")}.A.p", "nil.try.{|u| import(\"./nosuch\")}.A.p", "_PANGAEA_SOURCE_PATH.p" if False else "nil.try.{|u| _PANGAEA_SOURCE_PATH}.A.p",
             "{|| invite!(\"./m2\"); b}().p", "nil.try.{|u| read(\"./m1.pangaea\")}.A.p", "invite!(\"dummy\")", "\"invite!(\\\"./m1\\\")\".eval", "[1, 2]@{|i| invite!(\"./m1\"); a + i}.p"]
    for x in range(len(steps)):
        for y in range(len(steps)):
            for z in ([None] if not thorough else [None] + list(range(0, len(steps), 3))):
                seq = [steps[x], steps[y]] + ([steps[z]] if z is not None else []) + ["nil.try.{|u| [a, b]}.A.p"]
                rid = f"F{len(reqs)}"
                reqs.append({"id": rid, "mode": "runsource", "src": "\n".join(seq), "files": tree, "main": "", "fuel": 100000, "depth": 150, "deadline_ms": 5000})
                meta[rid] = ("relative-modules", steps[x], steps[y], 0)
    # wide and deep programs: counts around every power of two a table, cache or buffer might be sized by
    for n in ([63, 64, 65, 66, 127, 128, 129, 255, 256, 257, 1023, 1024, 1025, 4097] if thorough else [64, 65, 129, 257, 1025]):
        args = ", ".join(str(k) for k in range(1, n + 1))
        ps = ", ".join(f"p{k}" for k in range(1, n + 1))
        progs_w = [f"xs := (1:{n + 1}).A; {{|a| \\{n}}}(*xs)", f"(1:{n + 1}).A.{{|a, b| \\0.len}}", f"{{|{ps}| p{n}}}({args})", f"[{args}].len", f"[{args}]@{{|x| x}}.sum",
                   "{" + ", ".join(f"k{k}: {k}" for k in range(n)) + "}.keys.len", "%{" + ", ".join(f"{k}: {k}" for k in range(n)) + "}.len",
                   f"o := (1:{n + 1}).A@{{|i| [\"k#{{i}}\", i]}}.O; {{|k1: 0| \\_.keys.len}}(**o)", "[" * min(n, 300) + "1" + "]" * min(n, 300), "(" * min(n, 300) + "1" + ")" * min(n, 300),
                   "x := 0\n" + "x := x + 1\n" * n + "x", "\"" + "#{1}" * n + "\".len", "1" + ".S.I" * min(n, 300), "f := {|x| x}; " + "f(" * min(n, 200) + "1" + ")" * min(n, 200),
                   f"<{{|i| yield i if i < {n}; recur(i + 1)}}>.new(0).A.len", "{|" + ", ".join(f"k{k}: {k}" for k in range(n)) + f"| k{n - 1}}}()",
                   f"it := <{{|{ps}| yield p{n}}}>.new({args}); it.next", "1" + " + 1" * n, "[1]" + "[0:]" * min(n, 300) if False else "[1]" + ".A" * min(n, 300),
                   f"\"a\" * {n} + \"b\" * {n}", f"({n}:0:-1).A.len", "{|x| " * min(n, 100) + "x" + "}" * min(n, 100), f"m{{|{ps}| .S}}.bear.call({args})"]
        for src in progs_w:
            rid = f"W{len(reqs)}"
            reqs.append({"id": rid, "src": src, "fuel": 2000000, "depth": 400, "deadline_ms": 15000})
            meta[rid] = ("wide", str(n), "", 0)
    # iterator literals: every combination of declared parameters, arguments given to new and to recur (too few, exact, too many, keywords), advanced in several ways
    for np_ in range(0, 4):
        ps = ["a", "b", "c"][:np_]
        for nnew in range(0, 5):
            for nrec in range(0, 5):
                for kw in ("", "k: 0"):
                    params = ", ".join(ps + ([kw] if kw else []))
                    guard = f"{ps[0]} < 3" if ps else "true"
                    val = ps[0] if ps else "1"
                    rargs = ", ".join(([f"{ps[0]} + 1"] if ps else ["1"])[:nrec] + [str(k) for k in range(2, nrec + 1)] + (["k: 1"] if kw and nrec % 2 else []))
                    lit = f"<{{|{params}| yield {val} if {guard}; recur({rargs})}}>"
                    nargs = ", ".join(str(k) for k in range(nnew))
                    for use in (".try.next.A", "._iter.try.next.A", "@{|x| x}[:3]", ".{|it| [it.try.next.A, it.try.next.A, it.try.next.A]}"):
                        rid = f"I{len(reqs)}"
                        reqs.append({"id": rid, "src": f"{lit}.new({nargs}){use}", "fuel": 20000, "depth": 100, "deadline_ms": 3000})
                        meta[rid] = ("iter", lit, use, 0)
    # module functions with every kind of argument: import / invite!, the http module's constructors and client (no server is started)
    margs = ["", "1", "nil", '""', '"."', '"./"', '"./nosuch"', '"../../../../etc/passwd"', '"http"', '"http/internal"', '"nosuchmodule"', '"dummy_native_wrong"', "[1]", "{a: 1}", "'sym", '"a" * 5000',
             '"\x00"', '"./\x00"', "Str", "{|x| x}"]
    for a in margs:
        for f in ("import({a})", "invite!({a})", "import({a}, {a})", "nil.try.{{|u| import({a})}}.A", "h := import(\"http\"); h.S.get({a}, {a})", "h := import(\"http\"); h.S.get(\"/x\", {a})",
                  "h := import(\"http\"); h.Response.new(status: {a}, body: {a}, headers: {a})", "h := import(\"http\"); h.Response.new({a}).header({a})", "h := import(\"http\"); h.S.serve({a}, background: true, url: \":0\")()",
                  "i := import(\"http/internal\"); i['newHandler]({a}, {a}, {a})", "i := import(\"http/internal\"); i['newServer]({a})", "i := import(\"http/internal\"); i['stop]({a})",
                  "i := import(\"http/internal\"); i['request](method: {a}, url: \"http://127.0.0.1:1/\", headers: {a})"):
            if a == "" and "{a}, {a}" in f:
                continue
            rid = f"M{len(reqs)}"
            reqs.append({"id": rid, "src": f.format(a=a or ""), "fuel": 100000, "depth": 150, "deadline_ms": 5000})
            meta[rid] = ("module", f, a, 0)
    # the value of a body that ends with each kind of statement, used in every way a value can be used
    stmts = ["defer 1", "defer 1 if true", "defer 1 if false", "return 1", "return 1 if false", "yield 1", "yield 1 if false", "raise Err.new(\"e\")", "raise Err.new(\"e\") if false",
             "x := 1", "1", "nil", "defer (defer 1)", "return (defer 1)", "defer return 1", "yield (defer 1)", "defer yield 1", "defer raise Err.new(\"e\")", "return return 1", "return yield 1",
             # statements whose expression, guard or deferred part FAILS (every jump kind x plain / guarded)
             "defer 1 / 0", "defer 1 / 0 if true", "defer 1 / 0 if false", "defer 1 if 1 / 0", "defer undefinedname if true", "defer 1.nosuch(2) if 1", "return 1 / 0", "return 1 / 0 if true",
             "return 1 if 1 / 0", "yield 1 / 0", "yield 1 / 0 if true", "yield 1 if 1 / 0", "raise 1 / 0", "raise Err.new(\"e\") if 1 / 0", "raise 5", "raise nil if true", "defer (raise Err.new(\"d\")) if true",
             "defer 1 / 0; defer 2 / 0 if true; raise Err.new(\"body\")", "defer \"a\".p if true; 1 / 0", "defer 1 / 0 if true; return 5"]
    uses = ["{{|| {s}}}().p", "[{{|| {s}}}()]", "v := {{|| {s}}}(); v.S", "{{|| {s}}}().try.A", "{{|| {s}}}() == 1", "\"#{{{{|| {s}}}()}}\"", "{{a: {{|| {s}}}()}}.a", "%{{{{|| {s}}}(): 1}}",
            "<{{|| {s}}}>.new.try.next.A", "<{{|| {s}}}>.new.A", "[1, 2]@{{|x| {s}}}", "[1, 2]$(0){{|a, x| {s}}}", "1.{{|x| {s}}}.p", "{{m: m{{{s}}}}}.m.S", "f := {{|| {s}}}; [f(), f()]",
            "{{|| {s}; 2}}()", "{{|| 2; {s}}}().repr", "{s}", "({s})", "[{s}]"]
    for st_ in stmts:
        for u in uses:
            rid = f"v{len(reqs)}"
            reqs.append({"id": rid, "src": u.format(s=st_), "fuel": 20000, "depth": 100, "deadline_ms": 3000})
            meta[rid] = ("stmt-value", st_, u, 0)
    # a seeded sample also through the real script path
    for rq in rng.sample(reqs, max(200, len(reqs) // (20 if thorough else 60))):
        rid = "R" + rq["id"]
        reqs.append(dict(rq, id=rid, mode="runsource"))
        meta[rid] = ("runsource",) + meta[rq["id"]][1:]
    out = run_cases(reqs, label="C01", shard_timeout_s=3000)
    # reprise: calls that ended in an error are made again, three times in ONE process each (an error that was survived must not leave anything behind)
    failed = [rq for rq in reqs if meta[rq["id"]][0] == "call" and out[rq["id"]]["end"].startswith("err:")]
    rep = [dict(rq, id="P" + rq["id"], repeat=3) for rq in failed]
    for rq in rep:
        meta[rq["id"]] = ("reprise",) + meta[rq["id"][1:]][1:]
    rout = run_cases(rep, label="C01 reprise", shard_timeout_s=3000)
    for rq in rep:
        o = rout[rq["id"]]
        runs = o.get("runs") or []
        worst = next((r[-1] for r in runs if classify(r[-1]) not in ("syntax", "value", "panerr", "discarded", "discarded-resource")), None)
        out[rq["id"]] = dict(o, end=worst or o["end"])
    reqs = reqs + rep
    classes = {}
    crashes = []
    for rq in reqs:
        cls = classify(out[rq["id"]]["end"])
        if cls == "discarded-resource":
            ck.cov.setdefault("resource_panics", [])
            if len(ck.cov["resource_panics"]) < 20:
                ck.cov["resource_panics"].append({"src": rq["src"][:120], "end": out[rq["id"]]["end"][:160]})
            cls = "discarded"
        classes[cls] = classes.get(cls, 0) + 1
        if cls not in ("syntax", "value", "panerr", "discarded"):
            crashes.append(rq)
    t = run_tlc("Trace_C01", files={"c01_outcomes.ndjson": ndjson([{"cls": k, "n": v} for k, v in sorted(classes.items())])}, workers=2)
    ck.add_tlc(t, "Trace_C01")
    illegal = {v["cls"] for v in payloads(t, "V ") if not v["legal"]}
    again = pvlib.confirm([{k: v for k, v in rq.items()} for rq in crashes], label="C01 confirm")
    for rq in crashes:
        end = out[rq["id"]]["end"]
        cls = classify(end)
        if cls not in illegal:
            continue
        a = again.get(rq["id"])
        if a and a.get("runs"):       # a repeated request: judged by its worst run, as in the first pass
            a = dict(a, end=next((r[-1] for r in a["runs"] if classify(r[-1]) not in ("syntax", "value", "panerr", "discarded", "discarded-resource")), a["end"]))
        if a and a.get("end") is not None and classify(a["end"]) in ("syntax", "value", "panerr", "discarded"):
            # alone in a new process it does not crash: does it when the same program is evaluated repeatedly in one process (state left behind by an earlier evaluation)?
            b = run_cases([dict(rq, id="again", repeat=4)], nproc=1, label="C01 history confirm")["again"]
            worst = next((r[-1] for r in (b.get("runs") or []) if classify(r[-1]) not in ("syntax", "value", "panerr", "discarded", "discarded-resource")), None)
            if worst is None:
                raise pvlib.Broken(f"flaky crash observation for {rq['src']!r}: {end!r} vs {a['end']!r}")
            rq = dict(rq, repeat=4)
            end = worst
        m = meta[rq["id"]]
        site = re.search(r"@ ([\w/\.]+:\d+)", end)
        what = re.sub(r"0x[0-9a-f]+", "0x..", end.split(" @ ")[0])[:80]
        if m[0] in ("call", "runsource") and len(m) > 2 and m[0] == "call":
            sig = f"C01:call:{m[2]}:{what}:{site.group(1) if site else '-'}"
        else:
            sig = f"C01:{m[0]}:{what}:{site.group(1) if site else '-'}"
        ck.reject(sig, f"{rq['src'][:200]!r} (stdin {len(rq.get('stdin', ''))} bytes): {end}", {"src": rq["src"], "stdin": rq.get("stdin", ""), "mode": rq.get("mode", "prog"), "repeat": rq.get("repeat", 1), "observed": end})
    # ---- interactive sessions: TLC enumerates the sessions PanRepl allows; each is typed into the real REPL
    rr = run_tlc("MC_Repl", cfg="MC_Repl.cfg", defines={"MaxLines": "5" if thorough else "4"}, timeout_s=1500)
    if rr.violation:
        raise pvlib.Broken("PanRepl property violated in the model: " + rr.violation)
    ck.add_tlc(rr, "MC_Repl")
    sessions = payloads(rr, "CASE ")
    cap = 60000 if thorough else 4000
    if len(sessions) > cap:
        sessions = rng.sample(sessions, cap)
    # plus seeded sessions over a wider alphabet (mode words in every capitalisation, token representatives, corpus lines)
    words = ["multi", "single", "Multi", "MULTI", "Single", "SINGLE", "mUlTi", " single", "multi ", "multi;", "single # c", "", "", "x := 1", "x", "'a.p", "{|x|", "}", "1 +", '"abc', "[1,", "]", "<>", "\t"]
    rsess = []
    for _ in range(20000 if thorough else 2000):
        rsess.append([rng.choice(words) if rng.random() < 0.8 else " ".join(rng.choice(reps) for _ in range(rng.randint(1, 3))).replace("\n", " ") for _ in range(rng.randint(1, 8))])
    PROMPT = {"single": ">>> ", "multi": "<< multi-line mode (read lines until empty line is found) >>\n"}
    rreqs = [{"id": f"q{k}", "mode": "repl", "stdin": "".join(l + "\n" for l in c["typed"]), "fuel": 100000, "deadline_ms": 5000} for k, c in enumerate(sessions)]
    rreqs += [{"id": f"Q{k}", "mode": "repl", "stdin": "".join(l + "\n" for l in ls), "fuel": 100000, "deadline_ms": 5000} for k, ls in enumerate(rsess)]
    rreqs += [{"id": f"h{k}", "mode": "replchunks", "progs": [o["src"] for o in c["out"] if o["e"] == "eval"], "fuel": 100000, "deadline_ms": 5000} for k, c in enumerate(sessions)]
    rout = run_cases(rreqs, label="C01 repl", shard_timeout_s=3000)
    header = None
    rdiv = 0
    for rq in rreqs:
        if rq["mode"] != "repl":
            continue
        o = rout[rq["id"]]
        cls = classify(o["end"])
        classes[cls] = classes.get(cls, 0) + 1
        meta[rq["id"]] = ("repl", "", "", 0)
        if cls not in ("syntax", "value", "panerr", "discarded"):
            what = re.sub(r"0x[0-9a-f]+", "0x..", o["end"].split(" @ ")[0])[:80]
            site = re.search(r"@ ([\w/\.]+:\d+)", o["end"])
            ck.reject(f"C01:repl:{what}:{site.group(1) if site else '-'}", f"REPL session {rq['stdin']!r}: {o['end']}", {"src": rq["stdin"], "stdin": rq["stdin"], "mode": "repl", "observed": o["end"]})
    for k, c in enumerate(sessions):
        o, h = rout[f"q{k}"], rout[f"h{k}"]
        if classify(o["end"]) != "value" or h["end"] != "ok":
            continue
        text = o["events"][0][3:]
        if header is None:
            header = text[:text.index(">>> ")]
        evs = [e[3:] for e in h["events"]]
        want, j = header, 0
        for x in c["out"]:
            if x["e"] == "prompt":
                want += PROMPT[x["m"]]
            else:
                want += evs[j]
                j += 1
        if text != want:
            rdiv += 1
            if rdiv <= 5:
                ck.divergence("REPL transcript differs from PanRepl", {"typed": c["typed"], "observed": text[len(header):][:400], "expected": want[len(header):][:400]})
    ck.cov["repl"] = {"sessions_from_spec": len(sessions), "seeded_sessions": len(rsess), "transcripts_differing_from_PanRepl": rdiv}
    reqs = reqs + [rq for rq in rreqs if rq["mode"] == "repl"]
    for rq in rreqs:
        if rq["mode"] == "repl":
            rq["src"] = rq["stdin"]
            out[rq["id"]] = rout[rq["id"]]
    fams = {}
    for rq in reqs:
        fams[meta[rq["id"]][0]] = fams.get(meta[rq["id"]][0], 0) + 1
    ck.cov["families"] = fams
    ck.cov["outcome_classes"] = classes
    ck.cov["evaluations"] = len(reqs)
    ck.cov["distinct_nontrivial"] = classes.get("panerr", 0)
    ck.cov["traces_validated_against_impl"] = len(reqs)
    ck.sample({"src": reqs[1000]["src"], "end": out[reqs[1000]["id"]]["end"]})
    ck.sample({"src": reqs[-1]["src"][:120], "end": out[reqs[-1]["id"]]["end"], "mode": reqs[-1].get("mode")})
    ck.cov["rule"] = (f"call space: {len(POOL)} boundary receivers x every property name reachable along their prototype chains (dumped from the current tree) x argument "
                      f"tuples ({len(argsets)}: none, one from a {len(SUB12) if not thorough else len(POOL)}-value pool, pairs from a sub-pool, keyword / * / ** forms); token space: all pairs of {len(reps)} token "
                      "representatives (from the real lexer over the corpus + malformed tokens) + seeded triples; byte-level mutations of corpus files; index/slice space "
                      "on 15 receivers x 26 indices x 4 forms; derived structures (20 key kinds x 17 builders x 33 consumers: conversions such as Arr#O / Arr#M over descendants of str, then ** / * expansion, "
                      "iteration, printing, JSON); the value of bodies ending in each statement kind (defer / return / yield / raise, guarded, nested) in 20 uses; module functions (import / invite! / http constructors and client) x 20 argument kinds; wide and deep programs (22 shapes x counts 64..1025, thorough 63..4097); user objects implementing the protocols natives call back into (4 roots x 52 consumers); one-liners that invite / import / read files of their directory (16 steps, all pairs); iterator literals (0..3 parameters x 0..4 arguments to new x 0..4 to recur x keywords x 4 ways to advance); calls that ended in an error made three more times in one process; stdin shapes through <>; interactive sessions: sessions of <= 4 (thorough 5) lines over 12 line kinds that PanRepl allows (quick: 4000 seeded of 22621; thorough: 60000 seeded of all), typed into "
                      "runscript.StartREPL and compared with the transcript PanRepl prescribes (chunks evaluated in one scope), + seeded sessions over mode words in every capitalisation; a seeded sample again through runscript.RunSource; non-trivial = runs ending in a "
                      "Pangaea error (a built-in was reached with arguments it has to reject)")
    ck.assumptions = ["programs cut off by the evaluation fuel / depth / deadline / heap watchdog are discarded (the property's proviso)",
                      "Go runtime resource-exhaustion panics (makeslice, Repeat overflow) are classified as discarded"]
    return ck.finish()


def replay(path):
    c = json.load(open(path))["case"]
    o = run_cases([{"id": "r", "src": c["src"], "stdin": c.get("stdin", ""), "mode": c.get("mode", "prog"), "repeat": c.get("repeat", 1)}], nproc=1)["r"]
    o["end"] = next((r[-1] for r in (o.get("runs") or []) if classify(r[-1]) not in ("syntax", "value", "panerr", "discarded", "discarded-resource")), o["end"])
    print(c["src"][:200], "=>", o["end"])
    if classify(o["end"]) not in ("syntax", "value", "panerr", "discarded"):
        print(f"VIOLATION property=C01 replay={path}")
        return 1
    return 0

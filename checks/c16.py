"""C16 layout volume, token length and input chunking.

Design level: PanLexer (reader + buffer + longest-match scanner).  With the "whole input" policy TLC shows, for every
input up to MaxLen abstract characters and every chunk schedule, that the token stream equals the ideal max-munch
tokenisation (ChunkIndependence) and that padding a line break keeps it (LayoutEquivalence); the "window" policy of
the pinned lexer violates ChunkIndependence (non-vacuity).
Binding: token streams (hook H2) and printed trees of the real lexer/parser for base texts and their variants (other
read schedules, padded line breaks, longer tokens) are validated against PanLexer's relations by Trace_C16."""
import glob, json, os
import pvlib
from pvlib import Check, run_tlc, run_cases, payloads, ndjson

SIZES = [1, 2, 1023, 1024, 1025, 2047, 2048, 2049, 5000]
CHUNKS = [[1], [2], [3, 5], [7], [64], [1023], [1024], [1025], [2047], [2048, 1], [4096], [1, 2047],
          # readers that use what io.Reader allows: the last bytes arrive together with io.EOF (0), reads that return nothing (-1)
          [0], [0, 7], [0, 2048], [0, 100000], [-1, 3], [-1, 0, 1024], [-1, 1]]
LAYOUT = ("RET", "MULTILINE_ADD_CHAIN", "MULTILINE_MAIN_CHAIN")


def corpus():
    files = sorted(glob.glob(os.path.join(pvlib.REPO, "tests", "*.pangaea"))) + \
        sorted(glob.glob(os.path.join(pvlib.REPO, "example", "**", "*.pangaea"), recursive=True)) + \
        sorted(glob.glob(os.path.join(pvlib.REPO, "native", "*.pangaea")))
    out = []
    for f in files:
        try:
            s = open(f, encoding="utf-8").read()
        except Exception:
            continue
        if s.strip():
            out.append((os.path.relpath(f, pvlib.REPO), s.replace("\r\n", "\n")))
    return out


def toks_of(resp):
    ts = []
    for e in resp["events"]:
        name, line, col, lit = e.split("|", 3)
        ts.append((name, int(line), int(col), lit))
    return ts


def norm(ts, ast):
    rows = []
    for name, line, col, lit in ts:
        t = lit
        if name.startswith("MULTILINE"):
            t = lit[lit.rfind("|"):]
        rows.append({"k": "RET" if name == "RET" else name, "t": "" if name == "RET" else t})
    rows.append({"k": "AST", "t": ast})
    return rows


def offsets(src):
    offs, o = [0], 0
    for line in src.split("\n"):
        o += len(line.encode()) + 1
        offs.append(o)
    return offs


GENERATED = [
    "[1, 2, 3]\n  |@{|x| x * 2}\n  |.sum\n",
    "a := [1, nil, 3]\n  |&@S\n  |~.len\na\n",
    "x := 5\n  |.S\n  |=@{\\}\n  |$(\"\")+\nx\n",
    "[\n  1,\n  2,\n  3,\n]\n",
    "{\n  a: 1,\n  b: 2,\n}\n",
    "%{\n  1: 'a,\n  \"b\": 2,\n}\n",
    "f := {|x,\n  y|\n  z := x + y\n  z * 2\n}\nf(\n  1,\n  2,\n)\n",
    "o := {m: m{|a|\n  defer a.p\n  return a if a\n  a\n}}\no.m(\n  1\n)\n",
    "it := <{|i|\n  yield i if i < 3\n  recur(i + 1)\n}>\nit.new(0)\n  |@{\\}\n",
    "s := \"a#{ 1 +\n 2 }b\"\n`raw\nstr`\n# tail comment",
    # CRLF sources (the native sources are CRLF) with raw strings spanning lines, blank lines and comments
    "s := `a\r\nbc\r\n\r\nd`\r\ns.len\r\n",
    "x := [\r\n  `l1\r\nl2`,\r\n  2,\r\n]\r\n# c\r\nx\r\n  |@{|e| e}\r\n  |.len\r\n",
]


def pad_text(style, k):
    if style == "indent":
        return (" \t" * (k // 2 + 1))[:max(1, k - 1)] + "\n"
    if style == "blank":
        return "\n" * k
    if style == "comment":
        return "#" + "c" * max(0, k - 2) + "\n"
    if style == "barcomment":      # comment lines that contain the characters chain continuations start with
        unit = "# a | b |> c |@d ||\n#|.e\n"
        return "#|\n" if k <= 3 else (unit * (k // len(unit) + 1))[:k - 1].rsplit("\n", 1)[0] + "\n" if k > len(unit) else "# a | b |@c\n"
    if style == "oddcomment":      # comment lines with bytes a reader might treat specially: NUL, other control characters, DEL, multi-byte characters
        unit = "# a\x00b\x01\x7f \u00e9 \u6f22 \x00\n"
        return (unit * (k // len(unit) + 1))[:max(1, k - 1)].rsplit("\n", 1)[0] + "\n" if k > len(unit) else "#\x00\n"
    if style == "mixed":
        unit = " \t# x y\n"
        return (unit * (k // len(unit) + 1))[:max(1, k - 1)].rsplit("\n", 1)[0] + "\n" if k > len(unit) else "\n"
    raise ValueError(style)


def long_programs():
    progs = []
    for L in [1, 100, 1023, 1024, 1025, 2047, 2048, 2049, 3071, 3072, 4097, 10000]:
        for O in [0, 1000, 1024, 2040]:
            pre = ""
            while len(pre) < O:
                pre += f"p{len(pre)} := 0\n"
            def mk(n, kind):
                if kind == "str":
                    return pre + 's := "' + "a" * n + '"\ns.len\n', "DOUBLEQUOTE_STR", n + 2, f"val:{n}"
                if kind == "raw":
                    body = ("ab\n" * (n // 3 + 1))[:n]
                    return pre + "s := `" + body + "`\ns.len\n", "BACKQUOTE_STR", n + 2, f"val:{n}"
                if kind == "comment":
                    return pre + "x := 1 #" + "c" * n + "\nx + 1\n", "RET", n + 2, "val:2"
                if kind == "ident":
                    name = "v" + "a" * (n - 1) if n > 1 else "v"
                    return pre + name + " := 5\n" + name + " + 1\n", "IDENT", n, "val:6"
                if kind == "blank":
                    return pre + "x := 1" + "\n" * n + "x + 1\n", "RET", n, "val:2"
            for kind in ("str", "raw", "comment", "ident", "blank"):
                progs.append((kind, L, O, mk(3, kind), mk(L, kind)))
    return progs


def run():
    ck = Check("C16")
    thorough = ck.tier == "thorough"
    rng = ck.rng
    maxlen = 5 if thorough else 4
    r1 = run_tlc("MC_C16", cfg="MC_C16.cfg", defines={"MaxLen": str(maxlen)}, timeout_s=1700)
    if r1.violation:
        raise pvlib.Broken("PanLexer (whole-input policy) violates " + r1.violation)
    ck.add_tlc(r1, f"MC_C16 whole MaxLen={maxlen}")
    r2 = run_tlc("MC_C16", cfg="MC_C16_window.cfg", defines={"MaxLen": "4"}, expect_violation=True)
    if r2.violation != "ChunkIndependence":
        raise pvlib.Broken("the window-policy lexer model no longer violates ChunkIndependence (vacuous model)")
    ck.cov["nonvacuity"] = "MC_C16_window violates ChunkIndependence as expected"

    files = corpus()
    if len(files) < 50:
        raise pvlib.Broken("corpus not found")
    ncorpus = len(files)
    files = files + [(f"generated-{n}", g) for n, g in enumerate(GENERATED)]
    base_reqs = []
    for i, (name, src) in enumerate(files):
        base_reqs.append({"id": f"t{i}", "mode": "tokens", "src": src})
        base_reqs.append({"id": f"a{i}", "mode": "parse", "src": src})
    base = run_cases(base_reqs, label="C16 base")
    reqs, meta = [], {}
    nsel_pos, nsel_pad = (6, 4) if thorough else (2, 2)
    nchunk = len(CHUNKS) if thorough else 3
    usable = 0
    for i, (name, src) in enumerate(files):
        if base[f"t{i}"]["end"] != "ok" or not base[f"a{i}"]["end"].startswith("ast:"):
            continue
        usable += 1
        ts = toks_of(base[f"t{i}"])
        offs = offsets(src)
        b = src.encode()
        for ch in (CHUNKS if i >= ncorpus else rng.sample(CHUNKS, nchunk)):      # generated programs: every schedule
            rid = f"c{i}.{len(reqs)}"
            reqs.append({"id": rid + "t", "mode": "tokens", "src": src, "chunks": ch})
            reqs.append({"id": rid + "a", "mode": "parse", "src": src, "chunks": ch})
            meta[rid] = ("chunk", i, f"chunks={ch}")
        spots, spot_kinds = [], []
        for name_, line, col, lit in ts:
            if name_ in LAYOUT and "\n" in lit and line < len(offs):
                o = offs[line] + col
                if b[o:o + len(lit.encode())] == lit.encode():
                    spots.append(o + lit.encode().index(b"\n"))
                    spot_kinds.append(name_)
        STYLES = ["blank", "comment", "mixed", "spaces", "indent", "barcomment", "trailbar", "oddcomment"]
        plan = []
        if i >= ncorpus:       # generated programs: every line break x every style x small and boundary sizes
            plan = [(o, st, k) for o in spots for st in STYLES for k in (1, 3, 1024, 2049)]
        else:
            chain_spots = [o for (o, nm) in zip(spots, spot_kinds) if nm != "RET"][:3]
            plan = [(o, st, rng.choice([1, 2, 3, 1025])) for o in chain_spots for st in ("indent", "mixed", "comment", "barcomment", "trailbar", "oddcomment")]
            for o in rng.sample(spots, min(nsel_pos, len(spots))):
                for _ in range(nsel_pad):
                    plan.append((o, rng.choice(STYLES), rng.choice(SIZES)))
        for (o, style, k) in plan:
            if True:
                if style == "spaces":
                    v = b[:o] + (b" " * (k // 2) + b"\t" * (k - k // 2)) + b[o:]
                elif style == "trailbar":      # a trailing comment on the line that ends here
                    v = b[:o] + b" # t | u" + b"|" * k + b[o:]
                else:
                    v = b[:o + 1] + pad_text(style, k).encode() + b[o + 1:]
                rid = f"l{i}.{len(reqs)}"
                vs = v.decode()
                reqs.append({"id": rid + "t", "mode": "tokens", "src": vs})
                reqs.append({"id": rid + "a", "mode": "parse", "src": vs})
                meta[rid] = ("layout", i, f"{style} x{k} at byte {o}")
    longs = long_programs()
    for n, (kind, L, O, short, long_) in enumerate(longs):
        for tag, pr in (("s", short), ("l", long_)):
            reqs.append({"id": f"g{n}{tag}t", "mode": "tokens", "src": pr[0]})
            reqs.append({"id": f"g{n}{tag}a", "mode": "parse", "src": pr[0]})
            reqs.append({"id": f"g{n}{tag}v", "src": pr[0]})
            # the same long programs through an unfriendly reader
            reqs.append({"id": f"g{n}{tag}c", "src": pr[0], "chunks": [1023, 1]})
    out = run_cases(reqs, label="C16 variants")
    rows, info = [], {}
    for rid, (mode, i, what) in meta.items():
        t, a = out[rid + "t"], out[rid + "a"]
        rows.append({"id": rid, "mode": mode, "a": norm(toks_of(base[f"t{i}"]), base[f"a{i}"]["end"]),
                     "b": norm(toks_of(t), a["end"] if t["end"] == "ok" else a["end"] + "/" + t["end"]), "got": 0, "want": 0})
        info[rid] = (files[i][0], what, reqs)
    for n, (kind, L, O, short, long_) in enumerate(longs):
        st, lt = toks_of(out[f"g{n}st"]), toks_of(out[f"g{n}lt"])
        # the token under test is the first one whose text differs between the short and the long program
        diff = [k for k in range(min(len(st), len(lt))) if st[k][3] != lt[k][3]]
        if not diff:
            got = long_[2] if len(st) == len(lt) else -1
        else:
            got = len(lt[diff[0]][3].encode()) if lt[diff[0]][0] == long_[1] else -1
        rows.append({"id": f"g{n}", "mode": "long", "a": norm(st, "-"), "b": norm(lt, "-"), "got": got, "want": long_[2]})
        info[f"g{n}"] = (f"generated {kind}", f"token length {L} at offset ~{O}", None)
    res = run_tlc("Trace_C16", files={"c16.ndjson": ndjson(rows)}, timeout_s=1700)
    ck.add_tlc(res, "Trace_C16")
    verdicts = {v["id"]: v["ok"] for v in payloads(res, "V ")}
    if len(verdicts) != len(rows):
        raise pvlib.Broken(f"Trace_C16 returned {len(verdicts)} verdicts for {len(rows)} rows")
    nontrivial = 0
    by_id = {r["id"]: r for r in rows}
    for rid, ok in verdicts.items():
        fname, what, _ = info[rid]
        r = by_id[rid]
        if r["mode"] != "chunk" or True:
            nontrivial += 1
        if not ok:
            kinds_a, kinds_b = [x["k"] for x in r["a"]], [x["k"] for x in r["b"]]
            first = next((k for k in range(min(len(kinds_a), len(kinds_b))) if r["a"][k] != r["b"][k] and
                          not (r["a"][k]["k"] == "RET" == r["b"][k]["k"])), min(len(kinds_a), len(kinds_b)))
            sig = f"C16:{r['mode']}:{what.split(' at ')[0] if r['mode'] != 'long' else fname}"
            ck.reject(sig, f"{fname}: variant ({what}) is not lexed/parsed like the base; first difference at token {first}: "
                           f"{r['a'][first] if first < len(r['a']) else None} vs {r['b'][first] if first < len(r['b']) else None}",
                      {"file": fname, "variant": what, "mode": r["mode"], "first_diff_index": first,
                       "base_token": r["a"][first] if first < len(r["a"]) else None,
                       "variant_token": str(r["b"][first])[:300] if first < len(r["b"]) else None, "got": r["got"], "want": r["want"]})
    # semantic confirmation that long tokens keep their full text (value of the program), also through a short-read reader
    for n, (kind, L, O, short, long_) in enumerate(longs):
        for tag, pr in (("s", short), ("l", long_)):
            for suffix, how in (("v", "single read"), ("c", "reads of 1023,1 bytes")):
                end = out[f"g{n}{tag}{suffix}"]["end"]
                if end != pr[3] and not end.startswith(("discarded:", "fuel:")):
                    ck.reject(f"C16:long-token-value:{kind}", f"{kind} token of length {L if tag == 'l' else 3} at offset ~{O} ({how}): "
                                                             f"program gives {end}, expected {pr[3]}",
                              {"kind": kind, "length": L, "offset": O, "reader": how, "observed": end, "expected": pr[3]})
    # "of any length": the same five token kinds far beyond every buffer size (64 KiB, 1 MiB), judged by the value of the program,
    # read in one piece, through a short-read reader, and typed as lines into the REPL (whose reader has a line buffer of its own)
    def huge(kind, n):
        if kind == "str":
            return ['(s := "' + "a" * n + '").len'], str(n)
        if kind == "raw":
            return ["(s := `" + "b" * n + "`).len"], str(n)
        if kind == "comment":
            return ["x := 1 #" + "c" * n, "x + 1"], "2"
        if kind == "ident":
            name = "v" + "a" * (n - 1)
            return [name + " := 5; " + name + " + 1"], "6"
        return ["x := 1" + "\n" * n + "x + 1"], "2"       # blank: a run of empty lines (not for the REPL, where an empty line is an input of its own)
    hreqs, hmeta = [], []
    for L in [4095, 4096, 4097, 8192, 65535, 65536, 65537, 131072, 1048570, 1048576, 1048577, 1048700, 2500000]:
        for kind in ("str", "raw", "comment", "ident", "blank"):
            lines, want = huge(kind, L)
            src = "\n".join(lines) + "\n"
            for how, rq in (("single read", {"src": src}), ("reads of 4096 bytes", {"src": src, "chunks": [4096]}), ("reads of 65536,1 bytes", {"src": src, "chunks": [65536, 1]}),
                            ("REPL", {"mode": "repl", "stdin": src})):
                if how == "REPL" and kind == "blank":
                    continue
                rid = f"H{len(hreqs)}"
                hreqs.append(dict(rq, id=rid, fuel=100000, deadline_ms=20000))
                hmeta.append((kind, L, how, want, len(lines)))
    hout = run_cases(hreqs, label="C16 huge tokens")
    for rq, (kind, L, how, want, nlines) in zip(hreqs, hmeta):
        o = hout[rq["id"]]
        if o["end"].startswith(("discarded:", "fuel:")):
            continue
        if how == "REPL":
            text = o["events"][0][3:] if o["events"] else ""
            body = text[text.index(">>> "):] if ">>> " in text else text
            # one prompt per line typed plus the final one; the last value printed is the program's
            vals = [x for x in body.split(">>> ")]
            ok = o["end"] == "exit:0" and len(vals) == nlines + 2 and vals[-2].strip() == want
            got = f"{o['end']} prompts={len(vals) - 1} last={vals[-2][:40] if len(vals) > 1 else ''!r}"
        else:
            ok = o["end"] == "val:" + want
            got = o["end"][:80]
        if not ok:
            ck.reject(f"C16:huge-token:{kind}:{'repl' if how == 'REPL' else 'file'}", f"{kind} token of length {L} ({how}): program gives {got}, expected {want}",
                      {"kind": kind, "length": L, "reader": how, "observed": got, "expected": want})
    ck.cov["huge_token_programs"] = len(hreqs)
    # OPTIONAL line breaks of the grammar (after an opening bracket, after a comma, before the closing bracket, around a parameter list): a program
    # written with such a break - padded or not - is the program written without it.  `~` marks the positions the grammar allows.
    opt = ["f(~1,~ 2~)", "f(~1,~ k: 2~)", "f(~**a~)", "f(~1,~ k: 2,~ **a~)", "f(~1,~ **a,~ **b~)", "f(~k: 2,~ **a~)", "o.m(~1,~ **a~)", "o.m(~1,~ k: 2,~ **a,~ **b~)", "[1, 2]@(~[]){|x| x}",
           "[~1,~ 2~]", "[~*a,~ 2~]", "[~1~]", "{~a: 1,~ b: 2~}", "{~a: 1,~ **o~}", "{~**o,~ **p~}", "{~a: 1~}", "%{~1: 2,~ 3: 4~}", "%{~1: 2,~ **m~}", "%{~**m~}", "%{~**m,~ **n~}",
           "{~|a,~ b~|~ a~}", "m{~|a~|~ .x~}", "<{~|a~|~ yield a~}>", "{~||~ 1~}", "{~|a, k: 1,~ j: 2~|~ a~}", "x.{~|a~|~ a~}", "f(~[~1,~ 2~],~ {~a: 1~}~)", "%{~|1|~ 2,~ |3|~ 4~}",
           "x.f(~1,~ 2~).g(~k: 3,~ **a~)", "[~[~1~],~ [~2,~ 3~]~]", "r := f(~1,~ k: 2,~ **a~); r"]
    pads = ["\n", "\n\n\n", "\n  # c | d\n", " \t\n    ", "\n#\n\n \n"]
    oreqs, ometa = [], []
    for t in opt:
        parts = t.split("~")
        flat = "".join(parts)
        oreqs.append({"id": f"O{len(oreqs)}", "mode": "parse", "src": flat})
        ometa.append((flat, None))
        for i in range(1, len(parts)):
            for pd in pads:
                oreqs.append({"id": f"O{len(oreqs)}", "mode": "parse", "src": "".join(parts[:i]) + pd + "".join(parts[i:])})
                ometa.append((flat, f"break at position {i} of {t!r} padded with {pd!r}"))
        for pd in pads:
            oreqs.append({"id": f"O{len(oreqs)}", "mode": "parse", "src": pd.join(parts)})
            ometa.append((flat, f"breaks at every position of {t!r} padded with {pd!r}"))
    oout = run_cases(oreqs, label="C16 optional breaks")
    flat_ast = {}
    for rq, (flat, what) in zip(oreqs, ometa):
        if what is None:
            flat_ast[flat] = oout[rq["id"]]["end"]
            if not flat_ast[flat].startswith("ast:"):
                raise pvlib.Broken(f"the one-line form {flat!r} does not parse: {flat_ast[flat][:100]}")
    for rq, (flat, what) in zip(oreqs, ometa):
        if what is not None and not oout[rq["id"]]["end"].startswith("discarded:") and oout[rq["id"]]["end"] != flat_ast[flat]:
            ck.reject("C16:optional-break:" + flat.split("(")[0].split("{")[0].split("[")[0][:8], f"{what}: parses to {oout[rq['id']]['end'][:160]}, the one-line form to {flat_ast[flat][:160]}",
                      {"src": rq["src"], "one_line": flat, "observed": oout[rq["id"]]["end"][:600], "expected": flat_ast[flat][:600]})
    ck.cov["optional_break_programs"] = len(oreqs)
    # the REPL's multi-line reader hands the typed block to the parser as it was typed: indentation, trailing blanks and lines made of blanks
    # only (they do not end the block - an EMPTY line does) are layout like anywhere else
    blocks = ["[1,\n  2,\n  3].sum", "s := `a\n  b\n c \n\td`\ns.len", "{\n  a: 1,\n\t b: 2\n}.keys", "[1,\n   \n 2].len", "f := {|a,\n      b|\n  a + b\n}\nf(1,\n  2)",
              "x := 5  \n  x + 1\t", "\"q\" +\n   \" r \"" if False else "y := \" r \"\n  y.len", "  # comment first\n  7", "%{1: 2,\n \t\n  3: 4}.len", "[1, 2]\n  |@{|e| e * 2}\n\t|$(0)+"]
    rreqs = []
    for k, b in enumerate(blocks):
        rreqs.append({"id": f"R{k}", "mode": "repl", "stdin": "multi\n" + b + "\n\n", "fuel": 100000, "deadline_ms": 5000})
        rreqs.append({"id": f"H{k}", "mode": "replchunks", "progs": [b + "\n"], "fuel": 100000, "deadline_ms": 5000})
    rout = run_cases(rreqs, label="C16 REPL blocks")
    MULTI = "<< multi-line mode (read lines until empty line is found) >>\n"
    for k, b in enumerate(blocks):
        o, h = rout[f"R{k}"], rout[f"H{k}"]
        text = o["events"][0][3:] if o["events"] else ""
        body = text[text.index(">>> "):] if ">>> " in text else text
        want = ">>> nil\n" + MULTI + (h["events"][0][3:] if h["events"] else "<no reference>") + MULTI
        if o["end"].startswith(("discarded:", "fuel:")) or h["end"].startswith(("discarded:", "fuel:")):
            continue
        if o["end"] != "exit:0" or h["end"] != "ok" or body != want:
            ck.reject("C16:repl-block", f"typed into the REPL's multi-line mode, the block {b!r} prints {body[-200:]!r}; parsed as written it gives {want[-200:]!r}",
                      {"block": b, "observed": body[-600:], "expected": want[-600:]})
    ck.cov["repl_block_programs"] = len(blocks)
    ck.sample({"file": files[0][0], "variant": list(meta.values())[0][2], "tokens": len(rows[0]["a"])})
    ck.sample({"long": longs[7][0], "L": longs[7][1], "offset": longs[7][2]})
    ck.cov["evaluations"] = len(reqs)
    ck.cov["distinct_nontrivial"] = nontrivial
    ck.cov["traces_validated_against_impl"] = len(rows)
    ck.cov["corpus_files_used"] = usable
    ck.cov["rule"] = (f"corpus = {len(files)} Pangaea files of the repository (tests/, example/, native/); per file: read schedules from {CHUNKS}, "
                      f"line breaks (RET and multi-line chain tokens) padded with blank/comment/comment-with-bars/trailing-comment/mixed/space layout of sizes {SIZES}; generated programs "
                      "with string/raw-string/comment/identifier/blank-run tokens of length 1..10000 at offsets 0..2040, and of length 4095..2500000 judged by value (file, short reads, REPL lines); each variant's token stream + "
                      "tree is validated against the base by Trace_C16; non-trivial = validated variants")
    ck.assumptions = ["ast String() does not print source positions", "layout-carrying tokens are RET and MULTILINE_*_CHAIN"]
    return ck.finish()


def replay(path):
    print("re-run `python3 pv.py C16`; the failing variant is described in", path)
    return run()

"""C17 literals and names.

(A) MC_C17: TLC enumerates literal spellings (decimal/hex/octal/binary/exponent ints with `_`, quoted and raw strings
    as sequences of pieces incl. documented, undefined and undocumented escapes, identifiers incl. reserved-word
    derivatives) and PanLiterals prescribes the outcome (exact value over BigInt / reject / a working name); every
    spelling is replayed in the real interpreter.
(B) Trace_C17: float literals evaluated by the interpreter are validated as the nearest double to the written
    decimal with integer arithmetic (PanArith.RoundedQuotient)."""
import ast, json, math, re
import pvlib
from pvlib import Check, run_tlc, run_cases, payloads, ndjson

B = 32768
PREFIX = {"dec": "", "hex": "0x", "oct": "0o", "bin": "0b", "exp": ""}


def unbig(v):
    n = 0
    for limb in reversed(v["m"]):
        n = n * B + limb
    return -n if v["neg"] else n


def big(n):
    neg, n, m = n < 0, abs(n), []
    while n:
        m.append(n % B)
        n //= B
    return {"neg": neg, "m": m}


def extra_spellings(rng, thorough):
    rows = []
    for n in [2**63 - 1, 2**63, 2**63 + 1, 2**64, 10**19, 10**19 - 1, 99999999999999999999, 2**53 + 1, 2**62, 12345678901234567890,
              9223372036854775799, 18446744073709551615, 9007199254740993]:
        rows.append({"kind": "dec", "cs": list(str(n)), "e": 0})
        rows.append({"kind": "dec", "cs": list(f"{n:_}"), "e": 0})
        rows.append({"kind": "hex", "cs": list(f"{n:x}"), "e": 0})
        rows.append({"kind": "hex", "cs": list(f"{n:X}"), "e": 0})
        rows.append({"kind": "oct", "cs": list(f"{n:o}"), "e": 0})
        rows.append({"kind": "bin", "cs": list(f"{n:b}"), "e": 0})
    for m, e in [("100000000000000000000000", -20), ("123456789012345678901234", -10), ("9223372036854775807000", -3), ("9223372036854775808000", -3), ("1" + "0" * 40, -40),
                 ("1" + "0" * 40, -22), ("5" + "0" * 30, -30), ("12345678901234567890", -1), ("12345678901234567890", -2), ("1", 18), ("1", 19), ("9", 18), ("10", 18), ("92", 17), ("93", 17), ("95", 17), ("9999", 15), ("922337203685477580", 1),
                 ("922337203685477581", 1), ("9223372036854775807", 0), ("9223372036854775808", 0), ("12345678901234567", 1),
                 ("9007199254740993", 0), ("1", 400), ("0", 400), ("100", -2), ("15", -1), ("1", -3), ("123456789", 10), ("1_0", 2)]:
        rows.append({"kind": "exp", "cs": list(m), "e": e})
    for _ in range(3000 if thorough else 400):
        k = rng.choice(["dec", "hex", "oct", "bin", "exp"])
        base = {"dec": "0123456789", "hex": "0123456789abcdefABCDEF", "oct": "01234567", "bin": "01", "exp": "0123456789"}[k]
        n = rng.randint(1, {"dec": 21, "hex": 18, "oct": 24, "bin": 66, "exp": 19}[k])
        cs = [rng.choice(base) for _ in range(n)]
        for _ in range(rng.randint(0, 2)):
            if len(cs) > 2:
                cs.insert(rng.randint(1, len(cs) - 1), "_")
        rows.append({"kind": k, "cs": cs, "e": rng.randint(-3, 22) if k == "exp" else 0})
    for _ in range(1500 if thorough else 300):      # long mantissas with exponents that bring them back into range
        n = rng.randint(15, 30)
        cs = [rng.choice("123456789")] + [rng.choice("0123456789") for _ in range(n - 1)]
        rows.append({"kind": "exp", "cs": cs, "e": -rng.randint(max(0, n - 20), n + 2)})
    return rows


def float_spellings(rng, thorough):
    lits = ["0.1", "0.5", "0.0", "1.0", "0.30000000000000004", "9007199254740993.0", "123456789012345678.0", "1.7976931348623157e308",
            "2.2250738585072014e-308", "1.0e-3", "1_234.567", "0.1e1", "5.0e-1", "1.5e300", "4.35", "2.675", "1.005", "0.000001", ".5", "3.14159",
            # around the largest double: representable, rounding to it, and beyond it (must be rejected), plain and with exponent
            "1.7976931348623158e308", "1.79769313486231580793e308", "1.797693134862315808e308", "1.8e308", "1.0e309", "0.1e310", "17976931348623157" + "0" * 292 + ".0",
            "17976931348623159" + "0" * 292 + ".0", "1" + "0" * 308 + ".0", "1" + "0" * 309 + ".0", "1" + "0" * 400 + ".5", "9" * 320 + ".9", "2.0e1024"]
    for _ in range(6000 if thorough else 1500):
        ip = "".join(rng.choice("0123456789") for _ in range(rng.randint(0, 4)))
        if len(ip) > 2 and rng.random() < 0.2:
            ip = ip[:1] + "_" + ip[1:]
        fp = "".join(rng.choice("0123456789") for _ in range(rng.randint(1, 5)))
        s = ip + "." + fp
        if rng.random() < 0.6:
            s += rng.choice("eE") + str(rng.randint(-25, 25))
        lits.append(s)
    return lits


def classify_int(c):
    n = unbig(c["v"])
    mag = "fits" if -2**63 <= n < 2**63 else "overflow"
    return f"{c['kind']}:{mag}:{'sep' if '_' in c['cs'] else 'plain'}"


def name_class(w):
    s = "".join(w)
    for kw in ("if", "else", "return", "raise", "yield", "defer"):
        if kw in s and s != kw:
            return "reserved-substring"
    if re.fullmatch(r"_+[0-9].*", s):
        return "_digit"
    if re.fullmatch(r"_+[?!]", s):
        return "_suffix"
    if s.endswith(("?", "!")):
        return "suffix"
    if re.fullmatch(r"_+", s):
        return "underscores"
    return "plain"


def run():
    ck = Check("C17")
    thorough = ck.tier == "thorough"
    rng = ck.rng
    consts = {"MaxDigits": "5" if thorough else "4", "MaxPieces": "3" if thorough else "2", "MaxName": "4" if thorough else "3"}
    res = run_tlc("MC_C17", defines=consts, files={"c17_extra.ndjson": ndjson(extra_spellings(rng, thorough))}, timeout_s=1700)
    if res.violation:
        raise pvlib.Broken("PanLiterals model-level check failed: " + res.violation)
    ck.add_tlc(res, f"MC_C17 {consts}")
    cases = payloads(res, "CASE ")
    variants = [("committed", pvlib.build_worker("committed"))]
    regen = pvlib.build_worker("regen")
    if regen:
        variants.append(("regenerated-y.go", regen))
    total, nontrivial = 0, set()
    for label, binary in variants:
        reqs = []
        for i, c in enumerate(cases):
            k, text = c["kind"], "".join(c["cs"])
            if k in PREFIX:
                reqs.append({"id": f"{i}", "src": PREFIX[k] + text + (f"e{c['e']}" if k == "exp" else "")})
            elif k == "str":
                reqs.append({"id": f"{i}", "src": '"' + text + '"'})
                reqs.append({"id": f"{i}x", "src": '["' + text + '", "zz"]'})         # the same literal followed by another one on the line
            elif k == "raw":
                reqs.append({"id": f"{i}", "src": "`" + text + "`"})
            elif k == "name":
                reqs.append({"id": f"{i}v", "src": f"{text} := 1; {text} + 1"})
                reqs.append({"id": f"{i}p", "src": f"{{{text}: 1}}.{text}"})
                reqs.append({"id": f"{i}s", "src": f"'{text}"})
                reqs.append({"id": f"{i}k", "src": f"{{{text}: 1}}.keys(private?: true)"})
                reqs.append({"id": f"{i}K", "src": f"{{{text}: 1}}.keys"})
                reqs.append({"id": f"{i}c", "src": f"'{text}({{{text}: 5}})"})
                reqs.append({"id": f"{i}q", "src": f"'{text}.sym?"})
        out = run_cases(reqs, binary=binary, label=f"C17 {label}")
        total += len(reqs)
        for i, c in enumerate(cases):
            k, text, oc = c["kind"], "".join(c["cs"]), c["outcome"]
            if k in PREFIX:
                end = out[f"{i}"]["end"]
                src = PREFIX[k] + text + (f"e{c['e']}" if k == "exp" else "")
                if pvlib.is_host_crash(end):
                    ck.reject("C17:literal-panic", f"{src}: {end}", {"src": src, "observed": end})
                elif oc == "value":
                    want = f"val:{unbig(c['v'])}"
                    nontrivial.add(src)
                    if end != want:
                        ck.reject(f"C17:int:{classify_int(c)}:wrong-value", f"{src} evaluates to {end}, its spelling denotes {want[4:]}",
                                  {"src": src, "observed": end, "expected": want, "variant": label})
                elif oc == "reject":
                    nontrivial.add(src)
                    if end.startswith("val:"):
                        ck.reject(f"C17:int:{classify_int(c)}:accepted", f"{src} denotes {unbig(c['v'])} (not representable) but evaluates to {end}",
                                  {"src": src, "observed": end, "expected": "rejected", "variant": label})
                elif oc == "undetermined":
                    ck.divergence("exponent form that does not denote an integer", {"src": src, "observed": end})
                ck.sample({"src": src, "outcome_by_spec": oc, "observed": end})
            elif k in ("str", "raw"):
                end = out[f"{i}"]["end"]
                src = reqs and ('"' + text + '"' if k == "str" else "`" + text + "`")
                if pvlib.is_host_crash(end):
                    ck.reject("C17:literal-panic", f"{src}: {end}", {"src": src, "observed": end})
                elif oc == "value":
                    nontrivial.add(src)
                    got = None
                    if end.startswith('val:"'):
                        try:
                            got = [ord(ch) for ch in ast.literal_eval(end[4:])]
                        except Exception:
                            got = None
                    if got != c["cp"]:
                        ck.reject(f"C17:{k}:wrong-chars:{'+'.join(sorted(set(p for p in c['cs'] if p.startswith(chr(92)))))}",
                                  f"{src} gives {end}, its spelling denotes code points {c['cp']}",
                                  {"src": src, "observed": end, "expected_codepoints": c["cp"], "variant": label})
                    elif k == "str":
                        end2, got2 = out[f"{i}x"]["end"], None
                        if end2.startswith('val:["'):
                            try:
                                v2 = ast.literal_eval(end2[4:])
                                got2 = [ord(ch) for ch in v2[0]] if len(v2) == 2 and v2[1] == "zz" else None
                            except Exception:
                                got2 = None
                        if got2 != c["cp"]:
                            ck.reject(f"C17:str:in-context:{'+'.join(sorted(set(p for p in c['cs'] if p.startswith(chr(92)))))}",
                                      f"[{src}, \"zz\"] gives {end2}: the literal followed by another literal on the same line is no longer the string it denotes alone ({c['cp']})",
                                      {"src": f'[{src}, "zz"]', "observed": end2, "expected_codepoints": c["cp"], "variant": label})
                elif oc == "reject":
                    nontrivial.add(src)
                    if end.startswith("val:"):
                        ck.reject(f"C17:str:undefined-escape-accepted:{'+'.join(sorted(set(p for p in c['cs'] if p.startswith(chr(92)))))}",
                                  f"{src} contains an undefined escape but evaluates to {end}", {"src": src, "observed": end, "variant": label})
                else:
                    ck.divergence("escape the reference does not mention", {"src": src, "observed": end})
            elif k == "name" and oc == "name":
                nontrivial.add(text)
                ends = {"variable": (out[f"{i}v"]["end"], "val:2"), "property": (out[f"{i}p"]["end"], "val:1"),
                        "symbol": (out[f"{i}s"]["end"], 'val:"' + text + '"'),
                        "listed name": (out[f"{i}k"]["end"], 'val:["' + text + '"]'),
                        "publicly listed name": (out[f"{i}K"]["end"], "val:[]" if text.startswith("_") else 'val:["' + text + '"]'),
                        "called symbol": (out[f"{i}c"]["end"], "val:5"), "symbol test": (out[f"{i}q"]["end"], "val:true")}
                for use, (end, want) in ends.items():
                    if end != want:
                        nc = name_class(c["cs"])
                        sig = f"C17:name:{nc}" if nc in ("_digit", "_suffix") else f"C17:name:{nc}:{use}"
                        ck.reject(sig, f"`{text}` matches the documented name pattern and is not reserved, but as a {use} it gives {end} (expected {want})",
                                  {"name": text, "use": use, "observed": end, "expected": want, "variant": label})
    # ---- (B) floats
    lits = float_spellings(rng, thorough)
    out = run_cases([{"id": str(i), "src": s} for i, s in enumerate(lits)], label="C17 floats")
    rows = []
    for i, s in enumerate(lits):
        end = out[str(i)]["end"]
        m = re.fullmatch(r"([0-9_]*)\.([0-9_]+)(?:[eE](-?[0-9]+))?", s)
        ip, fp, ex = m.group(1), m.group(2), int(m.group(3) or 0)
        k, fm, fe = "other", 0, 0
        if not end.startswith("val:"):
            k = "rejected"
        if re.fullmatch(r"val:-?\d+\.\d+(e[+-]?\d+)?", end):
            x = float(end[4:])
            k = "float"
            if x != 0:
                mm, e2 = math.frexp(x)
                fm, fe = int(mm * 2**53), e2 - 53
        rows.append({"id": str(i), "cs": list((ip + fp).replace("_", "")) or ["0"], "e10": ex - len(fp.replace("_", "")), "k": k,
                     "fm": big(fm), "fe": fe})
    tres = run_tlc("Trace_C17", files={"c17_floats.ndjson": ndjson(rows)}, timeout_s=1700)
    ck.add_tlc(tres, "Trace_C17")
    verdicts = {v["id"]: v["ok"] for v in payloads(tres, "V ")}
    if len(verdicts) != len(rows):
        raise pvlib.Broken("Trace_C17 verdict count mismatch")
    for i, s in enumerate(lits):
        nontrivial.add(s)
        if not verdicts[str(i)]:
            ck.reject(f"C17:float:{'exp' if 'e' in s.lower() else 'plain'}", f"{s} evaluates to {out[str(i)]['end']}, which is not the double nearest to the written decimal",
                      {"src": s, "observed": out[str(i)]["end"]})
    # an escape that the lexer ACCEPTS means the same characters in a plain quoted string and in a piece of a string with an interpolation
    # (the reference documents few escapes; whatever the others decode to, they decode to one thing)
    esc = ["\\n", "\\t", "\\\\", "\\\"", "\\a", "\\r", "\\x41", "\\u00e9", "\\101", "\\'", "\\xe3\\x81\\x82", "\\377", "\\x80", "\\xff", "\\U0001F600", "\\u3042", "\\b", "\\f", "\\v", "\\x7f"]
    ereqs = []
    for k, e in enumerate(esc):
        ereqs.append({"id": f"e{k}", "src": f'p := "{e}"; one := 1; [("{e}#{{one}}") == p + "1", ("#{{one}}{e}") == "1" + p, ("a{e}#{{one}}{e}z") == "a" + p + "1" + p + "z", ("{e}#{{one}}").len == p.len + 1]'})
    eout = run_cases(ereqs, label="C17 escapes in pieces")
    for k, e in enumerate(esc):
        got = eout[f"e{k}"]["end"]
        if got.startswith(("discarded:", "fuel:")) or not got.startswith("val:"):
            continue            # the escape is not accepted at all: rejected in both kinds of literal, nothing to compare
        if got != "val:[true, true, true, true]":
            ck.reject("C17:string:escape-in-piece", f"the escape {e!r} decodes differently in a plain string and in a piece of a string with an interpolation: {got}",
                      {"src": ereqs[k]["src"], "observed": got, "expected": "val:[true, true, true, true]"})
    total += len(ereqs)
    # exponent forms whose value does not depend on the exponent's size: a zero mantissa denotes 0 (also when the exponent itself is
    # astronomically large or small), and a non-zero mantissa with such an exponent cannot be represented
    zexp = [("0e99999999", "val:0"), ("0e99999999999999999999", "val:0"), ("00e5", "val:0"), ("0e-99999999999999999999", "val:0"), ("0_0e7", "val:0"), ("0e0", "val:0"),
            ("x := 0e4096; x + 1", "val:1"), ("[0e300, 0E300][1]", "val:0"), ("1e99999999999999999999", None), ("5e19", None), ("9e18", "val:9000000000000000000")]
    zout = run_cases([{"id": f"z{k}", "src": src, "deadline_ms": 8000} for k, (src, _) in enumerate(zexp)], label="C17 zero-mantissa exponents")
    for k, (src, want) in enumerate(zexp):
        got = zout[f"z{k}"]["end"]
        if got.startswith(("discarded:", "fuel:")):
            continue
        if (want is None and got.startswith("val:")) or (want is not None and got != want):
            ck.reject("C17:int:exp:extreme-exponent", f"{src!r} evaluates to {got[:120]}; " + (f"it denotes {want[4:]}" if want else "it cannot be represented and must be rejected"),
                      {"src": src, "observed": got[:300], "expected": want or "rejected"})
    total += len(zexp)
    # a written minus sign: `-<literal>` is the negation of the literal's value, the sign of a zero included (-0.0 is not 0.0)
    zeros = ["0.0", ".0", "0.0e3", "0.000_0", "0.0e-5", "00.00"]
    signed = zeros + lits[:60]
    sreqs = []
    for i, s_ in enumerate(signed):
        for j, form in enumerate(("-{l}", "(-{l})", "x := -{l}; x", "[1.5, -{l}][1]", "{{a: -{l}}}.a", "-{l} * 1.0")):
            sreqs.append({"id": f"n{i}.{j}", "src": form.format(l=s_)})
        sreqs.append({"id": f"u{i}", "src": s_})
    sout = run_cases(sreqs, label="C17 signed floats")
    for i, s_ in enumerate(signed):
        u = sout[f"u{i}"]["end"]
        if u.startswith(("discarded:", "fuel:")):
            continue
        want = ("val:-" + u[4:]) if u.startswith("val:") else None
        for j in range(6):
            got = sout[f"n{i}.{j}"]["end"]
            if got.startswith(("discarded:", "fuel:")):
                continue
            if (want is None and got.startswith("val:")) or (want is not None and got != want):
                ck.reject(f"C17:float:signed:{'zero' if s_ in zeros else 'nonzero'}", f"{sreqs[i * 7 + j]['src']!r} evaluates to {got}; {s_} is {u}, so its negation is {want or 'rejected as well'}",
                          {"src": sreqs[i * 7 + j]["src"], "observed": got, "expected": want, "unsigned": u})
    total += len(sreqs)
    total += len(lits)
    # ---- (E) names told apart: a name works as a variable / property / keyword only if it is not silently ANOTHER name.  Every two-character
    # name (letter + letter, digit or `_`; any keying of names that merges two of them - a polynomial or additive hash, a case fold, a cut -
    # merges two of these or two of the listed longer ones) defined together in one scope, one object literal and one keyword list.
    first = "ABCDEFGHIJKLMNOPQRSTUVWXYZabcdefghijklmnopqrstuvwxyz"
    names = [a + b for a in first for b in first + "0123456789_" if a + b != "if"]
    long_ = "x" * 70
    names += ["isOk", "isPL", "abc", "acb", "bac", "bca", "cab", "cba", "abcd", "dcba", "a_b", "ab_", "a__b", "A_b",
              "Aa?", "BB?", "Aa!", "BB!", "ab?", "ab!", "ba?", "if_", "ifa", "iff", "elsee", "else_"] + [long_[:k] + c for k in (7, 8, 15, 16, 31, 32, 63, 64) for c in "ab"]
    n = len(names)
    want = "val:[" + ", ".join(str(i + 1) for i in range(n)) + "]"
    apart = [("variables of one scope", "\n".join(f"{w} := {i + 1}" for i, w in enumerate(names)) + "\n[" + ", ".join(names) + "]", want),
             ("properties of one object literal", "o := {" + ", ".join(f"{w}: {i + 1}" for i, w in enumerate(names)) + "}\n[" + ", ".join("o." + w for w in names) + "]", want),
             ("names listed by one object", "{" + ", ".join(f"{w}: {i + 1}" for i, w in enumerate(names)) + "}.keys.len", f"val:{n}"),
             ("keywords of one call", "{|| k := \\_; [" + ", ".join("k." + w for w in names) + "]}(" + ", ".join(f"{w}: {i + 1}" for i, w in enumerate(names)) + ")", want),
             ("keyword parameters of one function", "{|" + ", ".join(f"{w}: 0" for w in names[::7]) + "| [" + ", ".join(names[::7]) + "]}(" + ", ".join(f"{w}: {i + 1}" for i, w in enumerate(names[::7])) + ")",
              "val:[" + ", ".join(str(i + 1) for i in range(len(names[::7]))) + "]")]
    aout = run_cases([{"id": f"a{i}", "src": src, "deadline_ms": 60000} for i, (_, src, _) in enumerate(apart)], label="C17 names apart")
    for i, (what, src, exp) in enumerate(apart):
        got = aout[f"a{i}"]["end"]
        if got.startswith(("discarded:", "fuel:")):
            raise pvlib.Broken(f"the names-apart program ({what}) was not evaluated: {got}")
        total += 1
        if got != exp:
            gl, el = got[5:-1].split(", "), exp[5:-1].split(", ")
            bad = [f"{names[j]} reads {gl[j]} (given {el[j]})" for j in range(min(len(gl), len(el), n)) if gl[j] != el[j]][:4] if len(gl) == len(el) and got.startswith("val:[") else [got[:120]]
            ck.reject(f"C17:name:apart:{what.split()[0]}", f"{n} distinct names as {what}: {'; '.join(bad)}", {"what": what, "observed_differences": bad, "src": src, "expected": exp})
    ck.sample({"float": lits[5], "observed": out["5"]["end"], "spec_accepts": verdicts["5"]})
    ck.cov["evaluations"] = total
    ck.cov["distinct_nontrivial"] = len(nontrivial)
    ck.cov["traces_validated_against_impl"] = total
    ck.cov["rule"] = (f"TLC enumerates spellings: digits over small alphabets with `_` up to {consts['MaxDigits']} characters in 4 bases, exponent forms "
                      "e-4..e20, boundary and seeded random spellings around 2^53/2^63/2^64, strings and raw strings of up to "
                      f"{consts['MaxPieces']} pieces from 19 piece kinds (incl. braces and an interpolation, which makes the literal an embedded string), identifiers up to {consts['MaxName']} characters over {{a,Z,_,1,?,!}} plus 60 "
                      "reserved-word derivatives; every two-character name and listed look-alikes defined together in one scope / object / keyword list and read back; floats: boundary list + seeded random decimals with exponents -25..25. non-trivial = distinct "
                      "spellings for which the specification prescribes a value, a rejection or a working name")
    ck.assumptions = ["results are read through the worker's canonical rendering (Go strconv.Quote / shortest float text)",
                      "subnormal float literals are not generated"]
    return ck.finish()


def replay(path):
    c = json.load(open(path))["case"]
    src = c.get("src") or f"{c['name']} := 1; {c['name']} + 1"
    print(src, "=>", run_cases([{"id": "r", "src": src}], nproc=1)["r"]["end"], "; expected", c.get("expected"))
    return 0

"""C04 chain contexts x call forms: the chain machine of PanEval (written once for all forms) prescribes the result of
every context (scalar/list/reduce x none/lonely/thoughtful/strict) for receivers whose elements return a value, nil or raise
at every position; recorded runs are validated against it, and the three call forms are compared with each other."""
import pvlib
from pvlib import Check
from checks import evalfam, evalcheck


def run():
    ck = Check("C04")
    thorough = ck.tier == "thorough"
    fam = evalfam.c04_family(thorough)
    res, st = evalcheck.run_family(ck, "C04", fam, "chains",
                                   signature=lambda tag, r: "C04:" + ":".join(tag.split(":")[i] for i in (0, 1, 5)) + ":" +
                                   evalcheck.first_diff(r["observed"], r.get("predicted")))
    ck.cov["chains"] = st
    # form independence (except the lonely reduce chain), on the real side
    groups = {}
    for (tag, _), r in zip(fam, res.values()):
        key, form = tag.rsplit(":", 1)
        groups.setdefault(key, {})[form] = r
    compared = 0
    for key, forms in groups.items():
        if key.split(":")[1] == "&$" or len(forms) < 2:
            continue
        base_form, base = next(iter(forms.items()))
        for form, r in forms.items():
            compared += 1
            if (r["observed"]["ev"], r["observed"]["end"]) != (base["observed"]["ev"], base["observed"]["end"]):
                ck.reject(f"C04:forms-disagree:{key.split(':')[0]}:{key.split(':')[1]}:{base_form}-vs-{form}",
                          f"{base['src'].splitlines()[-2]!r} gives {base['observed']} but {r['src'].splitlines()[-2]!r} gives {r['observed']}",
                          {"a": base["src"], "b": r["src"], "observed_a": base["observed"], "observed_b": r["observed"]})
    ck.cov["evaluations"] = len(fam)
    ck.cov["distinct_nontrivial"] = st["ok"]
    ck.cov["form_comparisons"] = compared
    ck.cov["traces_validated_against_impl"] = st["ok"] + st["mismatch"]
    ck.cov["exhaustive"] = True
    ck.cov["rule"] = ("10 chain contexts (. &. ~. @ &@ ~@ =@ $ &$ ~$) x 3 call forms (property, literal {|x| x.prop(args)} / {|acc, x| acc.prop(x, args)}, variable) x "
                      "receivers: arrays of 0..2 (thorough 3) elements each in {value, nil result, raise, nil element}, ints, ranges, objects; chain argument none / [] / [9] / "
                      "accumulator / {}; method with and without an extra argument; callee raising StopIterErr; non-trivial = runs accepted by PanEval")
    ck.assumptions = ["string receivers and iterator-literal receivers are outside PanEval's element model (iterators: C14)"]
    if st["ok"] + st["mismatch"] < len(fam) * 0.9:
        raise pvlib.Broken(f"too many programs unsupported/discarded: {st}")
    return ck.finish()


def replay(path):
    from checks.c03 import replay as rp
    return rp(path)

"""C04 chain contexts x call forms: the chain machine of PanEval (written once for all forms) prescribes the result of
every context (scalar/list/reduce x none/lonely/thoughtful/strict) for receivers whose elements return a value, nil or raise
at every position; recorded runs are validated against it, and the three call forms are compared with each other."""
import pvlib
from pvlib import Check
from checks import evalfam, evalcheck


def eval_len(recv):
    """the elements of a receiver literal written above (a Python-readable list after small substitutions)"""
    import re
    t = re.sub(r"%?\{[^{}]*\}", "0", recv).replace("'", "")
    return eval(t)


def run():
    ck = Check("C04")
    thorough = ck.tier == "thorough"
    fam = evalfam.c04_family(thorough)
    res, st = evalcheck.run_family(ck, "C04", fam, "chains",
                                   signature=lambda tag, r: "C04:" + ":".join(tag.split(":")[i] for i in (0, 1, 5)) + ":" +
                                   evalcheck.first_diff(r["observed"], r.get("predicted")))
    ck.cov["chains"] = st
    # form independence (except the lonely reduce chain), on the real side
    groups = {}
    for (tag, _), r in zip(fam, res.values()):
        key, form = tag.rsplit(":", 1)
        groups.setdefault(key, {})[form] = r
    compared = 0
    for key, forms in groups.items():
        if key.split(":")[1] == "&$" or len(forms) < 2:
            continue
        base_form, base = next(iter(forms.items()))
        for form, r in forms.items():
            compared += 1
            if (r["observed"]["ev"], r["observed"]["end"]) != (base["observed"]["ev"], base["observed"]["end"]):
                ck.reject(f"C04:forms-disagree:{key.split(':')[0]}:{key.split(':')[1]}:{base_form}-vs-{form}",
                          f"{base['src'].splitlines()[-2]!r} gives {base['observed']} but {r['src'].splitlines()[-2]!r} gives {r['observed']}",
                          {"a": base["src"], "b": r["src"], "observed_a": base["observed"], "observed_b": r["observed"]})
    # the same relation for BUILT-IN properties with arguments and keywords (the machine's methods are user-written): a list chain in the
    # property form gives what the literal form gives and what the calls give element by element; a reduce chain what the nested calls give
    from pvlib import run_cases
    breqs = []
    RECVS = {"objs": "[{x: 1, y: 2}, {tag: 7}, {x: 3}]", "strs": '["ab", "c", ""]', "arrs": "[[3, 1], [2], []]", "ints": "[5, 6, 255]", "maps": "[%{1: 2}, %{'a: 3, [1]: 4}]"}
    PROPS = {"objs": ["patch(v: 0)", "patch(v: 0, w: [1])", "keys(private?: true)", "bear({q: 1})", "digest([['k, 1]])", "del('x)", "items"],
             "strs": ["I(base: 16)", "uc", 'sub("b", "B")', "at([0])", "len", 'split("")'], "arrs": ['join("-")', "at([0])", "push(9)", "rev", "has?(2)", "assign(0, 7)"],
             "ints": ["S(base: 2)", "S", "clip(0, 6)", "between?(5, 6)", "at([0])"], "maps": ["keys", "items", "len", "at([1])", "digest([[2, 3]])"]}
    for kind, recv in RECVS.items():
        for pr in PROPS[kind]:
            for ctx in ("@", "=@", "~@", "&@"):
                tag = f"{kind}:{pr}:{ctx}"
                breqs.append((tag, "prop", f"xs := {recv}\nsay(nil.try.{{|u| xs{ctx}{pr}}}.A)\nsay(xs)"))
                breqs.append((tag, "literal", f"xs := {recv}\nsay(nil.try.{{|u| xs{ctx}{{|x| x.{pr}}}}}.A)\nsay(xs)"))
            breqs.append((f"{kind}:{pr}:each", "prop", f"xs := {recv}\nsay(nil.try.{{|u| xs=@{pr}}}.A)\nsay(xs)"))
            breqs.append((f"{kind}:{pr}:each", "elementwise", f"xs := {recv}\nsay(nil.try.{{|u| [{', '.join(f'xs[{i}].{pr}' for i in range(recv.count('], [') + recv.count('}, {') + recv.count(', ') + 1 if False else len(eval_len(recv)))) }]}}.A)\nsay(xs)"))
    bout = run_cases([{"id": f"b{k}", "src": src} for k, (_, _, src) in enumerate(breqs)], label="C04 built-in properties in list chains")
    bgroups = {}
    for k, (tag, form, src) in enumerate(breqs):
        bgroups.setdefault(tag, []).append((form, src, bout[f"b{k}"]))
    for tag, rows in bgroups.items():
        if any(str(o["end"]).startswith(("discarded:", "fuel:")) for _, _, o in rows):
            continue
        (f0, s0, o0) = rows[0]
        for (f1, s1, o1) in rows[1:]:
            compared += 1
            if (o0["events"], o0["end"]) != (o1["events"], o1["end"]):
                ck.reject(f"C04:builtin-forms-disagree:{tag.split(':')[0]}:{tag.split(':')[1].split('(')[0]}:{tag.split(':')[-1]}:{f0}-vs-{f1}",
                          f"{s0.splitlines()[1]!r} gives {o0['events']} but {s1.splitlines()[1]!r} gives {o1['events']}",
                          {"a": s0, "b": s1, "observed_a": o0["events"], "observed_b": o1["events"]})
    ck.cov["builtin_property_programs"] = len(breqs)
    ck.cov["evaluations"] = len(fam)
    ck.cov["distinct_nontrivial"] = st["ok"]
    ck.cov["form_comparisons"] = compared
    ck.cov["traces_validated_against_impl"] = st["ok"] + st["mismatch"]
    ck.cov["exhaustive"] = True
    ck.cov["rule"] = ("10 chain contexts (. &. ~. @ &@ ~@ =@ $ &$ ~$) x 3 call forms (property, literal {|x| x.prop(args)} / {|acc, x| acc.prop(x, args)}, variable) x "
                      "receivers: arrays of 0..2 (thorough 3) elements each in {value, nil result, raise, nil element}, ints, ranges, objects; chain argument none / [] / [9] / "
                      "accumulator / {}; method with and without an extra argument; callee raising StopIterErr; 29 built-in properties with arguments / keywords over lists of objects, strs, arrays, ints and maps in the four list contexts: property form = literal form = element by element; non-trivial = runs accepted by PanEval")
    ck.assumptions = ["string receivers and iterator-literal receivers are outside PanEval's element model (iterators: C14)"]
    if st["ok"] + st["mismatch"] < len(fam) * 0.9:
        raise pvlib.Broken(f"too many programs unsupported/discarded: {st}")
    return ck.finish()


def replay(path):
    from checks.c03 import replay as rp
    return rp(path)

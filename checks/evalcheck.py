"""Common driver for the checks that validate recorded runs against PanEval."""
import json
import pvlib
from checks import panlang


def first_diff(obs, pred):
    if pred is None:
        return "?"
    oe, pe = obs["ev"], pred["ev"]
    for k in range(max(len(oe), len(pe))):
        a = oe[k] if k < len(oe) else None
        b = pe[k] if k < len(pe) else None
        if a != b:
            kind = (a or b).split(":")[0]
            return f"event{'' if a and b else ('-extra' if a else '-missing')}:{kind}"
    return "end"


def run_family(ck, pid, tagged, label, signature=None, binary=None, flaky_is_violation=False):
    """tagged: list of (tag, body). Returns (results, stats)."""
    progs = [(f"{label}.{i}", body) for i, (tag, body) in enumerate(tagged)]
    res = panlang.validate(ck, progs, f"{pid} {label}", binary=binary)
    stats = {"ok": 0, "mismatch": 0, "unsupported": 0, "fuel": 0, "discarded": 0}
    rejected = []
    for (rid, body), (tag, _) in zip(progs, tagged):
        r = res[rid]
        stats[r["status"]] = stats.get(r["status"], 0) + 1
        if pvlib.is_host_crash(r["observed"]["end"]):
            ck.reject(f"{pid}:host-crash", f"{r['src']!r}: {r['observed']['end']}", {"src": r["src"], "observed": r["observed"]})
        elif r["status"] == "mismatch":
            rejected.append((rid, tag, r))
    again = pvlib.confirm([{"id": rid, "src": r["src"]} for rid, tag, r in rejected], label=f"{pid} confirm")
    for rid, tag, r in rejected:
        a = again.get(rid)
        if a and a.get("end") is not None and (a["events"] != r["observed"]["ev"] or a["end"] != r["observed"]["end"]):
            if flaky_is_violation:      # C08: two evaluations of one program differ
                ck.reject(f"{pid}:nondeterministic:{tag.split(':')[0]}", f"{r['src']!r}: two evaluations differ: {r['observed']} vs {a['events']} {a['end']}",
                          {"src": r["src"], "run_a": r["observed"], "run_b": {"ev": a["events"], "end": a["end"]}})
                continue
            # not alone - but after the programs the same worker process had evaluated before it?
            allreqs = [{"id": pid2, "src": panlang.program_src(body2)} for pid2, body2 in progs]
            h = pvlib.history_confirm(allreqs, rid, label=f"{pid} history confirm")
            if not h or h["events"] != r["observed"]["ev"] or h["end"] != r["observed"]["end"]:
                raise pvlib.Broken(f"flaky observation for {r['src']!r}")
            sig = (signature(tag, r) if signature else f"{pid}:{tag.split(':')[0]}:{first_diff(r['observed'], r.get('predicted'))}") + ":after-history"
            ck.reject(sig, f"{r['src']!r}: observed {r['observed']} after other programs had been evaluated in the same process (alone: {a['events']} {a['end']}); "
                           f"the specification prescribes {r.get('predicted')}",
                      {"src": r["src"], "observed": r["observed"], "alone": {"ev": a["events"], "end": a["end"]}, "predicted": r.get("predicted"), "family": tag})
            continue
        sig = signature(tag, r) if signature else f"{pid}:{tag.split(':')[0]}:{first_diff(r['observed'], r.get('predicted'))}"
        ck.reject(sig, f"{r['src']!r}: observed {r['observed']} but the specification prescribes {r.get('predicted')}",
                  {"src": r["src"], "observed": r["observed"], "predicted": r.get("predicted"), "family": tag})
    for (rid, body), (tag, _) in list(zip(progs, tagged))[:2]:
        ck.sample({"family": tag, "src": res[rid]["src"], "observed": res[rid]["observed"], "status": res[rid]["status"]})
    return res, stats

"""C11 indexing and slicing: replay of the PanIndex family (TLC-enumerated) into the real interpreter."""
import json
import pvlib
from pvlib import Check, run_tlc, run_cases, payloads

NIL, PINF, NINF = 1000000, 900000, -900000
INF_POS = [2**31, 2**62, 2**63 - 1]
INF_NEG = ["(0-2147483648)", "(0-4611686018427387904)", "(0-9223372036854775807-1)"]
ASCII = "abcdefgh"
MULTI = "aé漢\U0001F600ßzÿあ"
BOUND = "~\x7f\x80\xff\u0100\u07ff\u0800\U00010000"      # code points at the edges of the ASCII / 2- / 3- / 4-byte ranges (DEL among them)
SPECIAL = "\ufffda\ufffd\u0301é\ufffd\ufffdz"          # the replacement character itself (decoders return it for "no character here") and a combining mark: characters of the string like any other
CHARS = {"ascii": ASCII, "multi": MULTI, "bound": BOUND, "special": SPECIAL}


def goquote(s):
    """the worker renders a str with Go's strconv.Quote"""
    out = []
    for ch in s:
        o = ord(ch)
        if ch in '"\\':
            out.append("\\" + ch)
        elif 0x20 <= o < 0x7f:
            out.append(ch)
        elif o < 0x20 or o == 0x7f:
            out.append("\\x%02x" % o)
        elif o < 0xa0 or o in (0xad,):
            out.append("\\u%04x" % o)
        else:
            out.append(ch)
    return '"' + "".join(out) + '"'


def lit(v, j):
    if v == NIL:
        return ""
    if v == PINF:
        return str(INF_POS[j])
    if v == NINF:
        return INF_NEG[j]
    return str(v) if v >= 0 else f"(0-{-v})"


def quote(s):
    return '"' + s + '"'


ZEROS = ['""', "[]", "nil", "0", "false", "{}"]


def elem(kind, i):
    """element i of an array receiver (source text = canonical rendering): ints, ints alternating with nil elements, zero values"""
    if kind == "arrnil":
        return "nil" if i % 2 == 0 else str(10 + i)
    if kind == "arrzero":
        return ZEROS[i % len(ZEROS)]
    return str(10 + i)


def recv_src(kind, n):
    # receivers that a built-in PRODUCED (the same values as the literals): a range converted by A, a concatenation, a decoded JSON text, a join, a case conversion
    if kind == "arr:rangeA":
        return f"(10:{10 + n}).A"
    if kind == "arr:concat":
        h = n // 2
        return "([" + ", ".join(str(10 + i) for i in range(h)) + "] + [" + ", ".join(str(10 + i) for i in range(h, n)) + "])"
    if kind == "arr:json":
        return "JSON.dec(`[" + ", ".join(str(10 + i) for i in range(n)) + "]`)"
    if kind == "ascii:join":
        return "[" + ", ".join(quote(c) for c in ASCII[:n]) + '].join("")'
    if kind == "multi:join":
        return "[" + ", ".join(quote(c) for c in MULTI[:n]) + '].join("")'
    if kind == "ascii:lc":
        return quote(ASCII[:n].upper()) + ".lc"
    # values that are only TREATED as an array / a str: instances of a child prototype, children of the value itself
    if kind == "arr:new":
        return "Arr.bear.new([" + ", ".join(str(10 + i) for i in range(n)) + "])"
    if kind == "arr:child":
        return "[" + ", ".join(str(10 + i) for i in range(n)) + "].bear({tag: 1})"
    if kind == "ascii:new":
        return "Str.bear.new(" + quote(ASCII[:n]) + ")"
    if kind == "multi:child":
        return quote(MULTI[:n]) + ".bear"
    if kind.startswith("arr"):
        return "[" + ", ".join(elem(kind, i) for i in range(n)) + "]"
    return quote(CHARS[kind][:n])


def expected(kind, n, case):
    pos = case["pos"]
    if case["mode"] == "index":
        p = pos[0]
        if p < 0:
            return "val:nil"
        return "val:" + (elem(kind, p) if kind.startswith("arr") else goquote(CHARS[kind.split(":")[0]][p]))
    if case["c"] == 0:
        return "err:ValueErr"
    if kind.startswith("arr"):
        return "val:[" + ", ".join(elem(kind, p) for p in pos) + "]"
    chars = CHARS[kind.split(":")[0]]
    return "val:" + goquote("".join(chars[p] for p in pos))


def cls(v, n):
    if v == NIL:
        return "nil"
    if v in (PINF, NINF):
        return "huge+" if v > 0 else "huge-"
    if v >= 0:
        return "in+" if v <= n else "out+"
    return "in-" if v >= -n else "out-"


def signature(kind, case):
    n = case["n"]
    if case["mode"] == "index":
        return f"C11:index:{'str' if not kind.startswith('arr') else kind}:i={cls(case['a'], n)}"
    c = case["c"]
    st = "nil" if c == NIL else ("0" if c == 0 else ("huge" if abs(c) >= PINF else ("+" if c > 0 else "-")))
    return f"C11:slice:{'str' if not kind.startswith('arr') else kind}:step={st}:start={cls(case['a'], n)}:stop={cls(case['b'], n)}"


def build(case, kind, j, form):
    n = case["n"]
    r = recv_src(kind, n)
    if case["mode"] == "index":
        return f"{r}[{lit(case['a'], j)}]"
    a, b, c = lit(case["a"], j), lit(case["b"], j), lit(case["c"], j)
    rng = f"{a}:{b}" + (f":{c}" if c != "" else "")
    if form == 0:
        return f"{r}[{rng}]"
    # a parenthesised range literal needs its bounds written out: (nil:nil), not (:)
    a, b = a or "nil", b or "nil"
    rng = f"{a}:{b}" + (f":{c}" if c != "" else "")
    if form == 1:
        return f"r := ({rng}); x := {r}; x[r]"
    proto = "Arr" if kind.startswith("arr") else "Str"
    return f"{proto}['at]({r}, [({rng})])"


def run():
    ck = Check("C11")
    thorough = ck.tier == "thorough"
    maxn = 8 if thorough else 4
    res = run_tlc("MC_C11", defines={"MaxN": str(maxn), "Pad": "2"}, timeout_s=1500)
    if res.violation:
        raise pvlib.Broken("PanIndex design invariant violated in the model: " + res.violation)
    ck.add_tlc(res, f"MC_C11 MaxN={maxn} Pad=2")
    cases = payloads(res, "CASE ")
    if len(cases) != res.distinct:
        raise pvlib.Broken(f"TLC printed {len(cases)} cases for {res.distinct} states")
    reqs, meta = [], {}
    for ci, case in enumerate(cases):
        infs = [v for v in (case["a"], case["b"], case["c"]) if v in (PINF, NINF)]
        built = ("arr:rangeA", "arr:concat", "arr:json", "ascii:join", "multi:join", "ascii:lc", "arr:new", "arr:child", "ascii:new", "multi:child")
        for kind in ("arr", "arrnil", "arrzero", "ascii", "multi", "bound", "special") + ((built[ci % len(built)],) if not thorough else built):
            for j in (range(3) if infs else range(1)):
                form = 0
                h = (ci * 7 + j) % 40
                if case["mode"] == "slice" and h == 1:
                    form = 1
                elif case["mode"] == "slice" and h == 2:
                    form = 2
                rid = f"{ci}.{kind}.{j}"
                reqs.append({"id": rid, "src": build(case, kind, j, form)})
                meta[rid] = (case, kind)
    out = run_cases(reqs, label="C11")
    nontrivial = set()
    discarded = 0
    rejected = []
    for rq in reqs:
        case, kind = meta[rq["id"]]
        end = out[rq["id"]]["end"]
        exp = expected(kind, case["n"], case)
        if end.startswith(("discarded:", "fuel:")):
            discarded += 1
            continue
        ok = end.startswith(exp) if exp.startswith("err:") else end == exp
        if case["mode"] == "slice" and case["pos"] and any(cls(v, case["n"]) not in ("in+", "in-") for v in (case["a"], case["b"])):
            nontrivial.add((case["n"], case["a"], case["b"], case["c"], kind))
        if not ok:
            rejected.append((rq, end, exp))
        ck.sample({"src": rq["src"], "observed": end, "expected": exp})
    # every rejected case is re-executed once in fresh workers before it is reported
    again = pvlib.confirm([r[0] for r in rejected], label="C11 confirm")
    for rq, end, exp in rejected:
        case, kind = meta[rq["id"]]
        if again[rq["id"]]["end"] is not None and again[rq["id"]]["end"] != end:
            h = pvlib.history_confirm(reqs, rq["id"], label="C11 history confirm")       # a process-wide cache filled by earlier cases?
            if not h or h["end"] != end:
                raise pvlib.Broken(f"flaky observation for {rq['src']!r}: {end!r} vs {again[rq['id']]['end']!r}")
            ck.reject(signature(kind, case) + ":after-history", f"{rq['src']} gives {end} after other selections had been evaluated in the same process (alone: {again[rq['id']]['end']}), specification selects {exp}",
                      {"src": rq["src"], "observed": end, "alone": again[rq["id"]]["end"], "expected": exp, "abstract": case})
            continue
        ck.reject(signature(kind, case), f"{rq['src']} gives {end}, specification selects {exp}",
                  {"src": rq["src"], "observed": end, "expected": exp, "abstract": case})
    ck.cov["evaluations"] = len(reqs)
    ck.cov["distinct_nontrivial"] = len(nontrivial)
    ck.cov["traces_validated_against_impl"] = len(reqs) - discarded
    ck.cov["discarded"] = discarded
    ck.cov["exhaustive"] = True
    ck.cov["rule"] = (f"TLC enumerates every (n,start,stop,step) with n in 0..{maxn}, bounds in -n-2..n+2 plus nil, +inf, -inf "
                      "(inf instantiated as 2^31, 2^62, 2^63-1 / negatives) and every single index; each is replayed on an array of ints, an array with nil elements, "
                      "an array of zero values, an ASCII string and three multi-byte strings (one made of U+FFFD and a combining mark), and on the same values produced by built-ins (range.A, +, JSON.dec, join, lc); non-trivial = non-empty selection with an omitted, out-of-range or huge bound")
    ck.assumptions = ["the worker's canonical rendering of arrays/strings is faithful (checked by pv selftest)",
                      "2^31/2^62/2^63-1 stand for every bound beyond the window"]
    if not nontrivial:
        raise pvlib.Broken("no non-trivial slice case was exercised")
    return ck.finish()


def replay(path):
    d = json.load(open(path))
    c = d["case"]
    end = run_cases([{"id": "r", "src": c["src"]}], nproc=1)["r"]["end"]
    print(f"src={c['src']!r} observed={end!r} expected={c['expected']!r}")
    ok = end.startswith(c["expected"]) if c["expected"].startswith("err:") else end == c["expected"]
    if not ok:
        print(f"VIOLATION property=C11 replay={path}")
        return 1
    return 0

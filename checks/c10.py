"""C10 exact integer arithmetic.

(A) MC_BigInt: TLC validates the BigInt/PanArith operators against its native integers on [-W,W]^2 and emits
    that window with natively computed predictions; every case is replayed in the real interpreter.
(B) Trace_C10: boundary grid + seeded random int64 pairs are evaluated by the real interpreter and the recorded
    results are validated against the PanArith relations (exact, limb arithmetic) by TLC.
"""
import json, math, re
import pvlib
from pvlib import Check, run_tlc, run_cases, payloads, ndjson

MIN, MAX = -2**63, 2**63 - 1
B = 32768
OPS = ["+", "-", "*", "//", "%", "**", "<=>", "/"]


def lit(n):
    if n >= 0:
        return str(n)
    if n == MIN:
        return "(-9223372036854775807-1)"
    return f"(-{-n})"


def src_for(op, a, b, form):
    if op == "neg":
        if form == 2:
            return f"Z := Int.bear; -(Z.new({lit(a)}))"
        return f"x := {lit(a)}; -x" if form else f"-({lit(a)})"
    if form == 3:      # typed descendants of Int: the same 64-bit integers with another prototype
        return f"Z := Int.bear; Z.new({lit(a)}) {op} Z.new({lit(b)})"
    if form == 4:
        return f"Z := Int.bear; {lit(a)} {op} Z.new({lit(b)})"
    if form == 5:      # a zero that is computed from typed operands
        return f"Z := Int.bear; {lit(a)} {op} (Z.new(5) - Z.new(5))"
    if form == 6:      # the operator written as a property call, through Obj.callProp, and through a stored function value
        return f"({lit(a)}).{op}({lit(b)})"
    if form == 7:
        return f"Obj.callProp({lit(a)}, '{op}, {lit(b)})"
    if form == 8:
        return f"f := ({lit(a)})['{op}]; f({lit(a)}, {lit(b)})"
    if form == 1:
        return f"x := {lit(a)}; y := {lit(b)}; x {op} y"
    if form == 2:
        return f"Int['{op}]({lit(a)}, {lit(b)})"
    return f"{lit(a)} {op} {lit(b)}"


def big(n):
    neg = n < 0
    n = abs(n)
    m = []
    while n:
        m.append(n % B)
        n //= B
    return {"neg": neg, "m": m}


def decode(end):
    """observation -> (k, r:int, kind:str, fm:int, fe:int)"""
    if end.startswith("err:"):
        return "err", 0, end.split(":")[1], 0, 0
    if not end.startswith("val:"):
        return "other", 0, "", 0, 0
    t = re.sub(r"\^\{\}\^Int$", "", end[4:])       # a result that inherits the typed left operand's prototype (Z := Int.bear) prints as <n>^{}^Int
    if re.fullmatch(r"-?\d+", t):
        return "int", int(t), "", 0, 0
    if re.fullmatch(r"-?\d+\.\d+", t):
        x = float(t)
        if x == 0:
            return "float", 0, "", 0, 0
        m, e = math.frexp(x)
        fm = int(m * 2**53)
        assert float(fm) * 2.0**(e - 53) == x
        return "float", 0, "", fm, e - 53
    return "other", 0, "", 0, 0


def mag_class(n):
    n = abs(n)
    return "0" if n == 0 else "small" if n < 2**31 else "<2^53" if n <= 2**53 else ">2^53"


def signature(op, a, b):
    sg = lambda n: "-" if n < 0 else "0" if n == 0 else "+"
    return f"C10:{op}:a={sg(a)}{mag_class(a)}:b={sg(b)}{mag_class(b)}"


def boundary_values():
    vs = {0, 1, -1, 2, -2, 3, -3, 7, -7, 10, -10}
    for k in (15, 16, 31, 32, 52, 53, 54, 62):
        for d in (-1, 0, 1):
            vs.add(2**k + d)
            vs.add(-(2**k) + d)
    vs |= {MAX, MAX - 1, MIN, MIN + 1, 3037000499, 3037000500, -3037000500, 4294967296, 9007199254740993, -9007199254740993,
           10**18, -10**18, 5 * 10**18, -5 * 10**18}
    return sorted(v for v in vs if MIN <= v <= MAX)


def random_int(rng):
    c = rng.random()
    if c < 0.25:
        return rng.randint(-1000, 1000)
    if c < 0.5:
        return rng.randint(-2**32, 2**32)
    if c < 0.75:
        k = rng.randint(33, 63)
        v = rng.getrandbits(k)
        return v if rng.random() < 0.5 else -v
    return rng.choice([MAX, MIN]) - rng.randint(0, 2**20) * (1 if rng.random() < 0.5 else -1) if False else \
        max(MIN, min(MAX, rng.choice([MAX, MIN, 2**53, -2**53, 2**62, -2**62]) + rng.randint(-2**16, 2**16)))


def run():
    ck = Check("C10")
    thorough = ck.tier == "thorough"
    rng = ck.rng
    # ---------------- (A) small window, predictions computed natively by TLC
    W = 30 if thorough else 20
    res = run_tlc("MC_BigInt", defines={"W": str(W)}, timeout_s=900)
    if res.violation:
        raise pvlib.Broken("BigInt/PanArith disagrees with TLC's native integers: " + res.violation)
    ck.add_tlc(res, f"MC_BigInt W={W}")
    small = payloads(res, "CASE ")
    if len(small) != res.distinct:
        raise pvlib.Broken("MC_BigInt printed %d cases for %d states" % (len(small), res.distinct))
    reqs, meta = [], {}

    def add(op, a, b, expect=None):
        rid = str(len(reqs))
        form = rng.choice([0, 0, 0, 0, 1, 2, 3, 4, 6, 7, 8]) if op != "neg" else rng.choice([0, 0, 1, 2])
        if b == 0 and op != "neg" and rng.random() < 0.3:
            form = rng.choice([3, 4, 5])
        src = src_for(op, a, b, form)
        if rng.random() < 0.12:
            # history: a descendant of Int (or Float) that overrides this very operator was used earlier in the process
            sym = {"neg": "-%"}.get(op, op)
            base = rng.choice(["Int", "Int", "Float"])
            lit = {"Int": "10", "Float": "2.5", "Num": "10"}[base]
            src = (f"P := {base}.bear({{'{sym}: m{{|o| 'overridden}}}}); p1 := P.new({lit}); " +
                   (f"(-p1); " if op == "neg" else f"p1 {op} 3; p1.{op}(3); ") + src)
        reqs.append({"id": rid, "src": src})
        meta[rid] = (op, a, b, expect)

    for c in small:
        a, b = c["a"], c["b"]
        add("+", a, b, ("int", c["add"]))
        add("-", a, b, ("int", c["sub"]))
        add("*", a, b, ("int", c["mul"]))
        add("<=>", a, b, ("int", c["cmp"]))
        if b == 0:
            add("//", a, b, ("err", "ZeroDivisionErr"))
            add("%", a, b, ("err", "ZeroDivisionErr"))
            add("/", a, b, ("err", "ZeroDivisionErr"))
        else:
            add("//", a, b, ("int", c["fdiv"]))
            add("%", a, b, ("mod", c["fmod"]))
            add("/", a, b, None)
        if 0 <= b <= 6 and -12 <= a <= 12:
            add("**", a, b, ("int", c["pow"]))
        if b == 0:
            add("neg", a, 0, ("int", -a))
    n_small = len(reqs)
    # ---------------- (B) boundary grid, powers and random pairs, judged by PanArith over BigInt
    bv = boundary_values()
    for a in bv:
        add("neg", a, 0)
        for b in bv:
            for op in OPS:
                if op == "**":
                    continue
                add(op, a, b)
    for a in list(range(-11, 12)) + [2**31, -2**31, 2**32 + 1, 3037000499, -3037000500, 2**62, MAX, MIN]:
        for b in list(range(0, 66)) + [2**31, 2**62 + 1]:
            add("**", a, b)
    nrand = 60000 if thorough else 12000
    for _ in range(nrand):
        op = rng.choice(OPS)
        a, b = random_int(rng), random_int(rng)
        if op == "**":
            b = rng.randint(0, 70)
            a = rng.choice([rng.randint(-12, 12), a])
        add(op, a, b)
    out = run_cases(reqs, label="C10")
    # judge (A) directly against TLC's native predictions
    rejected = []
    nontrivial = set()
    for rq in reqs[:n_small]:
        op, a, b, exp = meta[rq["id"]]
        end = out[rq["id"]]["end"]
        k, r, kind, fm, fe = decode(end)
        if exp is None:
            continue
        ok = (exp[0] == "int" and k == "int" and r == exp[1]) or (exp[0] == "err" and k == "err" and kind == exp[1]) or \
             (exp[0] == "mod" and k == "int" and abs(r) < abs(b) and (a - r) % b == 0)
        if not ok:
            rejected.append((rq, end, f"TLC-native prediction {exp}"))
    # judge everything (small window included) with Trace_C10
    rows = []
    for rq in reqs:
        op, a, b, exp = meta[rq["id"]]
        end = out[rq["id"]]["end"]
        if end.startswith(("discarded:", "fuel:")):
            continue
        k, r, kind, fm, fe = decode(end)
        rows.append({"id": rq["id"], "op": op, "a": big(a), "b": big(b), "k": k, "r": big(r), "kind": kind,
                     "fm": big(fm), "fe": fe})
    tres = run_tlc("Trace_C10", files={"c10.ndjson": ndjson(rows)}, timeout_s=1700)
    ck.add_tlc(tres, "Trace_C10")
    verdicts = {v["id"]: v["ok"] for v in payloads(tres, "V ")}
    if len(verdicts) != len(rows):
        raise pvlib.Broken(f"Trace_C10 returned {len(verdicts)} verdicts for {len(rows)} recorded operations")
    for rq in reqs:
        op, a, b, exp = meta[rq["id"]]
        if rq["id"] not in verdicts:
            continue
        end = out[rq["id"]]["end"]
        if max(abs(a), abs(b)) > 2**31:
            nontrivial.add((op, a, b))
        if not verdicts[rq["id"]]:
            rejected.append((rq, end, "PanArith.Holds is false"))
        ck.sample({"src": rq["src"], "observed": end, "spec_accepts": verdicts[rq["id"]]})
    again = pvlib.confirm([r[0] for r in rejected], label="C10 confirm")
    history = [r for r in reqs if r["src"].startswith("P := ")]
    for rq, end, why in rejected:
        op, a, b, exp = meta[rq["id"]]
        if again[rq["id"]]["end"] is not None and again[rq["id"]]["end"] != end:
            # alone in a new process the operation is right: does it go wrong again after the history programs of this run (same operator) in ONE process?
            hist = [dict(r, id=f"h{k}") for k, r in enumerate(h for h in history if meta[h["id"]][0] == op and h["src"].startswith("P := Int."))][:30]
            seq = run_cases(hist + [dict(rq, id="again")], nproc=1, label="C10 history confirm")
            if seq["again"]["end"] != end:
                # not these programs alone - what the same worker process had evaluated before the case, then?
                hc = pvlib.history_confirm(reqs, rq["id"], label="C10 shard-prefix confirm")
                if not hc or hc["end"] != end:
                    raise pvlib.Broken(f"flaky observation for {rq['src']!r}")
                hist = [dict(h, id=f"h{k}") for k, h in enumerate(pvlib.history_prefix(reqs, rq["id"]))]
            ck.reject(signature(op, a, b) + ":after-history", f"{rq['src']} gives {end} when evaluated after programs that used a descendant overriding `{op}` in the same process "
                      f"(alone it gives {again[rq['id']]['end']}) ({why})",
                      {"src": rq["src"], "observed": end, "alone": again[rq["id"]]["end"], "history": [h["src"] for h in hist][:5] if len(hist) <= 30 else [h["src"] for h in hist], "op": op, "a": a, "b": b, "why": why})
            continue
        ck.reject(signature(op, a, b), f"{rq['src']} gives {end} ({why})",
                  {"src": rq["src"], "observed": end, "op": op, "a": a, "b": b, "why": why})
    ck.cov["evaluations"] = len(reqs)
    ck.cov["distinct_nontrivial"] = len(nontrivial)
    ck.cov["traces_validated_against_impl"] = len(rows)
    ck.cov["rule"] = (f"(A) all pairs in [-{W},{W}]^2 x 9 operators with TLC-native predictions; (B) {len(bv)}^2 boundary pairs x 8 operators, "
                      f"powers a in [-11,11]+extremes x b in 0..65, {nrand} seeded random pairs; results judged by PanArith over BigInt in TLC. "
                      "non-trivial = an operand beyond 2^31 (outside TLC-native arithmetic)")
    ck.assumptions = ["BigInt is validated against TLC-native integers only on the small window and by algebraic identities at 2^40",
                      "float results are decoded from their shortest round-trip text"]
    return ck.finish()


def replay(path):
    d = json.load(open(path))
    c = d["case"]
    hist = [{"id": f"h{k}", "src": h} for k, h in enumerate(c.get("history", []))]       # history-dependent case: same process, history first
    end = run_cases(hist + [{"id": "r", "src": c["src"]}], nproc=1)["r"]["end"]
    k, r, kind, fm, fe = decode(end)
    row = {"id": "r", "op": c["op"], "a": big(c["a"]), "b": big(c["b"]), "k": k, "r": big(r), "kind": kind, "fm": big(fm), "fe": fe}
    tres = run_tlc("Trace_C10", files={"c10.ndjson": ndjson([row])}, workers=1)
    ok = payloads(tres, "V ")[0]["ok"]
    print(f"src={c['src']!r} observed={end!r} spec_accepts={ok}")
    if not ok:
        print(f"VIOLATION property=C10 replay={path}")
        return 1
    return 0

"""C19 a fresh evaluation is independent of history: TLC enumerates sessions (histories of <= 2 programs followed by a probe
program, PanSession); each session is run in ONE real interpreter under three embeddings (playground pattern, Str#evalEnv,
the real `pangaea test` driver) and the recorded observations / shared-state projections are validated against PanSession
by TLC, FreshObs being measured by running each program alone in a newly started interpreter."""
import hashlib, json, re
import pvlib
from pvlib import Check, run_tlc, run_cases, payloads, ndjson

POOL = [
    "x := 1; y := [x, 2]; y.p; y",
    "x",
    "[y, z]",
    "_",
    "f := {|v| _}; f(1)",
    "1 / 0",
    "1 +",
    "Int := 5; Str := 6; Int + Str",
    "\"a := 3; b := a\".evalEnv.keys",
    "f := {|n| n.nosuchprop}; g := {|n| f(n)}; g(1)",
    "[Obj.keys.len, Int.keys.len, Str.keys.len, Arr.keys.len, Kernel.keys, Either.keys]",
    "it := <{|i| yield i if i < 3; recur(i + 1)}>.new(0); it.next; it.next",
    "[1, 2, 3]@{|e| e}.len; (1:3)@{|e| e}; \"ab\"@{|c| c}; {a: 1}@{|k, v| k}; %{1: 2}@{|k, v| k}; 3@{|e| e}",
    "it := [1]._iter; it.next; it.next",
    "\"101\".I(**{base: 2})",
    "\"101\".I",
    "[5.S, 255.S(base: 16)]",
    "f := {|k: 1, base: 10| [k, base, \\_]}; f()",
    "f := {|k: 1| [k, \\_]}; f(**{k: 2, base: 3})",
    "[1.try.val, 1.try.nosuchprop.err.S, nil.try.{|u| 1 / 0}.A]",
    "o := {a: 1}; o.bear({b: 2}).b + o.a",
    "raise 1.try.nosuchprop.err",
    "assertEq(1, 2)",
    "<>",
    "Either.A",
    "[Either]@val",
    "{e: _}",
    # literals made only of ** operands whose first operand is a built-in object; digest of built-ins
    "{**Int, **{zzfoo: 1}}.zzfoo.p; {**Str, **{zzbar: 2}, **{zzbaz: 3}}.zzbaz.p; %{**Arr, **{zzqux: 1}}.len.p",
    "[1.try.zzfoo.A, \"a\".try.zzbar.A, Int['zzfoo], Str['zzbaz], Int.keys.len, Str.keys.len].p",
    "Str.digest([['zzshout, 1]])['zzshout].p; Int.digest([['zzdig, 2]]).keys.len.p; Obj.digest([['zzobj, 3]])['zzobj].p",
    "[\"a\".try.zzshout.A, 1.try.zzdig.A, {}.try.zzobj.A].p",
    # every way to get at a value stored in a built-in object (the shared NotImplemented placeholder among them)
    "Either.values[0]", "Either.items[0][1]", "Either@{|k, v| v}", "[Either.values, 1][1].p; Either.values.len.p", "Either.A.try.A", "Either['A]",
    "Wrappable.values", "EitherVal.values.len.p; EitherErr.items.len.p", "Either.O.values[0]", "Either.M.values[0]", "%{**Either}.values[0]", "{**Either}.A",
    "[Either]@{|e| e.values[0]}", "Either.callProp(Either, 'A)", "Either.which('A).A", "Either.bear.A", "Either.try.A.A",
    # programs that are files next to a helper module of their own (same spelling ./helper, different files)
    ("m := import(\"./helper\"); [m.name, m.cnt.next, m.cnt.next, m.keys].p", "name := \"helper of a\"; name.p; cnt := <{|i| yield i; recur(i + 1)}>.new(0)"),
    ("m := import(\"./helper\"); m.name.p; import(\"./helper\").keys.p", "name := \"helper of b\"; other := 2; \"loading b\".p"),
    ("h := import(\"./helper\"); h.items.p", "zzonly := 1"),
    # a descendant of Str used as a map key / looked up, with names no other program has used before
    "Loud := Str.bear({hello: m{\"hi from an earlier program\"}}); k := Loud.new(\"zzname1\"); [%{k: 1}[k], {zzother: 1}.which(Loud.new(\"zzname2\"))].p",
    "e := \"zzname1 := 1; zzname2 := 2\".evalEnv; e.keys@{|k| [k, k.proto == Str, k.try.hello.A]}.p",
    ("h := import(\"./helper\"); h.keys@{|k| [k, k.proto == Str, k.try.hello.A]}.p", "zzname1 := 3; zzname2 := 4"),
    # modules shared by all programs of a session (same resolved path): one that raises while it loads, one with a syntax error, a good one
    ("nil.try.{|u| import(\"../lib/broken\")}.A.p; nil.try.{|u| import(\"../lib/broken\")}.err.msg.p", "zzunused := 0"),
    ("nil.try.{|u| import(\"../lib/syntaxerr\")}.err.S.p; import(\"../lib/good\").v.p", "zzunused := 0"),
    ("g := import(\"../lib/good\"); [g.v, g.keys].p; nil.try.{|u| import(\"../lib/broken\")}.val.p", "zzunused := 0"),
    ("import(\"../lib/broken\")", "zzunused := 0"),
    # standard modules invited into the program's scope (at top level, inside a function), and programs that ask for the names they define
    "invite!(\"dummy\"); message.p", "invite!(\"dummy_native\"); message", "invite!(\"http\"); [Response.new(status: 201).status, C.keys, Server.keys].p",
    "f := {|| invite!(\"dummy\"); message}; f().p; nil.try.{|u| message}.A.p", "d := import(\"dummy\"); d.message.p; nil.try.{|u| message}.A.p",
    "nil.try.{|u| message}.A", "[nil.try.{|u| Response}.err.S, nil.try.{|u| Client}.err.S, nil.try.{|u| C}.err.S, nil.try.{|u| Server}.err.S, nil.try.{|u| _internal}.err.S].p",
    # top-level definitions with the names the Pangaea-written natives refer to freely, and programs that call such natives
    "Arr := 3; Map := 4; JSON := 5; nil", "[nil.try.{|u| \"[1]\".decJSON}.A, nil.try.{|u| [[1, 2], [3, 4]].T}.A, nil.try.{|u| [1, 1].tally.len}.A].p",
    "Either := 7; EitherVal := 8; StopIterErr := 6; nil", "[nil.try.{|u| 1.try.A}.A, nil.try.{|u| [1, 2].chain([3]).A}.A, nil.try.{|u| [1].first}.A].p",
    "ValueErr := 1; TypeErr := 2; ZeroDivisionErr := 3; nil", "[nil.try.{|u| [].avg}.err.S, nil.try.{|u| 'a.call(1)}.A, nil.try.{|u| \"x\".call(1)}.err.S].p",
    # names met for the first time by an earlier program, in another order than a later program uses them (anything numbered by first use would show)
    "zzordB := 1; zzordA := 2; zzordC := 3; nil", "'zzordC.p; 'zzordA.p; {zzordB: 1}.keys.p",
    "noisy := {|k| {'==: m{|o| k.p; true}}}; ({zzordA: noisy(\"A\"), zzordB: noisy(\"B\"), zzordC: noisy(\"C\")} == {zzordA: 0, zzordB: 0, zzordC: 0}).p",
    "[{zzordC: 1, zzordA: 2, zzordB: 3}.keys, %{'zzordC: 1, 'zzordA: 2}.keys, {zzordB: 1, zzordA: 2}.S, {|zzordC: 1, zzordA: 2| \\_}(zzordA: 5, zzordC: 6)].p",
    # programs that read part, all, or more than all of their standard input
    "[<>, <>]", "<>; <>; <>", "a := <>; a.p; 1",
    # wear: earlier programs that do MANY of something (handled errors, failed calls under a thoughtful chain, calls, names met for the first time);
    # they are used as histories only, before a handful of ordinary probes (anything counted or cached per process shows after them)
    "(1:10500)~@{|i| i.nosuchprop}.len", "(1:10500)@{|i| nil.try.{|u| 1 / 0}.err.nil?}.len", "(1:10500)@{|i| [i]@{|e| {|x| x}(e)}}.len", "(1:3000)@{|i| \"zzw#{i} := #{i}\".evalEnv.keys}.len",
    "f := {|n| f(n - 1) if n > 0; n}; (1:40)@{|i| nil.try.{|u| f(300)}.A}.len",
]
WEAR = {k for k, p_ in enumerate(POOL) if isinstance(p_, str) and p_.startswith(("(1:10500)", "(1:3000)", "f := {|n| f(n - 1)"))}
WEAR_PROBES = {0, 4, 5, 9, 11, 12, 17, 19, 20, 21}
SHARED = {"lib/broken.pangaea": "v := 1\nraise Err.new(\"boom\")\n", "lib/syntaxerr.pangaea": "v := (1 +\n", "lib/good.pangaea": "v := 42; \"loading good\".p\n"}
HELPER = {i: p[1] for i, p in enumerate(POOL) if isinstance(p, tuple)}
POOL = [p[0] if isinstance(p, tuple) else p for p in POOL]


def helpers(idx):
    return [HELPER.get(p, "") for p in idx]
EMBEDDINGS = ["playground", "evalenv", "runtest"]


# the third embedding the statement names: requests handled by ONE server.  A request's response must be the response a newly started
# server gives to that request alone, whatever the same server (the same handler objects) has answered before.
SERVER_SCRIPT = """http := import("http")
stop := http.S.serve(
  http.S.get("/plain", {|req| "A"}),
  http.S.get("/notfound", {|req| http.Response.new(status: 404, body: "no")}),
  http.S.get("/item", {|req| http.Response.new(status: 404, body: "none") if req.queries.keys.has?("missing") else "found"}),
  http.S.get("/hdr", {|req| http.Response.new(body: "h", headers: {"X-K": "v"}) if req.queries.keys.has?("set") else "plain h"}),
  http.S.post("/json", {|req| JSON.dec(req.body).keys.S}),
  http.S.get("/err", {|req| 1 / 0}),
  http.S.get("/def", {|req| leak := 5; counter := leak + 1; counter.S}),
  http.S.get("/use", {|req| [nil.try.{|u| leak}.err.type._name, nil.try.{|u| counter}.err.type._name].S}),
  http.S.get("/env", {|req| "x := 1; y := 2".evalEnv.keys.S}),
  http.S.get("/created", {|req| http.Response.new(status: 201, body: "made", headers: {"X-Made": "1"})}),
  http.S.get("/trace", {|req| nil.try.{|u| {|n| n.nosuchprop}(1)}.err.S}),
  background: true, url: ":@PORT@")
"""
SERVER_REQS = [("GET", "/plain", ""), ("GET", "/notfound", ""), ("GET", "/item", ""), ("GET", "/item?missing=1", ""), ("GET", "/hdr", ""), ("GET", "/hdr?set=1", ""),
               ("POST", "/json", '{"b": 1, "a": 2}'), ("GET", "/err", ""), ("GET", "/def", ""), ("GET", "/use", ""), ("GET", "/env", ""), ("GET", "/created", ""), ("GET", "/trace", ""),
               ("GET", "/nosuchroute", "")]


def server_session(idx):
    reqs = [{"method": SERVER_REQS[i][0], "path": SERVER_REQS[i][1], "headers": {}, "body": SERVER_REQS[i][2]} for i in idx]
    resp = pvlib.run_plain_driver({"n": 1, "progs": [], "rounds": [], "http": {"script": SERVER_SCRIPT, "requests": reqs, "main": [], "pre": "", "clients": 1}})
    h = resp.get("http") or {}
    if resp.get("end") != "ok" or not str(h.get("start", "")).startswith("val:") or not isinstance(h.get("conc"), list) or len(h["conc"]) != len(idx):
        raise pvlib.Broken(f"server session {idx} did not run: {str(resp)[:300]}")
    return h["conc"]


def norm(emb, o):
    o = re.sub(r"<dir>/t\d\d/", "<dir>/tNN/", o)
    if emb == "runtest":
        o = re.sub(r"t\d\d_test", "tNN_test", o)
        if o.endswith("\x1dstderr:\x1dexit:0"):       # the driver's final status is attached to the last file only
            o = o[:-len("\x1dstderr:\x1dexit:0")]
    return o


def hh(s):
    return hashlib.sha1(s.encode()).hexdigest()[:12]


def usable(emb, p):
    # the test driver would run the shared modules as tests; and its files share the ONE standard input of the process (what an earlier
    # file consumed is gone for the next one by the nature of the driver, not by interpreter state)
    return not (emb == "evalenv" and "`" in p) and not (emb == "runtest" and ("../lib/" in p or "<>" in p))


def run():
    ck = Check("C19")
    thorough = ck.tier == "thorough"
    n = len(POOL)
    res = run_tlc("MC_C19", defines={"NProgs": str(n), "MaxHist": "2"}, timeout_s=1200)
    if res.violation:
        raise pvlib.Broken("PanSession property violated in the model: " + res.violation)
    ck.add_tlc(res, f"MC_C19 NProgs={n} MaxHist=2")
    sessions = [c["hist"] for c in payloads(res, "CASE ")]
    # every (history of one program, probe) pair, and a seeded sample of the 2-program histories
    light = lambda s_: not any(p - 1 in WEAR for p in s_)
    sessions = ([s for s in sessions if len(s) == 2 and (light(s) or (s[0] - 1 in WEAR and s[1] - 1 in WEAR_PROBES))]
                + ck.rng.sample([s for s in sessions if len(s) == 3 and light(s)], 40000 if thorough else 900))
    # FreshObs: each program alone in a newly started interpreter process
    fresh = {}
    freqs = [{"id": f"{emb}.{p}", "mode": "session", "embed": emb, "progs": [POOL[p]], "helpers": helpers([p]), "shared": SHARED, "stdin": "l1\nl2\n"} for emb in EMBEDDINGS for p in range(n)]
    fout = run_cases(freqs, label="C19 fresh", isolate=True)      # a newly started process each: built-in objects are process-wide
    for emb in EMBEDDINGS:
        for p in range(n):
            ex = fout[f"{emb}.{p}"]["extra"]
            fresh[(emb, p)] = norm(emb, ex["obs"][0]) if ex and ex.get("obs") else None
    reqs, meta = [], {}
    for si, s in enumerate(sessions):
        for emb in EMBEDDINGS:
            idx = [p - 1 for p in s]
            if emb == "runtest":
                # the driver stops at the first failing file: histories use passing programs only (the probe may fail)
                if any("exit:1" in (fresh[(emb, p)] or "exit:1") for p in idx[:-1]):
                    continue
            if not all(usable(emb, POOL[p]) for p in idx):
                continue
            rid = f"{si}.{emb}"
            reqs.append({"id": rid, "mode": "session", "embed": emb, "progs": [POOL[p] for p in idx], "helpers": helpers(idx), "shared": SHARED, "stdin": "l1\nl2\n", "deadline_ms": 20000})
            meta[rid] = (emb, idx)
    # a `pangaea test` run is a process of its own: its sessions get one each (the built-in objects, and whatever natives close over, are per process)
    out = run_cases([r for r in reqs if r["embed"] != "runtest"], label="C19 sessions")
    out.update(run_cases([r for r in reqs if r["embed"] == "runtest"], label="C19 test-driver sessions", isolate=True))
    rows, full = [], {}
    for rid, (emb, idx) in meta.items():
        o = out[rid]
        if str(o["end"]).startswith(("discarded:", "fuel:")):
            continue                      # the worker gave up on the session (deadline): nothing observed
        if pvlib.is_host_crash(o["end"]) or not o.get("extra"):
            ck.reject("C19:host-crash", f"session {[POOL[p] for p in idx]} under {emb}: {o['end']}", {"embedding": emb, "programs": [POOL[p] for p in idx]})
            continue
        obs = [norm(emb, x) for x in o["extra"]["obs"]]
        shared = o["extra"]["shared"] or ["-"]
        fr = [fresh[(emb, p)] for p in idx]
        rows.append({"id": rid, "obs": [hh(x) for x in obs], "fresh": [hh(x or "") for x in fr], "shared": shared})
        full[rid] = (obs, fr)
    t = run_tlc("Trace_C19", files={"c19.ndjson": ndjson(rows)}, timeout_s=1500)
    ck.add_tlc(t, "Trace_C19")
    vs = payloads(t, "V ")
    if len(vs) != len(rows):
        raise pvlib.Broken("Trace_C19 verdict count mismatch")
    nontrivial = 0
    for v in vs:
        emb, idx = meta[v["id"]]
        obs, fr = full[v["id"]]
        progs = [POOL[p] for p in idx]
        if len(set(idx)) > 1:
            nontrivial += 1
        if not v["complete"]:
            ck.reject(f"C19:{emb}:session-incomplete", f"session {progs}: {len(obs)} of {len(idx)} programs were observed", {"embedding": emb, "programs": progs, "observed": obs})
        elif v["obs"]:
            k = v["obs"] - 1
            ck.reject(f"C19:{emb}:probe={idx[k] + 1}:after={'+'.join(str(p + 1) for p in sorted(set(idx[:k])))}",
                      f"under {emb}, after {progs[:k]} the program {progs[k]!r} shows {obs[k]!r}; in a new interpreter it shows {fr[k]!r}",
                      {"embedding": emb, "history": progs[:k], "program": progs[k], "observed": obs[k], "fresh": fr[k]})
        elif v["shared"]:
            k = v["shared"] - 2
            ck.reject(f"C19:{emb}:shared-state-changed-by={idx[k] + 1 if k >= 0 else '?'}", f"under {emb}, program {progs[k]!r} changed the interpreter-wide state projection",
                      {"embedding": emb, "program": progs[k], "history": progs[:k]})
    # ---- server embedding
    from concurrent.futures import ThreadPoolExecutor
    nreq = len(SERVER_REQS)
    ssessions = [[i] for i in range(nreq)] + [[i, j] for i in range(nreq) for j in range(nreq)]
    ssessions += [[ck.rng.randrange(nreq) for _ in range(3)] for _ in range(400 if thorough else 60)]
    pvlib.build_plain_driver()
    with ThreadPoolExecutor(max_workers=8) as ex:
        sobs = list(ex.map(server_session, ssessions))
    sfresh = {i: sobs[i][0] for i in range(nreq)}
    srows = [{"id": f"srv{k}", "obs": [hh(x) for x in ob], "fresh": [hh(sfresh[i]) for i in idx], "shared": ["-"]} for k, (idx, ob) in enumerate(zip(ssessions, sobs))]
    t2 = run_tlc("Trace_C19", files={"c19.ndjson": ndjson(srows)}, timeout_s=900)
    ck.add_tlc(t2, "Trace_C19 server sessions")
    vs2 = payloads(t2, "V ")
    if len(vs2) != len(srows):
        raise pvlib.Broken("Trace_C19 verdict count mismatch (server sessions)")
    for v in vs2:
        k = int(v["id"][3:])
        idx, ob = ssessions[k], sobs[k]
        if v["obs"]:
            j = v["obs"] - 1
            name = lambda i: f"{SERVER_REQS[i][0]} {SERVER_REQS[i][1]}"
            ck.reject(f"C19:server:request={SERVER_REQS[idx[j]][1].split('?')[0]}:after={'+'.join(sorted({SERVER_REQS[i][1].split('?')[0] for i in idx[:j]}))}",
                      f"one server, after {[name(i) for i in idx[:j]]} the request {name(idx[j])} is answered {ob[j]!r}; a newly started server answers {sfresh[idx[j]]!r}",
                      {"embedding": "server", "history": [name(i) for i in idx[:j]], "request": name(idx[j]), "observed": ob[j], "fresh": sfresh[idx[j]], "script": SERVER_SCRIPT})
    ck.cov["server_sessions"] = len(ssessions)
    ck.sample({"embedding": "playground", "session": [POOL[p - 1] for p in sessions[3]], "fresh_probe_obs": fresh[("playground", sessions[3][-1] - 1)]})
    ck.cov["evaluations"] = sum(len(m[1]) for m in meta.values())
    ck.cov["distinct_nontrivial"] = nontrivial
    ck.cov["traces_validated_against_impl"] = len(rows)
    ck.cov["exhaustive"] = False
    ck.cov["rule"] = (f"pool of {n} programs (define variables, read names other programs define, raise the shared `_`, fail with 6 error kinds incl. syntax errors, "
                      "shadow built-in names, evalEnv, exhaust built-in iterators, leave StopIterErr uncaught, pass keywords only through **, touch Either, read stdin, import a module ./helper of their own directory, use Str descendants as map keys and inspect the key objects of evalEnv / import results); "
                      "server embedding: 14 requests to one server with 11 handlers (plain / status / headers / JSON / raising / locals / evalEnv), every pair and seeded triples, each response against a newly started server's; "
                      "sessions = all (history, probe) pairs and (quick: 900 / thorough: 40000 seeded) two-program histories + probe, under playground, Str#evalEnv "
                      "and the real `pangaea test` driver; non-trivial = sessions of distinct programs")
    ck.assumptions = ["web/wasm/executor.go needs GOOS=js: its execute body (one constant scope, NewEnclosedEnv per run, IO re-injected) is reproduced in the worker",
                      "FreshObs is measured, per embedding, in a newly created interpreter; `pangaea test` histories contain passing files only (the driver stops at a failure)"]
    return ck.finish()


def replay(path):
    c = json.load(open(path))["case"]
    print(json.dumps(c, indent=1)[:2000])
    return 0

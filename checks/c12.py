"""C12 one truthiness rule, short-circuit.

(1) every conditional construct x every condition value with side-effecting operands is run in the real interpreter and
    validated against PanEval (which has a single Truthy operator) wherever the value is inside the modelled fragment;
(2) for the whole pool (incl. typed descendants, Either values, user-defined B) the observed decision of each of the eleven
    constructs and the value's B property are tabulated and TLC checks the law Agree of PanTruth on the table."""
import json
import pvlib
from pvlib import Check, run_cases, run_tlc, payloads, ndjson
from checks.panlang import *
from checks import evalcheck

MODELLED = [("0", Int(0)), ("1", Int(1)), ("-1", Int(-1)), ("2", Int(2)), ('""', Str("")), ('"a"', Str("a")), ("[]", Arr()), ("[0]", Arr(Int(0))),
            ("[[]]", Arr(Arr())), ("nil", Nil()), ("true", Bool(True)), ("false", Bool(False)), ("{}", Obj()), ("{a: 0}", Obj(("a", Int(0)))),
            ("{B: true}", Obj(("B", Bool(True)))), ("{B: false}", Obj(("B", Bool(False)))), ("{B: 1}", Obj(("B", Int(1)))),
            ("{B: nil}", Obj(("B", Nil()))), ("{B: m{true}}", Obj(("B", Fn([], [Bool(True)], method=True)))),
            ("{B: m{false}}", Obj(("B", Fn([], [Bool(False)], method=True)))), ("{B: m{1}}", Obj(("B", Fn([], [Int(1)], method=True)))),
            ("{B: m{say(9); true}}", Obj(("B", Fn([], [Say(Int(9)), Bool(True)], method=True)))),
            ("{B: m{say(9); false}}", Obj(("B", Fn([], [Say(Int(9)), Bool(False)], method=True)))),
            ('{B: m{"yes"}}', Obj(("B", Fn([], [Str("yes")], method=True)))), ("{B: m{[false]}}", Obj(("B", Fn([], [Arr(Bool(False))], method=True)))),
            ("{B: m{.k}, k: true}", Obj(("B", Fn([], [PCall(None, "k")], method=True)), ("k", Bool(True))))]
RAWS = ["0.0", "1.5", "(1:2)", "%{}", "%{1: 2}", "'sym", "Int", "Str", "Arr", "Obj", "Int.bear.new(0)", "Int.bear.new(5)",
        "Int.bear({B: m{false}}).new(5)", "Int.bear({B: m{true}}).new(0)", "Str.bear({B: m{true}}).new(\"\")", "Str.bear.new(\"x\")",
        "Arr.bear({B: m{true}}).new([])", "Nil.bear({B: m{true}}).new", "Nil.bear.new", "{a: 1}.bear", "{}.bear({B: true})", "{B: true}.bear",
        "{B: false}.bear({a: 1})", "1.try", "0.try", "nil.try", "1.try.nosuchprop", "1.try.nosuchprop.err", "Float.bear({B: m{false}}).new(1.5)",
        "{B: m{2}}", "{B: \"yes\"}", "{B: [1]}", "[nil]", "[false]", '"0"', '"false"',
        # booleans from every producer (decoders, comparisons, predicates, conversions), not only the literals
        'JSON.dec("true")', 'JSON.dec("false")', 'JSON.dec(`[true, false]`)[0]', 'JSON.dec(`[true, false]`)[1]', '`{"a": true}`.decJSON.a', '`{"a": false}`.decJSON.a',
        "(1 == 1)", "(1 == 2)", "(1 < 2)", "(2 < 1)", "1.B", "0.B", "[].empty?", "[1].empty?", "nil.nil?", "1.nil?", "true.!", "false.!", "'a.sym?", "[1].has?(1)", "[1].has?(2)",
        "1.try.err?", "1.try.nosuch.err?", "{a: 1}.kindOf?(Obj)", "1.kindOf?(Str)", "[true][0]", "{t: true}.t", "%{1: false}[1]", "true.bear", "true.B", "(!0)", "(!1)",
        "(1 === 1)", "(1 !== 1)", "1.between?(0, 2)", "\"a\".match(\"b\").empty?", "(1:3).has?(2)", "[1, 2].all?({|e| e > 0})", "[1, 2].any?({|e| e > 5})",
        # B raises: it does not yield true, so every construct must treat the value as false (and keep agreeing)
        "{B: m{Err.new(\"cannot boolify\")}}", "{B: m{1 / 0}}", "{|x| x}", "Func", "m{1}", "{B: m{undefinedname}}"]
RAISING_B = RAWS[-6:]


def constructs(c):
    """eleven programs; c is the condition node (re-evaluated in each)"""
    return [
        ("ifelse", [If(c, Say(Int(1)), Say(Int(2)))]),
        ("ifelsenil", [Say(Arr(If(c, Say(Nil()), Say(Int(2)))))]),      # a then-branch whose value is nil is still the branch taken
        ("if", [Say(Arr(If(c, Say(Int(1)))))]),
        ("not", [Say(Pre("!", c))]),
        ("notnot", [Say(Pre("!", Pre("!", c)))]),          # two negations: the truth value itself, as a bool
        ("and", [Say(Arr(Inf("&&", c, Say(Int(5)))))]),
        ("or", [Say(Arr(Inf("||", c, Say(Int(6)))))]),
        ("ret", [Asg("f", Fn([], [Jump("return", Int(1), c), Int(2)])), Say(Call(Id("f")))]),
        ("raise", [Asg("f", Fn([], [Jump("raise", Raise("Err", "guarded"), c), Int(2)])), Say(Try(Nil(), Fn(["x"], [Call(Id("f"))]), "A"))]),
        ("defer", [Asg("f", Fn([], [Jump("defer", Say(Int(7)), c), Int(0)])), Say(Call(Id("f")))]),
        ("yield", [Say(Raw("<{|| yield 1 if (" + src(c) + ")}>.new.try.next.A"))]),
    ]


def decide(name, ev, end):
    """observed decision of a construct: T / F / X"""
    outs = [e[4:] for e in ev if e.startswith("out:") and e != "out:9"]
    if not end.startswith("val:"):
        return "X"
    if name == "ifelse":
        return {("1",): "T", ("2",): "F"}.get(tuple(outs), "X")
    if name == "ifelsenil":
        return {("nil", "[nil]"): "T", ("2", "[2]"): "F"}.get(tuple(outs), "X")
    if name == "if":
        return {("1", "[1]"): "T", ("[nil]",): "F"}.get(tuple(outs), "X")
    if name == "not":
        return {("false",): "T", ("true",): "F"}.get(tuple(outs), "X")
    if name == "notnot":
        return {("true",): "T", ("false",): "F"}.get(tuple(outs), "X")
    if name == "and":      # true: right operand evaluated once and returned; false: left returned, right not evaluated
        if outs[:1] == ["5"] and len(outs) == 2 and outs[1] == "[5]":
            return "T"
        return "F" if len(outs) == 1 and outs[0] != "[5]" else "X"
    if name == "or":
        if outs[:1] == ["6"] and len(outs) == 2 and outs[1] == "[6]":
            return "F"
        return "T" if len(outs) == 1 and outs[0] != "[6]" else "X"
    if name == "ret":
        return {("1",): "T", ("2",): "F"}.get(tuple(outs), "X")
    if name == "raise":
        return {("[nil, <err Err: guarded>]",): "T", ("[2, nil]",): "F"}.get(tuple(outs), "X")
    if name == "defer":
        return {("7", "0"): "T", ("0",): "F"}.get(tuple(outs), "X")
    if name == "yield":
        return {("[1, nil]",): "T", ("[nil, <err StopIterErr: iter stopped>]",): "F"}.get(tuple(outs), "X")
    return "X"


def run():
    ck = Check("C12")
    pool = MODELLED + [(s, Raw(s)) for s in RAWS]
    tagged, index = [], []
    for vi, (txt, node) in enumerate(pool):
        for name, body in constructs(node):
            tagged.append((f"{name}:{txt}", body))
            index.append((vi, name))
    # mixed && / || chains in both nestings with truthy / falsy operands: which operands run, and which one is returned
    for shape in ("(a&&b)||c", "(a||b)&&c", "a&&(b||c)", "a||(b&&c)", "((a&&b)||c)&&d", "((a||b)&&c)||d"):
        nops = 4 if "d" in shape else 3
        for bits in range(2 ** nops):
            vals = [Say(Int(k + 1)) if bits >> k & 1 else Say(Int(0) if k % 2 == 0 else Str("")) for k in range(nops)]
            a, b, c = vals[:3]
            d = vals[3] if nops == 4 else None
            e = {"(a&&b)||c": Inf("||", Inf("&&", a, b), c), "(a||b)&&c": Inf("&&", Inf("||", a, b), c), "a&&(b||c)": Inf("&&", a, Inf("||", b, c)),
                 "a||(b&&c)": Inf("||", a, Inf("&&", b, c)), "((a&&b)||c)&&d": Inf("&&", Inf("||", Inf("&&", a, b), c), d) if d else None,
                 "((a||b)&&c)||d": Inf("||", Inf("&&", Inf("||", a, b), c), d) if d else None}[shape]
            tagged.append((f"mixed:{shape}:{bits}", [Say(Arr(e))]))
            index.append((-1, "mixed"))
    res, st = evalcheck.run_family(ck, "C12", tagged, "constructs")
    ck.cov["paneval"] = st
    # B property of every pool value, and the decision table
    breq = [{"id": f"b{vi}", "src": f"x := {txt}; say(x.B)"} for vi, (txt, _) in enumerate(pool)]
    bout = run_cases(breq, label="C12 B")
    rows = []
    names = [n for n, _ in constructs(Int(0))]
    keys = list(res.keys())
    for vi, (txt, node) in enumerate(pool):
        b = bout[f"b{vi}"]
        outs = [e for e in b["events"] if e.startswith("out:") and e != "out:9"]
        if txt in RAISING_B:
            braises = b["end"].startswith("err:")
            if not braises:
                continue
            outs = ["out:<raises>"]
        elif not b["end"].startswith("val:") or len(outs) != 1:
            continue                        # B is missing / aborts otherwise: outside the property
        obs, unfinished = [], False
        for name in names:
            rid = keys[[k for k, (v2, n2) in enumerate(index) if v2 == vi and n2 == name][0]]
            o = res[rid]["observed"]
            unfinished = unfinished or o["end"].startswith(("discarded:", "fuel:"))
            obs.append(decide(name, o["ev"], o["end"]))
        if unfinished:
            continue                        # a construct run that the worker gave up on (deadline): the row would be incomplete
        rows.append({"id": txt, "b": "T" if outs[0] == "out:true" else "F", "obs": obs})
    t = run_tlc("PanTruth", files={"c12.ndjson": ndjson(rows)}, workers=4)
    ck.add_tlc(t, "PanTruth Agree")
    vs = payloads(t, "V ")
    if len(vs) != len(rows):
        raise pvlib.Broken("PanTruth verdict count mismatch")
    for v in vs:
        if not v["ok"]:
            row = [r for r in rows if r["id"] == v["id"]][0]
            ck.reject(f"C12:agree:{'+'.join(sorted(v['bad']))}",
                      f"condition value {v['id']} (its B yields {'true' if row['b'] == 'T' else 'not true'}): constructs {sorted(v['bad'])} decide differently: {dict(zip(names, row['obs']))}",
                      {"value": v["id"], "B_is_true": row["b"], "decisions": dict(zip(names, row["obs"]))})
    ck.sample({"value": rows[0]["id"], "B": rows[0]["b"], "decisions": dict(zip(names, rows[0]["obs"]))})
    # chains of three and four operands: every operand is tested in turn by the same rule; the first that decides is returned, the rest is
    # not evaluated; an operand that RAISES ends the expression with its error (it is not a condition value)
    ERRZ = "[nil, <err ZeroDivisionErr: cannot be divided by 0>]"
    chains = [("say(1) && say(2) && say(3)", ["1", "2", "3", "[3, nil]"]), ("say(1) && say(nil) && say(3)", ["1", "nil", "[nil, nil]"]), ("say(0) && say(2) && say(3)", ["0", "[0, nil]"]),
              ("say(nil) || say(0) || say(3)", ["nil", "0", "3", "[3, nil]"]), ("say(nil) || say(2) || say(3)", ["nil", "2", "[2, nil]"]),
              ("say(1) && say(1 / 0) && say(3)", ["1", ERRZ]), ("say(1) && say(2) && say(1 / 0) && say(4)", ["1", "2", ERRZ]), ("say(nil) || say(1 / 0) || say(3)", ["nil", ERRZ]),
              ("say(nil) || say(0) || say(1 / 0) || say(4)", ["nil", "0", ERRZ]), ("say(1) && (say(2) && say(1 / 0)) && say(4)", ["1", "2", ERRZ]), ("say(1) && say(nil) && say(1 / 0)", ["1", "nil", "[nil, nil]"]),
              ("say(1) && say(2) || say(1 / 0)", ["1", "2", "[2, nil]"]), ("say(nil) && say(2) || say(1 / 0) || say(5)", ["nil", ERRZ]),
              ("'yes if (say(1) && say(1 / 0) && say(3)) else 'no", ["1", ERRZ]), ("{|| return 'taken if say(1) && say(1 / 0) && say(3); 'fell}()", ["1", ERRZ])]
    cout = run_cases([{"id": f"h{k}", "src": f"say(nil.try.{{|u| {src_}}}.A)"} for k, (src_, _) in enumerate(chains)], label="C12 chains of three and four operands")
    for k, (src_, want) in enumerate(chains):
        o = cout[f"h{k}"]
        got = [e[4:] for e in o["events"] if e.startswith("out:")]
        if got != want and not o["end"].startswith(("discarded:", "fuel:")):
            ck.reject("C12:chain:" + ("raising-operand" if "1 / 0" in src_ else "deciding-operand"), f"{src_!r}: evaluated {got}, expected {want}", {"src": src_, "observed": got, "expected": want})
    ck.cov["operand_chain_programs"] = len(chains)
    ck.cov["evaluations"] = len(tagged) + len(breq)
    ck.cov["distinct_nontrivial"] = len(rows)
    ck.cov["traces_validated_against_impl"] = st["ok"] + st["mismatch"] + len(rows)
    ck.cov["exhaustive"] = True
    ck.cov["rule"] = (f"pool of {len(pool)} condition values (zero/non-zero of every type, prototypes, bear descendants with and without a user-defined B, "
                      "objects whose B is a value / method / side-effecting method / non-boolean, Either and error values) x 11 constructs with "
                      "side-effecting operands; non-trivial = values whose B evaluates (table rows checked by the Agree law)")
    ck.assumptions = ["values whose B raises or is missing are outside the property (conversion-hook errors)"]
    return ck.finish()


def replay(path):
    c = json.load(open(path))["case"]
    print(c)
    print("re-run `python3 pv.py C12`")
    return 0

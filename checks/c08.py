"""C08 evaluation order and reproducibility.

(1) every host construct with side-effecting children in every slot: the recorded order of effects must be the one PanEval
    prescribes (source order; positional then keyword arguments; first duplicate wins);
(2) PanEval is a function: one behaviour per program.  Each program (and a family of programs outside the modelled fragment
    that iterate / print / compare / unpack objects and maps) is evaluated N times in one process and in several processes:
    every run must equal the first one, and the first one must be the specification's."""
import json
import pvlib
from pvlib import Check, run_cases
from checks import evalfam, evalcheck, panlang

RAW = [
    "m := %{'c: 1, 'a: 2, 'b: 3, 10: 4, 2: 5}; [m.keys, m.values, m.items, m.S, %{**m}.keys, m@{|k, v| [k, v]}]",
    "o := {c: 1, a: 2, b: 3, _p: 4}; [o.keys, o.values, o.items, o.S, {**o}.keys, %{**o}.keys, o@{|k, v| [k, v]}]",
    "f := {|a: 1, b: 2, c: 3, d: 4| [\\_, a, b, c, d]}; f(d: say(1), c: say(2), b: say(3), a: say(4))",
    "f := {|a: 1, b: 2| \\_}; f(b: say(1), a: say(2), b: say(3), a: say(4))",
    "f := {|x: say(1), y: say(2), z: say(3)| [x, y, z]}; f()",
    "m1 := %{1: 'a, 2: 'b, 3: 'c}; m2 := %{3: 'c, 1: 'a, 2: 'b}; [m1 == m2, m1.keys, m2.keys, %{**m1, **m2}.keys, %{**m2, **m1}.keys]",
    "o1 := {a: 1, b: 2}; o2 := {b: 3, c: 4, d: 5, e: 6}; [{**o1, **o2}, {**o2, **o1}, %{**o1, **o2}, %{**o2, 'z: 0, **o1}]",
    "JSON.dec(`{\"z\": 1, \"y\": {\"b\": 2, \"a\": [1, {\"q\": 1, \"p\": 2}]}, \"x\": 3}`).p; JSON.dec(`{\"k3\": 1, \"k1\": 2, \"k2\": 3}`).keys",
    "{z: 1, y: 2, x: 3, w: {b: 1, a: 2}}.p; %{'z: 1, 'y: 2, 5: 3, 1.5: 4, nil: 5, true: 6, [1]: 7}.p; %{[2]: 1, [1]: 2, {a: 1}: 3}.p",
    "\"#{say(1)}:#{say(2)}:#{say(3)}:#{say(4)}\"",
    "%{say(1): say(2), say(3): say(4), say(5): say(6)}",
    "[1, 2, 3]@{|x| say(x)}; {a: 1, b: 2, c: 3}@{|k, v| say(k)}; %{'b: 1, 'a: 2}@{|k, v| say(k)}; (1:4)@{|x| say(x)}",
    "o := {b: m{say(2)}, a: m{say(1)}, c: m{say(3)}}; o.keys@{|k| o[k](o)}",
    "Obj.keys(private?: true).len; Int.keys.len; Str.keys; Arr.keys; Kernel.keys",
    "a := <>; 1",
    "x := {d: 1, c: 2, b: 3, a: 4}; y := x.bear({e: 5}); [y.keys, y.ancestors.len, x == {a: 4, b: 3, c: 2, d: 1}, x.items]",
    "f := {|a, b: 1, *c| 1}; g := {|**o| 1}; 1",
    # pairs whose keys print alike (distinct floats, a keyword written several times): the printed order is still fixed
    "m := %{1.00000001: 1, 1.00000002: 2, 1.00000003: 3, 1.00000004: 4, 1.00000005: 5}; m.p; [m.S, m.repr, m.keys, m.values, \"#{m}\"]",
    "f := {|x, a: 1, a: 2, a: 3, a: 4| x}; f.p; [f.S, f.repr, {g: f}.S, [f].S]",
    "%{0.1 + 0.2: 'a, 0.3: 'b, 0.30000000000000001: 'c}.p; %{\"k\": 1.00000001}.S.p",
    # comparisons whose elements' own == raises / differs: the outcome must not depend on which entry is compared first
    "bad := {'==: m{|o| raise Err.new(\"boom\")}}; nil.try.{|u| {a: bad, b: 1} == {a: bad, b: 2}}.A",
    "bad := {'==: m{|o| raise Err.new(\"boom\")}}; nil.try.{|u| {a: bad, b: 1, c: 2, d: 3, e: 4} == {a: bad, b: 2, c: 3, d: 4, e: 5}}.A",
    "bad := {'==: m{|o| raise Err.new(\"boom\")}}; nil.try.{|u| %{1: bad, 2: 1, 3: 1, 4: 1} == %{1: bad, 2: 2, 3: 2, 4: 2}}.A",
    "bad := {'==: m{|o| raise Err.new(\"boom\")}}; nil.try.{|u| [bad, 1, 2] == [bad, 2, 3]}.A",
    "bad := {'==: m{|o| raise Err.new(\"boom\")}}; nil.try.{|u| %{[1]: bad, [2]: 1, [3]: 1} == %{[1]: bad, [2]: 2, [3]: 2}}.A",
    "loud := {'==: m{|o| say(\"cmp\"); false}}; [{a: loud, b: 1, c: 2, d: 3} == {a: loud, b: 2, c: 3, d: 4}, {a: 1, b: loud, c: loud} != {a: 2, b: loud, c: loud}]",
    "noisy := {|k| {'==: m{|o| say(k); true}}}; {a: noisy(1), b: noisy(2), c: noisy(3), d: noisy(4)} == {a: 0, b: 0, c: 0, d: 0}",
    "noisy := {|k| {'==: m{|o| say(k); true}}}; %{1: noisy(1), 2: noisy(2), 3: noisy(3), 4: noisy(4)} == %{1: 0, 2: 0, 3: 0, 4: 0}",
    "o := {d: 1, c: 2, b: 3, a: 4}; [o.values, o.items, o.A, o.S, o.repr, o.M.keys, o@{|k, v| v}, o.keys.sum, o$([]){|acc, kv| [*acc, kv]}]",
    "m := %{'d: 1, 'c: 2, 'b: 3, 'a: 4}; [m.values, m.items, m.A, m.S, m.repr, m.O.keys, m@{|k, v| v}, m$([]){|acc, kv| [*acc, kv]}]",
    # containers in which SEVERAL members fail (or are unrepresentable): which failure is reported must not depend on a hash-table walk
    "JSON.dec(`{\"a\": 1e300, \"b\": 2e300, \"c\": -3e300, \"d\": 9223372036854775808, \"e\": 1e19, \"f\": 4e300}`)",
    "JSON.dec(`{\"a\": {\"x\": 1e300}, \"b\": [2e300], \"c\": {\"y\": [3e300, 4e300]}, \"d\": 5e300, \"e\": {\"z\": 6e300}}`)",
    "`{\"p\": 1e999, \"q\": 2e999}`.decJSON",
    "`[{\"a\": 18446744073709551616, \"b\": 36893488147419103232, \"c\": -18446744073709551616, \"d\": 1.5e308, \"e\": 1.6e308}]`.decJSON.p",
    "mk := {|k| {S: m{raise Err.new(k)}, repr: m{raise Err.new(k + \"r\")}}}; o := {d: mk(\"d\"), b: mk(\"b\"), a: mk(\"a\"), c: mk(\"c\")}; [nil.try.{|u| o.S}.A, nil.try.{|u| o.repr}.A, nil.try.{|u| \"#{o}\"}.A, nil.try.{|u| [o].S}.A]",
    "mk := {|k| {S: m{raise Err.new(k)}, repr: m{raise Err.new(k + \"r\")}}}; m := %{'d: mk(\"d\"), 'b: mk(\"b\"), 'a: mk(\"a\"), 3: mk(\"3\")}; [nil.try.{|u| m.S}.A, nil.try.{|u| m.repr}.A, nil.try.{|u| m.p}.A]",
    "f := {|x| x}; nil.try.{|u| {d: f, b: f, a: <{|i| yield i}>, c: 1.try}.S}.A",
    "nil.try.{|u| {d: 1, c: 2, b: 3, a: 4}@{|k, v| raise Err.new(k)}}.A; nil.try.{|u| %{'d: 1, 'c: 2, 'b: 3, 'a: 4}@{|k, v| raise Err.new(k)}}.A",
    "bad := {|k| {'==: m{|o| raise Err.new(k)}}}; nil.try.{|u| {d: bad(\"d\"), c: bad(\"c\"), b: bad(\"b\"), a: bad(\"a\")} == {d: 0, c: 0, b: 0, a: 0}}.A",
    "i := import(\"http/internal\"); nil.try.{|u| i['request](method: \"GET\", url: \"http://127.0.0.1:1/\", headers: {d: 1, c: 2, b: 3, a: 4})}.A",
    "i := import(\"http/internal\"); nil.try.{|u| i['request](method: \"GET\", url: \"http://127.0.0.1:1/\", queries: {d: 1, c: [2], b: nil, a: 4.5})}.A",
    "bad := {|k| {'==: m{|o| raise Err.new(k)}}}; nil.try.{|u| %{4: bad(\"d\"), 3: bad(\"c\"), 2: bad(\"b\"), 1: bad(\"a\")} == %{4: 0, 3: 0, 2: 0, 1: 0}}.A",
]


# duplicate-key resolution: the first occurrence wins in every construct that can name a key twice (explicit pairs, `**` operands of
# literals and of calls, digests), for scalar and for non-scalar keys - the expected values are the statement's, not a recorded run's
FIRST_WINS = [
    ("%{**%{[1]: 'a}, **%{[1]: 'b}}.items", 'val:[[[1], "a"]]'),
    ("%{[1]: 'x, [3, 3]: 'e, **%{[1]: 'a, [2]: 'c}, **%{[2]: 'b, [3, 3]: 'd, [4]: 'f}, **%{[4]: 'g}}.items", 'val:[[[1], "x"], [[3, 3], "e"], [[2], "c"], [[4], "f"]]'),
    ("%{1: 'a, 1: 'b, \"s\": 'c, **%{1: 'd, \"s\": 'e, 2: 'f}, **%{2: 'g}}.items", 'val:[[1, "a"], ["s", "c"], [2, "f"]]'),
    ("{a: 1, a: 2, c: 7, **{a: 3, b: 4}, **{b: 5, c: 6}}.items", 'val:[["a", 1], ["b", 4], ["c", 7]]'),
    ("{|a: 0, b: 0| [a, b, \\_]}(a: 1, a: 2, **{a: 3, b: 4}, **{b: 5})", 'val:[1, 4, {a: 1, b: 4}]'),
    ("[[[0, 1], \"b\"], [[0, 1], \"B\"], [[0, 0], \"z\"]]@(%{[0, 0]: \"a\"}){|k, v| [k, v]}.items", 'val:[[[0, 0], "a"], [[0, 1], "b"]]'),
    ("%{**{a: 1, _p: 2}, **{a: 3, _p: 4, b: 5}}.items", 'val:[["a", 1], ["_p", 2], ["b", 5]]'),
    ("{**{a: 1, _p: 2}, **{a: 3, _p: 4, b: 5}}.items(private?: true)", 'val:[["a", 1], ["b", 5], ["_p", 2]]'),
    ("[['a, 1], ['b, 2]]@({a: 0}){|k, v| [k, v]}.items", 'val:[["a", 0], ["b", 2]]'),
    ("%{[1, [2]]: 'a, [1, [2]]: 'b, [[1], 2]: 'c, **%{[[1], 2]: 'd, [1, [2]]: 'e}}.len", "val:2"),
    ("o := {k: 1}; %{^o: 'a, **%{{k: 1}: 'b}, **%{^o: 'c}}.values", 'val:["a"]'),
]


def distinct_runs(resp):
    runs = resp.get("runs") or [resp["events"] + [resp["end"]]]
    seen, out = set(), []
    for r in runs:
        key = json.dumps(r)
        if key not in seen:
            seen.add(key)
            out.append(r)
    return out


def run():
    ck = Check("C08")
    thorough = ck.tier == "thorough"
    n_rep, n_proc = (64, 8) if thorough else (16, 3)
    fam = evalfam.c08_family()
    res, st = evalcheck.run_family(ck, "C08", fam, "order", flaky_is_violation=True,
                                   signature=lambda tag, r: f"C08:order:{tag.split(':')[0]}:{evalcheck.first_diff(r['observed'], r.get('predicted'))}")
    ck.cov["order"] = st
    # arguments written at a variable call (recv.^f(args)): the grammar accepts them, so they are arguments of a call
    vreqs = []
    for shape in ("1.^g({a})", "[1, 2]@^g({a})", "1.^g({a}, k: {b})", "[1, 2]$(0)^h({a})", "1&.^g({a})", "1.^g(*[{a}], **{{k: {b}}})"):
        vreqs.append({"id": f"v{len(vreqs)}", "src": "g := {|x, y, k: 0| [x, y, k]}; h := {|acc, x| acc}\nsay(70)\nr := " + shape.format(a="say(1)", b="say(2)") + "\nsay(71)\nr"})
    vout = run_cases(vreqs, label="C08 variable-call arguments")
    for rq in vreqs:
        ev = vout[rq["id"]]["events"]
        wanted = ["out:1"] + (["out:2"] if "say(2)" in rq["src"] else [])
        between = ev[ev.index("out:70") + 1: ev.index("out:71")] if "out:70" in ev and "out:71" in ev else ev
        if [e for e in between if e in ("out:1", "out:2")] != wanted * (2 if "@^" in rq["src"] and False else 1):
            ck.reject("C08:varcall-arguments-not-evaluated", f"{rq['src'].splitlines()[2]!r}: the arguments written at the variable call are evaluated {between} (each must be evaluated exactly once, in order)",
                      {"src": rq["src"], "observed": ev, "expected_between_70_and_71": wanted})
    # both operands of an infix operator are evaluated, once and left to right, also when the left value does not define the operator
    # (the expression is then nil) or defines it itself
    oreqs = []
    for op in ("-", "*", "/", "<", "**", "+", "==", "<=>", "%", "//"):
        oreqs.append((f"say(say(1).{{|u| {{a: 1}}}} {op} say(2))", ["out:1", "out:2"]))
        oreqs.append((f"o := {{'{op}: m{{|x| say(9); x}}}}; say(70); r := say(1).{{|u| o}} {op} say(2); say(71); r", ["out:70", "out:1", "out:2", "out:9", "out:71"]))
    oout = run_cases([{"id": f"o{k}", "src": src} for k, (src, _) in enumerate(oreqs)], label="C08 operands of operators the left value lacks / defines")
    for k, (src, want) in enumerate(oreqs):
        o = oout[f"o{k}"]
        got = [e for e in o["events"] if e in ("out:1", "out:2", "out:9", "out:70", "out:71")]
        if got != want and not o["end"].startswith(("discarded:", "fuel:")):
            ck.reject("C08:operands:" + ("own-operator" if "'" in src else "missing-operator"), f"{src!r}: operands evaluated as {got} (end {o['end'][:60]}), expected {want}",
                      {"src": src, "observed": o["events"], "expected": want})
    fout = run_cases([{"id": f"w{k}", "src": src} for k, (src, _) in enumerate(FIRST_WINS)], label="C08 first occurrence wins")
    for k, (src, want) in enumerate(FIRST_WINS):
        if fout[f"w{k}"]["end"] != want and not fout[f"w{k}"]["end"].startswith(("discarded:", "fuel:")):
            ck.reject("C08:first-occurrence-wins", f"{src!r} gives {fout[f'w{k}']['end']}; with the first occurrence of every key winning it is {want}",
                      {"src": src, "observed": fout[f"w{k}"]["end"], "expected": want})
    # repetition: same parsed program N times in one process, re-parsed, and in n_proc different processes
    srcs = [(f"F{i}", tag, panlang.program_src(body)) for i, (tag, body) in enumerate(fam)] + [(f"R{i}", "raw", s) for i, s in enumerate(RAW)]
    total_runs = 0
    first = {}
    for proc in range(n_proc):
        reqs = [{"id": f"{rid}", "src": s, "repeat": n_rep, "reparse": proc % 2 == 1, "stdin": "l1\nl2\nl3\n"} for rid, tag, s in srcs]
        ck.rng.shuffle(reqs)
        out = run_cases(reqs, label=f"C08 repeat p{proc}", nproc=4 + proc)
        for rid, tag, s in srcs:
            if str(out[rid]["end"]).startswith(("discarded:", "fuel:")):
                continue                  # not evaluated to the end (deadline): nothing to compare
            runs = distinct_runs(out[rid])
            total_runs += n_rep
            first.setdefault(rid, runs[0])
            for r in runs:
                if r != first[rid]:
                    ck.reject(f"C08:nondeterministic:{tag.split(':')[0]}", f"{s!r}: two evaluations differ: {first[rid]} vs {r}",
                              {"src": s, "run_a": first[rid], "run_b": r, "process": proc})
                    break
            if pvlib.is_host_crash(out[rid]["end"]):
                ck.reject("C08:host-crash", f"{s!r}: {out[rid]['end']}", {"src": s})
    # the repeated first run of a modelled program must also be the run validated against the spec above
    for (rid, tag, s), (fid, r) in zip(srcs[:len(fam)], res.items()):
        if r["status"] == "ok" and first[rid] != r["observed"]["ev"] + [r["observed"]["end"]]:
            ck.reject(f"C08:nondeterministic:{tag.split(':')[0]}", f"{s!r}: repeated run differs from the validated run",
                      {"src": s, "run_a": r["observed"], "run_b": first[rid]})
    ck.sample({"src": RAW[0], "runs_compared": n_rep * n_proc, "first_run": first["R0"]})
    ck.cov["evaluations"] = len(fam) + total_runs
    ck.cov["distinct_nontrivial"] = st["ok"] + len(RAW)
    ck.cov["traces_validated_against_impl"] = st["ok"] + st["mismatch"]
    ck.cov["max_outdegree"] = 1
    ck.cov["rule"] = (f"{len(evalfam.HOSTS)} host constructs with say(k) in every child slot (incl. duplicate keys / keywords, keyword layouts, multi-line calls, "
                      f"keyword defaults, *, **) at top level, in a function and in a literal call, validated against PanEval; each of them and {len(RAW)} "
                      f"programs over maps/objects/JSON/printing/iteration evaluated {n_rep}x in each of {n_proc} processes (re-parsed in every other process); "
                      "non-trivial = modelled programs accepted + raw programs compared")
    ck.assumptions = ["Go randomises every `range` over a map: a 2-way order bug survives one run with p=1/2 and all compared runs with p=2^-(N-1)"]
    return ck.finish()


def replay(path):
    c = json.load(open(path))["case"]
    out = run_cases([{"id": "r", "src": c["src"], "repeat": 64, "stdin": "l1\nl2\nl3\n"}], nproc=1)["r"]
    runs = distinct_runs(out)
    print(len(runs), "distinct runs:", runs[:3], "predicted:", c.get("predicted"))
    if len(runs) > 1 or (c.get("predicted") and runs[0][:-1] != c["predicted"]["ev"]):
        print(f"VIOLATION property=C08 replay={path}")
        return 1
    return 0

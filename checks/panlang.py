"""Program representation shared by the evaluator checks: JSON AST (the input of spec/PanEval.tla),
pretty printer to Pangaea source, and the replay/validation plumbing (worker run + Trace_Eval)."""
import json
import pvlib
from pvlib import run_cases, run_tlc, payloads, ndjson

NONE = {"t": "none"}


# ----------------------------------------------------------------- constructors
def Int(v): return {"t": "int", "v": v}
def Str(v): return {"t": "str", "v": v}
def Nil(): return {"t": "nil"}
def Bool(b): return {"t": "true" if b else "false"}
def Id(n): return {"t": "id", "n": n}
def Argv(n): return {"t": "argv", "n": n}            # n: "\\1", "\\0", "\\", "\\name", "\\_"
def Asg(n, r): return {"t": "asg", "n": n, "r": r}
def CAsg(n, op, r): return {"t": "casg", "n": n, "op": op, "r": r}
def Inf(op, l, r): return {"t": "inf", "op": op, "l": l, "r": r}
def Pre(op, x): return {"t": "pre", "op": op, "x": x}
def Arr(*es): return {"t": "arr", "es": list(es)}
def Spread(x): return {"t": "spread", "x": x}
def DSpread(x): return {"t": "dspread", "x": x}
def Obj(*ps): return {"t": "obj", "ps": [{"k": k, "v": v} for k, v in ps]}
def Range(a, b, c): return {"t": "range", "a": a, "b": b, "c": c}
def EStr(*parts): return {"t": "estr", "parts": [{"t": "lit", "s": p} if isinstance(p, str) else p for p in parts]}
def Fn(ps, body, kps=(), kind="func", method=False):
    return {"t": "fn", "ps": (["self"] if method else []) + list(ps), "kps": [{"k": k, "v": d} for k, d in kps],
            "body": list(body), "kind": kind, "m": method}
def If(c, a, b=None): return {"t": "if", "c": c, "a": a, "b": b if b is not None else NONE}
def Say(x): return {"t": "say", "x": x}
def Probe(k): return {"t": "probe", "k": k}
def Raise(kind, msg): return {"t": "raise", "kind": kind, "msg": msg}
def PCall(r, n, args=(), kw=(), add="", lay=0, main=".", carg=None):
    """lay: where the keyword arguments are written: 0 after, 1 before, 2 after the first positional argument"""
    return {"t": "pcall", "r": r if r is not None else NONE, "n": n, "args": list(args), "kw": [{"k": k, "v": v} for k, v in kw], "add": add, "lay": lay,
            "main": main, "carg": carg if carg is not None else NONE}
def Call(f, args=(), kw=(), lay=0): return dict(PCall(f, "call", args, kw, lay=lay), sugar="call")
def Idx(x, i): return dict(PCall(x, "at", [Arr(i)]), sugar="index")
def LCall(r, fn, main=".", add="", carg=None):
    return {"t": "lcall", "r": r if r is not None else NONE, "fn": fn, "main": main, "add": add, "carg": carg if carg is not None else NONE}
def VCall(r, n, main=".", add="", carg=None):
    return {"t": "vcall", "r": r if r is not None else NONE, "n": n, "main": main, "add": add, "carg": carg if carg is not None else NONE}
def Try(r, fn, acc): return {"t": "try", "r": r, "fn": fn, "acc": acc}
def NilNew(): return {"t": "nilnew"}                 # Nil.new: a nil that is not the literal's object
def View(base, els, noisy=False):
    """base.bear({_iter: m{els._iter}}): a descendant with an iterator of its own; noisy: the iterator reports (say) every element it hands out"""
    return {"t": "view", "base": base, "els": els, "noisy": noisy}
def Raw(s): return {"t": "rawsrc", "s": s}           # outside PanEval (unsupported), printed verbatim
def Jump(k, x, g=None): return {"t": "jump", "k": k, "x": x, "g": g if g is not None else NONE}


# ----------------------------------------------------------------- printer
def src(e):
    t = e["t"]
    if t == "int":
        return str(e["v"]) if e["v"] >= 0 else f"(-{-e['v']})"
    if t == "str":
        return '"' + e["v"] + '"'
    if t in ("nil", "true", "false"):
        return t
    if t == "id":
        return e["n"]
    if t == "argv":
        return e["n"]
    if t == "asg":
        return f"({e['n']} := {src(e['r'])})"
    if t == "casg":
        return f"({e['n']} {e['op']}= {src(e['r'])})"
    if t == "inf":
        return f"({src(e['l'])} {e['op']} {src(e['r'])})"
    if t == "pre":
        x = src(e["x"])         # prefix operators bind tighter than chains: parenthesise anything that is not atomic
        return f"({e['op']}{x})" if e["x"]["t"] in ("int", "id", "str", "nil", "true", "false") or x.startswith("(") else f"({e['op']}({x}))"
    if t == "arr":
        return "[" + ", ".join(src(x) for x in e["es"]) + "]"
    if t == "spread":
        return "*" + src(e["x"])
    if t == "dspread":
        return "**" + src(e["x"])
    if t == "obj":
        return "{" + ", ".join(f"{p['k']}: {src(p['v'])}" for p in e["ps"]) + "}"
    if t == "range":
        return "(" + ":".join(src(x) for x in (e["a"], e["b"], e["c"])) + ")"
    if t == "nilnew":
        return "Nil.new"
    if t == "view":
        if e.get("noisy"):
            return f"{src(e['base'])}.bear({{_iter: m{{{src(e['els'])}._iter.{{|it| <{{yield say(it.next)}}>}}}}}})"
        return f"{src(e['base'])}.bear({{_iter: m{{{src(e['els'])}._iter}}}})"
    if t == "estr":
        return '"' + "".join(p["s"] if p["t"] == "lit" else "#{" + src(p) + "}" for p in e["parts"]) + '"'
    if t == "fn":
        ps = e["ps"][1:] if e.get("m") else e["ps"]
        params = ", ".join(list(ps) + [f"{p['k']}: {src(p['v'])}" for p in e["kps"]])
        body = "; ".join(stmt_src(s) for s in e["body"])
        head = ("m" if e.get("m") else "") + ("<{" if e["kind"] == "iter" else "{")
        tail = "}>" if e["kind"] == "iter" else "}"
        return f"{head}|{params}| {body}{tail}"
    if t == "if":
        return f"({src(e['a'])} if {src(e['c'])}" + (f" else {src(e['b'])})" if e["b"]["t"] != "none" else ")")
    if t == "say":
        return f"say({src(e['x'])})"
    if t == "probe":
        return f"probe({e['k']})"
    if t == "raise":
        return f"{e['kind']}.new(\"{e['msg']}\")"
    if t == "pcall":
        pa = [src(a) for a in e["args"] if a["t"] != "dspread"]
        ka = [f"{p['k']}: {src(p['v'])}" for p in e["kw"]]
        da = [src(a) for a in e["args"] if a["t"] == "dspread"]      # the grammar wants **expansions last
        lay = e.get("lay", 0)
        args = (pa + ka if lay == 0 else ka + pa if lay == 1 else pa[:1] + ka + pa[1:]) + da
        ml = e.get("ml")
        if ml and len(args) > 1:      # multi-line call: every argument on its own line, indentation pattern ml
            ind = {1: [8, 6, 4, 2, 1, 0], 2: [0, 2, 4, 6, 8, 10], 3: [6, 1, 9, 3, 7, 0]}[ml]
            joined = args[0] + "".join(",\n" + " " * ind[i % len(ind)] + a for i, a in enumerate(args[1:]))
            if e.get("sugar") == "call":
                return f"{src(e['r'])}({joined})"
            recv = src(e["r"]) if e["r"]["t"] != "none" else ""
            return f"{recv}{chain_src(e)}{e['n']}({joined})"
        if e.get("sugar") == "call":
            return f"{src(e['r'])}({', '.join(args)})"
        if e.get("sugar") == "index":
            return f"{src(e['r'])}[{src(e['args'][0]['es'][0])}]"
        recv = src(e["r"]) if e["r"]["t"] != "none" else ""
        return f"{recv}{chain_src(e)}{e['n']}" + (f"({', '.join(args)})" if args else "")
    if t == "rawsrc":
        return "(" + e["s"] + ")"
    if t == "lcall":
        return f"{src(e['r']) if e['r']['t'] != 'none' else ''}{chain_src(e)}{src(e['fn'])}"
    if t == "vcall":
        return f"{src(e['r']) if e['r']['t'] != 'none' else ''}{chain_src(e)}^{e['n']}"
    if t == "try":
        return f"{src(e['r'])}.try.{src(e['fn'])}.{e['acc']}"
    raise ValueError(t)


def chain_src(e):
    c = e.get("add", "") + e.get("main", ".")
    if e.get("mlc"):                  # the chain starts a continuation line:  recv NEWLINE  |&@(arg)name
        c = "\n" + " " * e["mlc"] + "|" + c
    if e.get("carg", NONE)["t"] != "none":
        c += "(" + src(e["carg"]) + ")"
    return c


def stmt_src(s):
    if s["t"] == "jump":
        out = f"{s['k']} {src(s['x'])}"
        if s["g"]["t"] != "none":
            out += f" if {src(s['g'])}"
        return out
    return src(s)


def program_src(body):
    return "\n".join(stmt_src(s) for s in body)


def names_of(node, acc=None):
    acc = set() if acc is None else acc
    if isinstance(node, dict):
        if node.get("t") in ("id", "asg", "casg", "vcall"):
            acc.add(node["n"])
        if node.get("t") == "fn":
            acc.update(node["ps"])
        if node.get("t") == "str":
            pass
        for k, v in node.items():
            if k == "k" and isinstance(v, str) and node.get("t") != "jump":
                acc.add(v)
            names_of(v, acc)
    elif isinstance(node, list):
        for x in node:
            names_of(x, acc)
    return acc


def make_prog(body):
    names = sorted(n for n in names_of(body) if not n.startswith("\\"))
    return {"names": names, "body": body}


# ----------------------------------------------------------------- validation
def validate(ck, progs, label, meta=None, binary=None, tlc_timeout=1700):
    """progs: list of (id, body).  Runs every program in the real interpreter, validates the recorded run against
    PanEval with Trace_Eval.  Returns dict id -> {"status", "observed", "predicted", "src"}."""
    reqs, rows = [], []
    for pid, body in progs:
        reqs.append({"id": pid, "src": program_src(body)})
    out = run_cases(reqs, binary=binary, label=label)
    res = {}
    for (pid, body), rq in zip(progs, reqs):
        o = out[pid]
        end = o["end"]
        observed = {"ev": o["events"], "end": end}
        if end.startswith(("discarded:", "fuel:")):
            res[pid] = {"status": "discarded", "observed": observed, "src": rq["src"]}
            continue
        kind, msg = end, ""
        if end.startswith("err:"):
            parts = end.split(":", 2)
            kind, msg = "err:" + parts[1], parts[2] if len(parts) > 2 else ""
        rows.append({"id": pid, "prog": make_prog(body), "ev": o["events"], "end": kind, "msg": msg})
        res[pid] = {"status": "pending", "observed": observed, "src": rq["src"]}
    BATCH = 2500          # recorded runs per TLC process: bounded work per run, whatever the size of the family and the load of the machine
    for b0 in range(0, len(rows), BATCH):
        part = rows[b0:b0 + BATCH]
        t = run_tlc("Trace_Eval", files={"eval.ndjson": ndjson(part)}, timeout_s=tlc_timeout)
        ck.add_tlc(t, f"Trace_Eval {label}" + (f" [{b0 // BATCH + 1}/{(len(rows) + BATCH - 1) // BATCH}]" if len(rows) > BATCH else ""))
        vs = payloads(t, "V ")
        if len(vs) != len(part):
            raise pvlib.Broken(f"Trace_Eval returned {len(vs)} verdicts for {len(part)} recorded runs")
        for v in vs:
            r = res[v["id"]]
            r["status"] = v["s"]
            if v["s"] == "mismatch":
                r["predicted"] = {"ev": v["ev"], "end": v["end"], "msg": v["msg"]}
    return res

"""C13 try / Either: TLC explores the k-step Either machine (PanEither) for every chain of <= MaxSteps steps over 10 step kinds,
checks Stable / accessor consistency, and emits for each chain which steps run, the single outcome and what each accessor
reports; each chain is replayed wrapped (with all accessors) and plain (unwrapped) in the real interpreter."""
import json
import pvlib
from pvlib import Check, run_tlc, run_cases, payloads

PRELUDE = ('mk := {|n| {v: n, inc: m{say(1); mk(self.v + 1)}, tonil: m{say(2); nil}, bad: m{say(3); Err.new("bad")}, div0: m{say(4); 1 / 0}, '
           'name: m{say(5); undefinedname}, add: m{|x, k: 0| say(6); mk(self.v + x + k)}, wrapv: m{say(10); self.try}, wrapbad: m{say(11); self.try.{|s| Err.new("bad")}}}}\n')
STEP = {"inc": ".inc", "tonil": ".tonil", "bad": ".bad", "div0": ".div0", "name": ".name", "add": ".add(3, k: 1)", "add2": ".add(3, k: 2)", "adddef": ".add(3)", "wrapv": ".wrapv", "wrapbad": ".wrapbad", "getv": ".v",
        "lit2": ".{|x| say(7); mk(x.v * 2)}", "litbad": '.{|x| say(8); Err.new("lit")}', "errobj": '.{|x| say(9); nil.try.{|u| Err.new("bad")}.err}'}
PROPNAME = {"inc": "inc", "tonil": "tonil", "bad": "bad", "div0": "div0", "name": "name", "add": "add", "add2": "add", "adddef": "add", "wrapv": "wrapv", "wrapbad": "wrapbad", "getv": "v"}
ACC = {"val": "e.val", "err": "e.err", "A": "e.A", "or": "e.or(99)", "val?": "e.val?", "err?": "e.err?", "catchErr": "e.catch(Err){|x| 77}.A",
       "catchType": "e.catch(TypeErr){|x| 77}.A", "ignoreErr": "e.ignore(Err).A", "abandon": "e.abandon"}


# names the Either answers itself at the pinned commit: its own interface, and what Obj / BaseObj define (the recorded deviation C13:step=name-answered-by-the-wrapper)
EITHER_OWN = {"A", "end", "err", "err?", "fmap", "newErr", "newVal", "or", "val", "val?", "abandon", "catch", "ignore"}
OBJ_OWN = set("B S acc all? ancestors any? append asFor? avg bro callProp case chain chunk del digest doUntil doWhile empty? exclude find first flipflop index indices items keyBy keys "
              "kindOf? last lazyMap map max min new nil? patch prepend reduce repr rindex select std sum tally traverse until values which while withI zip at bear proto".split())
NOT_STEPS = {"p", "puts", "print", "exit", "assert", "assertEq", "assertRaises", "import", "invite!", "readline", "readlines", "read", "write", "serve", "serveBackground", "eval", "evalEnv", "try", "tap"}


def render(v, objs, fixmsg):
    t = v["t"]
    if t == "R":
        return objs[v["n"]]
    if t == "nil":
        return "nil"
    if t == "int":
        return str(v["n"])
    if t == "bool":
        return "true" if v["b"] else "false"
    if t == "E":
        return objs[("E", v["ok"], v["n"])]
    if t == "errw":
        return f"<err {v['kind']}: {fixmsg(v['msg'])}>"
    raise ValueError(t)


def run():
    ck = Check("C13")
    thorough = ck.tier == "thorough"
    res = run_tlc("MC_C13", defines={"MaxSteps": "4" if thorough else "2"}, timeout_s=1700)
    if res.violation:
        raise pvlib.Broken("PanEither property violated in the model: " + res.violation)
    ck.add_tlc(res, "MC_C13")
    cases = payloads(res, "CASE ")
    ref = run_cases([{"id": "ref", "src": PRELUDE + "\n".join(f"say(mk({n}))" for n in range(0, 64))}], nproc=1)["ref"]
    objs = {n: e[4:] for n, e in enumerate(ref["events"])}
    refe = run_cases([{"id": "ref", "src": PRELUDE + "\n".join(f"say(mk({n}).try); say(mk({n}).try.{{|s| Err.new(\"bad\")}})" for n in range(0, 64))}], nproc=1)["ref"]
    for n in range(0, 64):
        objs[("E", True, n)], objs[("E", False, n)] = refe["events"][2 * n][4:], refe["events"][2 * n + 1][4:]
    reqs = []
    for i, c in enumerate(cases):
        steps = "".join(STEP[s] for s in c["chain"])
        wrapped = PRELUDE + f"e := mk(1).try{steps}\n" + "\n".join(f"say({ACC[a['a']]})" for a in c["acc"])
        plain = PRELUDE + f"say(mk(1){steps})"
        reqs.append({"id": f"w{i}", "src": wrapped})
        reqs.append({"id": f"p{i}", "src": plain})
    # a callable receiver (known deviation class): wrapped vs plain relation only
    extra = [("f := {|x| [x, 5]}\n", "f", ".call(3)"), ("f := {|x| [x, 5]}\n", "f", ".{|g| g(4)}")]
    # array values under a step with ONE parameter (literal, variable, anonymous argument): the step gets the array, as the plain call does
    for recv_ in ("[3, 4]", "[]", "[[1, 2], [3]]", "[\"a\"]", "[nil, 1]", "(1:3).A"):
        for step_ in (".{|xs| xs.len}", ".{|x| x}", ".{|x| [x]}", ".{\\.len}", ".^g", ".{|xs| xs.len}.{|n| n + 1}", ".{|xs| raise ValueErr.new(\"bad \" + xs.len.S)}", ".fmap({|xs| xs.len})"):
            if step_.startswith(".fmap"):
                continue          # fmap is the Either's own method: no plain counterpart
            extra.append(("g := {|xs| [xs, xs.len]}\n", recv_, step_))
    # a receiver that is an OBJECT with a `call` property (callable by duck typing): its other properties are steps like any other
    for step_ in (".describe", ".fail(0)", ".fail(2)", ".{|s| s.describe}", ".describe.len", ".fail(2).{|q| q * 2}", ".call(5)"):
        extra.append(("succ := {call: m{|x| x + 1}, describe: m{\"callable\"}, fail: m{|d| 10 / d}}\n", "succ", step_))
    for j, (pre, recv, step) in enumerate(extra):
        reqs.append({"id": f"xw{j}", "src": pre + f"say({recv}.try{step}.A)"})
        reqs.append({"id": f"xp{j}", "src": pre + f"say([{recv}{step}, nil])"})
    out = run_cases(reqs, label="C13")
    nontrivial = comparisons = 0
    unfinished = lambda *rs: any(str(r["end"]).startswith(("discarded:", "fuel:")) for r in rs)
    for i, c in enumerate(cases):
        w, p = out[f"w{i}"], out[f"p{i}"]
        if unfinished(w, p):
            continue
        chain = c["chain"]
        steps = "".join(STEP[s] for s in chain)

        def fixmsg(m):
            if m.startswith("missing:"):
                return f"property `{PROPNAME[m[8:]]}` is not defined."
            return m
        if c["missing"]:
            cls = "step=prop-missing"
        elif c["noncallable"]:
            cls = "step=prop-noncallable"
        else:
            cls = "steps=" + "+".join(sorted(set(chain)))
        known_class = c["missing"] or c["noncallable"]
        sig = lambda what: f"C13:{cls}" if known_class else f"C13:{what}:{cls}"

        def knownmsg(m):          # the recorded deviation of the missing-property class: the right error type with the message about `call`
            return "property `call` is not defined." if m.startswith("missing:") else m
        for o in (w, p):
            if pvlib.is_host_crash(o["end"]):
                ck.reject("C13:host-crash", o["end"], {"chain": steps})
        # ---- plain chain: the reference behaviour the property speaks about
        want_ran = [f"out:{m}" for m in c["ran"]]
        if c["ok"]:
            want_plain = (want_ran + ["out:" + render(c["v"], objs, fixmsg)], "val:")
        else:
            want_plain = (want_ran, f"err:{c['kind']}:{fixmsg(c['msg'])}")
        got_plain = (p["events"], p["end"] if not p["end"].startswith("val:") else "val:")
        comparisons += 1
        if got_plain != want_plain:
            ck.reject(f"C13:plain:{cls}", f"mk(1){steps}: plain chain gives {p['events']} {p['end']}, the machine gives {want_plain}",
                      {"chain": steps, "observed": [p["events"], p["end"]], "expected": want_plain})
        # ---- wrapped chain + accessors
        ev = w["events"]
        got_ran, got_acc = ev[:len(want_ran)], ev[len(want_ran):]
        if not c["ok"]:
            nontrivial += 1
        if got_ran != want_ran:
            ck.reject(sig("steps-run"), f"mk(1).try{steps}: calls made {ev}, the machine runs exactly {want_ran}",
                      {"chain": steps, "observed": ev, "expected_ran": want_ran})
            continue
        for k, a in enumerate(c["acc"]):
            x = a["x"]
            comparisons += 1
            def wanted(fm):
                if x["r"] == "raise":
                    return f"err:{x['v']['kind']}:{fm(x['v']['msg'])}"
                return "out:" + (render(x["v"], objs, fm) if x["r"] == "val" else "[" + render(x["v"], objs, fm) + ", " + render(x["e"], objs, fm) + "]")
            want = wanted(fixmsg)
            got = w["end"] if x["r"] == "raise" else (got_acc[k] if k < len(got_acc) else f"<missing; program ended {w['end']}>")
            if got != want:
                # the missing-property class is recorded as: same error type, message about `call`.  Anything else under that class is a new violation
                beyond = c["missing"] and got != wanted(knownmsg)
                ck.reject(f"C13:{a['a']}:{cls}:beyond-the-recorded-deviation" if beyond else sig(a["a"]), f"mk(1).try{steps} then {ACC[a['a']]}: got {got}, the machine gives {want}",
                          {"chain": steps, "accessor": a["a"], "observed": got, "expected": want})
    for j, (pre, recv, step) in enumerate(extra):
        a, b = out[f"xw{j}"], out[f"xp{j}"]
        if unfinished(a, b):
            continue
        comparisons += 1
        same = (a["events"], a["end"]) == (b["events"], b["end"])
        if recv != "f" and b["end"].startswith("err:") and b["end"].count(":") >= 2:      # the plain call raises: the wrapped one holds exactly that error
            kind, msg = b["end"].split(":", 2)[1:]
            same = a["events"] == b["events"] + [f"out:[nil, <err {kind}: {msg}>]"] and a["end"].startswith("val:")
        if not same:
            ck.reject(("C13:recv=callable" if step.startswith(".call") else "C13:recv=callable:literal-step") if recv == "f" else "C13:recv=callable-object" if recv == "succ" else "C13:recv=array:one-parameter-step",
                      f"{recv}.try{step}.A gives {a['events']} {a['end']} but the plain call gives {b['events']} {b['end']}",
                      {"wrapped": a, "plain": b})
    ck.sample({"chain": "".join(STEP[s] for s in cases[-1]["chain"]), "wrapped_events": out[f"w{len(cases) - 1}"]["events"][:6], "plain": out[f"p{len(cases) - 1}"]["end"]})
    # the same steps through a LIST chain over Either elements: `xs@try@step` wraps every element on its own, so the collected Eithers are
    # the ones the element-by-element chains give (those are the chains validated against PanEither above)
    kinds = list(STEP)
    chains2 = [[a] for a in kinds] + [[a, b] for a in kinds for b in kinds if (kinds.index(a) * 7 + kinds.index(b)) % (1 if thorough else 3) == 0]
    lreqs = []
    for k, ch in enumerate(chains2):
        lst = "".join("@" + STEP[x][1:] for x in ch)
        sca = "".join(STEP[x] for x in ch)
        lreqs.append({"id": f"L{k}", "src": PRELUDE + f"xs := [mk(1), mk(2), mk(3)]\nsay(xs@try{lst}@A)"})
        lreqs.append({"id": f"E{k}", "src": PRELUDE + f"xs := [mk(1), mk(2), mk(3)]\nsay([xs[0].try{sca}.A, xs[1].try{sca}.A, xs[2].try{sca}.A])"})
    lout = run_cases(lreqs, label="C13 list chains over Eithers")
    for k, ch in enumerate(chains2):
        a, b = lout[f"L{k}"], lout[f"E{k}"]
        if unfinished(a, b):
            continue
        last = lambda o: ([e for e in o["events"] if e.startswith("out:[")] or ["<none>"])[-1]
        comparisons += 1
        if (last(a), a["end"].split(":")[0]) != (last(b), b["end"].split(":")[0]) or sorted(a["events"]) != sorted(b["events"]):
            ck.reject(f"C13:list-chain:{'+'.join(ch)}", f"{lreqs[2 * k]['src'].splitlines()[-1]!r} gives {last(a)} / {a['end'][:80]}; element by element the chains give {last(b)} / {b['end'][:80]}",
                      {"src": lreqs[2 * k]["src"], "elementwise": lreqs[2 * k + 1]["src"], "observed": [a["events"][-3:], a["end"]], "expected": [b["events"][-3:], b["end"]]})
    ck.cov["list_chain_programs"] = len(chains2)
    # ---- built-in receivers and the names of their own prototypes as steps (called without arguments): the wrapped step holds what the plain call
    # gives, value or error.  The wrapper forwards only names it does not answer itself; the names Obj / BaseObj define (Iterable's natives are mixed
    # into Obj) are answered by the Either - the recorded deviation, frozen here as a list: a name that joins it is a new violation
    RECV = {"arr": "[3, 1, 2]", "str": '"abc"', "map": "%{'a: 1, 2: 'b}", "range": "(1:4)", "int": "5", "float": "1.5", "obj": "{a: 1, b: 2}"}
    names_q = run_cases([{"id": k, "src": f"r := {v}; r.ancestors@{{|a| Obj['keys](a)}}$([])+"} for k, v in RECV.items()], label="C13 names of the built-in receivers")
    breqs, bmeta = [], []
    for k, v in RECV.items():
        e = names_q[k]["end"]
        if not e.startswith('val:["'):
            raise pvlib.Broken(f"the names of {v} could not be listed: {e[:200]}")
        for n in sorted(set(json.loads(e[4:])) | {"nosuchname"}):
            if n in NOT_STEPS or n in EITHER_OWN or not n.replace("?", "").replace("!", "").replace("_", "").isalnum():
                continue
            breqs.append({"id": f"bp{len(bmeta)}", "src": f"r := {v}; r.{n}", "fuel": 200000, "deadline_ms": 5000})
            breqs.append({"id": f"bw{len(bmeta)}", "src": f"r := {v}; r.try.{n}.A", "fuel": 200000, "deadline_ms": 5000})
            bmeta.append((k, v, n))
    bout = run_cases(breqs, label="C13 built-in steps")
    for j, (k, v, n) in enumerate(bmeta):
        pl, wr = bout[f"bp{j}"], bout[f"bw{j}"]
        if unfinished(pl, wr):
            continue
        comparisons += 1
        if pl["end"].startswith("val:"):
            want = "val:[" + pl["end"][4:] + ", nil]"
        elif pl["end"].startswith("err:") and pl["end"].count(":") >= 2:
            kind, msg = pl["end"].split(":", 2)[1:]
            want = f"val:[nil, <err {kind}: {msg}>]"
            if n == "nosuchname":           # the recorded missing-property deviation: right type, message about `call`
                if wr["end"] == "val:[nil, <err NoPropErr: property `call` is not defined.>]":
                    ck.reject("C13:step=prop-missing", f"{v}.try.{n}.A", {})
                    continue
        else:
            continue
        if wr["end"] != want or wr["events"] != pl["events"]:
            ck.reject("C13:step=name-answered-by-the-wrapper" if n in OBJ_OWN else f"C13:builtin-step:{n}",
                      f"{v}.try.{n}.A gives {wr['end'][:160]} but the plain call {v}.{n} gives {pl['end'][:120]}",
                      {"src": breqs[2 * j + 1]["src"], "plain": breqs[2 * j]["src"], "observed": wr["end"], "expected": want})
    ck.cov["builtin_step_programs"] = len(bmeta)
    ck.cov["evaluations"] = comparisons
    ck.cov["distinct_nontrivial"] = nontrivial
    ck.cov["traces_validated_against_impl"] = 2 * len(cases)
    ck.cov["exhaustive"] = True
    ck.cov["rule"] = ("every chain of <= MaxSteps (2 quick, 4 thorough) steps over {method returning a value / nil / raising Err, ZeroDivisionErr, NameErr; method "
                      "with positional+keyword arguments (two keyword values and the default); method returning an Either (holding a value / an error); non-callable property; literal step returning a value / raising / returning a caught error object}; "
                      "per chain: plain run, wrapped run, calls made, and 10 accessor forms (val err A or val? err? catch(match/no match) ignore abandon); "
                      "built-in receivers (arr, str, map, range, int, float, obj) x every name of their prototypes as a step without arguments, wrapped vs plain; "
                      "non-trivial = chains with a failure")
    ck.assumptions = ["receiver objects are rendered through the interpreter itself (mk(n)) for comparison of values"]
    return ck.finish()


def replay(path):
    c = json.load(open(path))["case"]
    print(c)
    print("re-run `python3 pv.py C13`")
    return 0

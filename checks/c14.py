"""C14 iterator literals: TLC explores every history of <= MaxOps operations (new / new from an iterator / _iter copy / alias /
next / A / list chain / reduce chain) over two variables for each body of the family, checks independence and purity of walks
on the machine (PanIter), and every behaviour is replayed in the real interpreter, operation by operation."""
import json
import pvlib
from pvlib import Check, run_tlc, run_cases, payloads

LIM = 3
BODIES = {
    "counter": "<{|i| yield i if i < %d; recur(i + 1)}>" % LIM,
    "unguarded": "<{|i| yield i; recur(i + 1)}>",
    "fib": "<{|a, b| yield a if a < %d; recur(b, a + b)}>" % (3 * LIM),
    "step": "<{|i, step: 1| yield i if i < %d; recur(i + step, step: step)}>" % (3 * LIM),
    "local": "<{|i| j := i * 2; yield j if i < %d; recur(i + 1)}>" % LIM,
    "argvar": "<{yield \\ if \\ != %d; recur(\\ + 1)}>" % LIM,
    "recurfirst": "<{|i| recur(i + 1); yield i if i != 1 && i < %d}>" % (LIM + 2),
    "deferrecur": "<{|i| defer recur(i + 1); yield i if i != 1 && i < %d}>" % (LIM + 2),
    "twice": "<{|i, again| yield i if i < %d; recur(i + 1) if again; again := true}>" % LIM,
    "nested": "<{|n| row := <{|k| yield k if k <= n + 2; recur(k + 1)}>.new(1); yield n * 100 + row.next * 10 + row.next if n <= %d; recur(n + 1)}>" % LIM,
    "raisingrecur": "<{|i| yield i if i < %d; recur(i + 1) if i != 1; recur(1 / 0) if i == 1}>" % (LIM + 2),
    "yieldsnil": "<{|i| yield (nil if i == 1 else i) if i < %d; recur(i + 1)}>" % LIM,
    "twoyields": "<{|i| yield i; yield nil if i != %d; recur(i + 1)}>" % LIM,
}


def args(body, n):
    if body == "fib":
        return f"{n}, {n + 1}"
    if body == "step":
        return f"{n}, step: {n + 1}"
    return str(n)


def num(x):
    return "nil" if x == -999 else str(x)


def program(case):
    body = case["body"]
    lines = [f"g := {BODIES[body]}", f"x := g.new({args(body, 0)})"]
    expect = []
    for e in case["log"]:
        op, v, r = e["op"], e["v"], e["r"]
        ERR = "out:[nil, <err ZeroDivisionErr: cannot be divided by 0>]"
        if op == "next":
            lines.append(f"say({v}.try.next.A)")
            expect.append((f"{v}.next", f"out:[{num(r[1])}, nil]" if r[0] == "val" else ERR if r[0] == "err" else "out:[nil, <err StopIterErr: iter stopped>]"))
        elif op == "zip":          # a list chain whose function asks the other variable for its next value; observed through try (the other one may stop first)
            w = "y" if v == "x" else "x"
            lines.append(f"say(nil.try.{{|u| {v}@{{|e| [e, {w}.next]}}}}.A)")
            if r[0] == "list":
                flat = r[1]
                val = "[[" + ", ".join(f"[{num(flat[k])}, {num(flat[k + 1])}]" for k in range(0, len(flat), 2)) + "], nil]"
            else:
                val = ERR[4:] if r[0] == "err" else "[nil, <err StopIterErr: iter stopped>]"
            expect.append((f"{v}@[e, {w}.next]", "out:" + val))
        elif body == "raisingrecur" and op in ("A", "list", "reduce"):     # a walk may raise: observed through try
            call = {"A": f"{v}.A", "list": f"{v}@{{|e| e * 10}}", "reduce": f"{v}$(100)+"}[op]
            lines.append(f"say(nil.try.{{|u| {call}}}.A)")
            val = ERR[4:] if r[0] == "err" else "[" + ("[" + ", ".join(map(str, r[1])) + "]" if op != "reduce" else str(r[1])) + ", nil]"
            expect.append((f"{v}{'.A' if op == 'A' else '@' if op == 'list' else '$'}", "out:" + val))
        elif op == "A":
            lines.append(f"say({v}.A)")
            expect.append((f"{v}.A", "out:[" + ", ".join(map(num, r[1])) + "]"))
        elif op == "list":
            lines.append(f"say({v}@{{|e| e * 10}})")
            expect.append((f"{v}@", "out:[" + ", ".join(map(str, r[1])) + "]"))
        elif op == "reduce":
            lines.append(f"say({v}$(100)+)")
            expect.append((f"{v}$", f"out:{r[1]}"))
        elif op == "new":
            lines.append(f"y := g.new({args(body, r[1])})")
        elif op == "newfrom":
            lines.append(f"y := x.new({args(body, r[1])})")
        elif op == "copy":
            lines.append("y := x._iter")
        elif op == "alias":
            lines.append("y := x")
    return "\n".join(lines), expect


def run():
    ck = Check("C14")
    thorough = ck.tier == "thorough"
    maxops = 5 if thorough else 4
    cases = []
    for body in BODIES:
        res = run_tlc("MC_C14", defines={"Body": f'"{body}"', "MaxOps": str(maxops), "Lim": str(LIM)}, timeout_s=1700)
        if res.violation:
            raise pvlib.Broken(f"PanIter property violated in the model ({body}): {res.violation}")
        ck.add_tlc(res, f"MC_C14 {body} MaxOps={maxops}")
        cases += payloads(res, "CASE ")
    if thorough and len(cases) > 150000:
        cases = ck.rng.sample(cases, 150000)
    reqs, exps = [], []
    for i, c in enumerate(cases):
        src, expect = program(c)
        reqs.append({"id": str(i), "src": src, "fuel": 20000, "deadline_ms": 3000})     # a broken guard must not make the walks endless
        exps.append(expect)
    out = run_cases(reqs, label="C14")
    nontrivial = comparisons = undecided = 0
    late = [dict(r, deadline_ms=30000) for r in reqs if out[r["id"]]["end"].startswith("discarded:")][:200]
    again = run_cases(late, label="C14 undecided again", nproc=4) if late else {}
    for i, c in enumerate(cases):
        o = out[str(i)]
        ops = "+".join(e["op"] for e in c["log"])
        if pvlib.is_host_crash(o["end"]):
            ck.reject("C14:host-crash", o["end"], {"src": reqs[i]["src"]})
            continue
        if o["end"].startswith("discarded:"):       # deadline / memory: says nothing by itself - asked again below, alone and with a long deadline
            o = again.get(str(i), o)
        if o["end"].startswith("discarded:"):
            undecided += 1
            continue
        if o["end"].startswith("fuel:"):             # the step budget is deterministic: the walk really does not end within 20 000 steps
            if c["body"] != "unguarded":
                ck.reject(f"C14:{c['body']}:does-not-terminate", f"a history over a guarded iterator does not finish ({o['end']}); observations so far {o['events']}",
                          {"src": reqs[i]["src"], "observed": [o["events"], o["end"]], "expected": [w for _, w in exps[i]]})
            continue
        ev = o["events"]
        if len(ev) != len(exps[i]):
            ck.reject(f"C14:{c['body']}:aborted", f"history program ended with {o['end']} after {len(ev)} observations", {"src": reqs[i]["src"], "observed": [ev, o["end"]]})
            continue
        kinds = {e["op"] for e in c["log"]}
        if "next" in kinds and kinds & {"copy", "alias", "newfrom", "new", "A", "list", "reduce", "zip"}:
            nontrivial += 1
        for k, ((what, want), got) in enumerate(zip(exps[i], ev)):
            comparisons += 1
            if got != want:
                before = "+".join(e["op"] for e in c["log"][:[j for j, e in enumerate(c["log"]) if e["op"] in ("next", "A", "list", "reduce", "zip")][k]])
                sig = f"C14:{c['body']}:{what.split('.')[-1].lstrip('xy')}:after={'+'.join(sorted(set(before.split('+')))) or '-'}"
                if c["body"] == "yieldsnil" and what.endswith(".A") and got == want.replace("nil, ", "").replace(", nil", "").replace("[nil]", "[]"):
                    sig = "C14:A-drops-yielded-nil"          # the only difference: the nil values that next returns are missing from A
                ck.reject(sig,
                          f"{c['body']}: observation {k + 1} ({what}) is {got[4:]}, the machine gives {want[4:]}",
                          {"src": reqs[i]["src"], "observation": what, "observed": got, "expected": want})
                break
    ck.sample({"src": reqs[len(cases) // 2]["src"], "events": out[str(len(cases) // 2)]["events"]})
    ck.cov["undecided"] = undecided
    if undecided > max(20, len(cases) // 20):
        raise pvlib.Broken(f"{undecided} of {len(cases)} history programs could not be evaluated (deadline / memory): the machine is too loaded to judge")
    ck.cov["evaluations"] = comparisons
    ck.cov["distinct_nontrivial"] = nontrivial
    ck.cov["traces_validated_against_impl"] = len(cases)
    ck.cov["exhaustive"] = not (thorough and len(cases) == 150000)
    ck.cov["rule"] = (f"{len(BODIES)} iterator bodies (guarded counter, unguarded, two-argument state, keyword state, local before yield, implicit argument variables, two "
                      f"yields, recur / defer recur before a guard with a hole, a flag kept in the iterator's own scope, an iterator built inside the body, an expression given to recur that raises after the yield, a yielded nil) x every history of {maxops} operations over variables x, y: next, A, list chain, reduce chain on either; y := g.new(..), "
                      "y := x.new(..), y := x._iter, y := x; non-trivial = histories mixing next with a derivation or a walk")
    ck.assumptions = ["StopIterErr outcomes of next are observed through x.try.next.A", "built-in iterators (cursor in a Go closure) are outside the statement"]
    return ck.finish()


def replay(path):
    c = json.load(open(path))["case"]
    o = run_cases([{"id": "r", "src": c["src"]}], nproc=1)["r"]
    print(o["events"], o["end"], "| expected", c.get("observation"), c.get("expected"))
    return 0

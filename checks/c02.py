"""C02 precedence and associativity.

PanGrammar (TLA+) computes, for every statement of a TLC-enumerated family, the fully parenthesised text implied by
the documented precedence table.  Real parser: parse(w) and parse(Paren(w)) must be the same tree
("adding the parentheses that the table implies never changes the parse"), and both must be the tree the table prescribes,
which PanGrammar also prints in the form of the parser's ast String() (an absolute oracle: a rewrite that regroups a statement
whatever parentheses are written would satisfy the first relation)."""
import json
import re
import pvlib
from pvlib import Check, run_tlc, run_cases, payloads


# places where an expression may be written: the grouping of the expression is the table's wherever it stands (QQ = the expression)
WRAPPERS = ["[QQ]", "[0, QQ]", "f(QQ)", "f(0, QQ)", "x[QQ]", "f(k: QQ)", "{k: QQ}", "%{QQ: 1}", "%{1: QQ}", "{|| QQ}", "x.m(QQ)", "x@m(QQ)", "x$m(0, QQ)", "\"#{QQ}\"", "<{QQ}>", "(QQ:1)",
            "x[QQ:]", "(QQ)", "[(QQ)]", "f((QQ))"]


def judge(ck, cases, binary, label, thorough=False):
    reqs = []
    for i, c in enumerate(cases):
        reqs.append({"id": f"s{i}", "mode": "parse", "src": c["src"]})
        if c["paren"] != "SYNTAX":
            reqs.append({"id": f"p{i}", "mode": "parse", "src": c["paren"]})
            if c["j"] == 0 and not c["undet"]:
                for k in (range(len(WRAPPERS)) if thorough else [(i * 3 + d) % len(WRAPPERS) for d in range(3)]):
                    reqs.append({"id": f"w{i}.{k}", "mode": "parse", "src": WRAPPERS[k].replace("QQ", c["src"])})
            if c["j"] == 0 and not c["undet"] and set(c["u"]) == {1} and " if " not in c["src"] and " else " not in c["src"]:
                # predicate-style names (`a?`) as operands, written without any space: a name takes its suffix, the operator follows
                reqs.append({"id": f"q{i}", "mode": "parse", "src": re.sub(r"\b([abcd])\b", r"\1?", c["src"]).replace(" ", "")})
    reqs += [{"id": f"t{k}", "mode": "parse", "src": w} for k, w in enumerate(WRAPPERS)]
    out = run_cases(reqs, binary=binary, label=label)
    templ = [out[f"t{k}"]["end"] for k in range(len(WRAPPERS))]
    if any(not t.startswith("ast:") or t.count("QQ") != 1 for t in templ):
        raise pvlib.Broken(f"a wrapper did not parse as a tree with one hole: {templ}")
    stats = {"grouping_compared": 0, "both_syntax": 0, "spec_rejects_parser_accepts": 0, "undetermined": 0}
    nontrivial = set()
    for i, c in enumerate(cases):
        s = out[f"s{i}"]["end"]
        if pvlib.is_host_crash(s):
            ck.reject("C02:parser-panic", f"{c['src']!r}: {s}", {"src": c["src"], "observed": s})
            continue
        if c["paren"] == "SYNTAX":
            if s == "syntax":
                stats["both_syntax"] += 1
            else:
                stats["spec_rejects_parser_accepts"] += 1
                ck.divergence("specification's grammar fragment rejects a statement the parser accepts", {"src": c["src"], "parsed": s})
            continue
        p = out[f"p{i}"]["end"]
        if c["undet"]:
            stats["undetermined"] += 1
            if s != p:
                ck.divergence("grouping not determined by the table (chained if)", {"src": c["src"], "parse": s, "paren": c["paren"], "parse_paren": p})
            continue
        stats["grouping_compared"] += 1
        if s != p:
            conn = ",".join(str(x) for x in c["c"])
            sig = f"C02:grouping:{label}:c={conn}:u={','.join(str(x) for x in c['u'])}:j={c['j']}"
            what = (f"{c['src']!r} parses as {s[4:]!r} but with the table's parentheses {c['paren']!r} as {p[4:]!r}"
                    if s != "syntax" else f"{c['src']!r} is a syntax error although the table gives it the grouping {c['paren']!r}")
            ck.reject(sig, what, {"src": c["src"], "paren": c["paren"], "parse": s, "parse_paren": p, "variant": label})
        elif s != "ast:" + c["ast"]:
            # the two parses agree with each other but not with the tree the table prescribes (a rewrite that ignores parentheses)
            conn = ",".join(str(x) for x in c["c"])
            ck.reject(f"C02:tree:{label}:c={conn}:u={','.join(str(x) for x in c['u'])}:j={c['j']}",
                      f"{c['src']!r} parses as {s[4:]!r}; the table prescribes the tree {c['ast']!r}",
                      {"src": c["src"], "paren": c["paren"], "parse": s, "expected_tree": c["ast"], "variant": label})
        elif c["paren"].count("(") >= 2:
            nontrivial.add(c["src"])
        q = out.get(f"q{i}")
        if q is not None and s == "ast:" + c["ast"]:
            stats["tight_predicate_names"] = stats.get("tight_predicate_names", 0) + 1
            want = "ast:" + re.sub(r"\b([abcd])\b", r"\1?", c["ast"])
            if q["end"] != want:
                tight = re.sub(r"\b([abcd])\b", r"\1?", c["src"]).replace(" ", "")
                ck.reject(f"C02:tight:{label}:c={','.join(str(x) for x in c['c'])}", f"{tight!r} (the statement {c['src']!r} with predicate-style names and no spaces) parses as {q['end'][4:]!r}; the table prescribes {want[4:]!r}",
                          {"src": tight, "paren": re.sub(r"\b([abcd])\b", r"\1?", c["paren"]), "parse": q["end"], "expected_tree": want[4:], "variant": label})
        if s == "ast:" + c["ast"] and c["j"] == 0:
            for k in range(len(WRAPPERS)):
                w = out.get(f"w{i}.{k}")
                if w is None:
                    continue
                stats["in_context"] = stats.get("in_context", 0) + 1
                want = templ[k].replace("QQ", c["ast"])
                if w["end"] != want:
                    ck.reject(f"C02:context:{label}:w={k}:c={','.join(str(x) for x in c['c'])}:u={','.join(str(x) for x in c['u'])}",
                              f"{c['src']!r} alone parses as {c['ast']!r}, but written in {WRAPPERS[k]!r} the whole is {w['end'][4:]!r} (expected {want[4:]!r})",
                              {"src": WRAPPERS[k].replace("QQ", c["src"]), "paren": WRAPPERS[k].replace("QQ", c["paren"]), "parse": w["end"], "expected_tree": want[4:], "variant": label})
        ck.sample({"src": c["src"], "paren_by_table": c["paren"], "parser_tree": s})
    return stats, nontrivial


def run():
    ck = Check("C02")
    thorough = ck.tier == "thorough"
    res = run_tlc("MC_C02", defines={"Triples": "TRUE" if thorough else "FALSE"}, timeout_s=1700)
    ck.add_tlc(res, f"MC_C02 Triples={thorough}")
    cases = payloads(res, "CASE ")
    if len(cases) != res.distinct:
        raise pvlib.Broken(f"TLC printed {len(cases)} cases for {res.distinct} states")
    variants = [("committed", pvlib.build_worker("committed"))]
    regen = pvlib.build_worker("regen")
    if regen:
        variants.append(("regenerated-y.go", regen))
    total = 0
    nontrivial = set()
    for label, binary in variants:
        stats, nt = judge(ck, cases, binary, label, thorough)
        ck.cov.setdefault("variants", {})[label] = stats
        total += len(cases)
        nontrivial |= nt
    ck.cov["evaluations"] = total
    ck.cov["distinct_nontrivial"] = len(nontrivial)
    ck.cov["traces_validated_against_impl"] = total
    ck.cov["exhaustive"] = True
    ck.cov["rule"] = ("TLC enumerates every statement `[jump] U1 c1 U2 [c2 U3 [c3 U4]]` with connectors c in 23 infix operators + := += => if else "
                      "(all ordered pairs; all triples in thorough) and units U in 18 operand shapes (identifier, literal, call, index, grouped, "
                      "prefix operators, chains with/without arguments and additional context) varied one position at a time, under each jump keyword; every statement without a jump keyword also written inside "
                      f"{len(WRAPPERS)} enclosing places (list element, argument, keyword value, index, bound, pair key / value, function and iterator body, interpolation, parentheses: 3 per statement, thorough all) where its tree must be the same; "
                      "non-trivial = distinct statements whose table grouping has >= 2 nested groups and that parse identically with and without the parentheses")
    ck.assumptions = ["grouping parentheses themselves are parsed correctly", "chained if-expressions are not determined by the table and only logged"]
    if not nontrivial:
        raise pvlib.Broken("no statement was compared")
    return ck.finish()


def replay(path):
    c = json.load(open(path))["case"]
    out = run_cases([{"id": "s", "mode": "parse", "src": c["src"]}, {"id": "p", "mode": "parse", "src": c["paren"]}], nproc=1)
    print("parse(src)   =", out["s"]["end"])
    print("parse(paren) =", out["p"]["end"])
    if c.get("expected_tree"):
        print("table's tree =", c["expected_tree"])
    if out["s"]["end"] != out["p"]["end"] or (c.get("expected_tree") and out["s"]["end"] != "ast:" + c["expected_tree"]):
        print(f"VIOLATION property=C02 replay={path}")
        return 1
    return 0

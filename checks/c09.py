"""C09 object / map literal key rules: TLC enumerates literals (explicit pairs over a key pool with every duplicate pattern,
** operands of maps and objects), checks the invariants of PanCollections' definitions and prescribes what every accessor
returns; each literal is replayed in the real interpreter and all accessors are compared."""
import json, re
import pvlib
from pvlib import Check, run_tlc, run_cases, payloads

PRELUDE = 'B1 := [1].bear({}); R1 := (1:2).bear({}); I5 := 5.bear; M1 := %{1: 100, "a": 101, [1]: 102, "c": 103}; M2 := %{[1]: 200, 2: 201, {a: 1}: 202}; M3 := [[[1], 300], [[1], 301], [2, 302]].M; O1 := {a: 110, c: 111, a!: 112}; O2 := {b: 120, _p: 121, _q: 122}\n'
# the operands themselves must be what they were (what they print, contain and index), whatever literal was evaluated
OPERANDS = "say([M1, M2, O1, O2, M1.S, M2.S, O1.S, O2.S, M1.keys, M2.keys, O1.keys, O2.keys, O1['b], O1['_p], O1['d], O2['a], O2['c], M1[2], M2[1], M1[{a: 1}]])"
INSPECT = {"B1": "{}", "R1": "{}", "(1:2)": "(1:2:nil)", "1.0": "1.000000", "1.0000001": "1.000000", "1.0000002": "1.000000"}


KEYTEXT = {}      # how the worker renders each key of the pool (read from a reference run: B1, R1 are descendants, ranges print their step)


def v(x):
    return "nil" if x in (-1, -2) else str(x)       # -1: absent, -2: a stored nil


def name(k):
    return k["s"].strip('"')


def split_top(s):
    out, depth, cur, instr = [], 0, "", False
    for ch in s:
        if ch == '"':
            instr = not instr
        if not instr:
            if ch in "[{(":
                depth += 1
            if ch in "]})":
                depth -= 1
            if ch == "," and depth == 0:
                out.append(cur.strip())
                cur = ""
                continue
        cur += ch
    if cur.strip():
        out.append(cur.strip())
    return out


def build(case):
    kind = case["kind"]
    if kind == "obj":
        items = [f"{name(p['k'])}: {v(p['v'])}" for p in case["pairs"]] + [f"**{s}" for s in case["spreads"]]
        lit = "{" + ", ".join(items) + "}"
    else:
        items = [f"{p['k']['s']}: {v(p['v'])}" for p in case["pairs"]] + [f"**{s}" for s in case["spreads"]]
        lit = "%{" + ", ".join(items) + "}"
    probes = [p["k"] for p in case["at"]]
    if kind == "obj":
        q = ["say(x.keys)", "say(x.values)", "say(x.items)", "say(x.keys(private?: true))", "say(x.values(private?: true))",
             "say(x.items(private?: true))", "say(x@{|k, v| [k, v]})", "say([" + ", ".join(f"x['{name(k)}]" for k in probes) + "])",
             "say([" + ", ".join(f"x.{name(k)}" for k in probes if any(name(k) == name(a["k"]) for a in case["all"])) + "])", "say(x)", "say(x.S)"]
    else:
        q = ["say(x.keys)", "say(x.values)", "say(x.items)", "say(x@{|k, v| [k, v]})", "say(x.len)",
             "say([" + ", ".join(f"x[{k['s']}]" for k in probes) + "])", "say(x)", "say(x.S)"]
    calls = "{|zq: 0| zq}(**O1, **O2); {zm: m{|zq: 0| zq}}.zm(**O2, **O1); {|zq: 0| zq}(**x, **O1) if x.proto == Obj\n"      # ** operands of calls stay what they were, too
    return PRELUDE + "x := " + lit + "\n" + "\n".join(q) + "\nx2 := " + lit + "\nsay(x2)\n" + calls + OPERANDS, lit


def expect(case):
    kind = case["kind"]
    L, A = case["listed"], case["all"]
    key = (lambda p: '"' + name(p["k"]) + '"') if kind == "obj" else (lambda p: KEYTEXT.get(p["k"]["s"], p["k"]["s"]))
    def keys(ps): return "[" + ", ".join(key(p) for p in ps) + "]"
    def vals(ps): return "[" + ", ".join(v(p["v"]) for p in ps) + "]"
    def items(ps): return "[" + ", ".join(f"[{key(p)}, {v(p['v'])}]" for p in ps) + "]"
    # an absent key that names one of the map's own properties ("len") answers with that property: left open ("?")
    at = "[" + ", ".join("?" if kind == "map" and a["k"]["s"] == '"len"' and a["v"] == -1 else v(a["v"]) for a in case["at"]) + "]"
    if kind == "obj":
        present = "[" + ", ".join(v(a["v"]) for a in case["at"] if a["v"] != -1) + "]"
        canon = "{" + ", ".join(f"{name(p['k'])}: {v(p['v'])}" for p in A) + "}"
        return [keys(L), vals(L), items(L), keys(A), vals(A), items(A), items(L), at, present, canon, None]
    canon = "%{" + ", ".join(f"{key(p)}: {v(p['v'])}" for p in A) + "}"
    return [keys(A), vals(A), items(A), items(A), str(len(A)), at, canon, None]


def run():
    ck = Check("C09")
    thorough = ck.tier == "thorough"
    res = run_tlc("MC_C09", defines={"MaxPairs": "3" if thorough else "2"}, timeout_s=1700)
    if res.violation:
        raise pvlib.Broken("PanCollections invariant violated in the model: " + res.violation)
    ck.add_tlc(res, "MC_C09")
    cases = payloads(res, "CASE ")
    if len(cases) != res.distinct:
        raise pvlib.Broken("case count mismatch")
    reqs = []
    for i, c in enumerate(cases):
        src, lit = build(c)
        reqs.append({"id": str(i), "src": src, "lit": lit})
    srcs = sorted({p["k"]["s"] for c in cases if c["kind"] == "map" for p in c["pairs"] + c["all"] + c["at"]})
    kt = run_cases([{"id": "k", "src": PRELUDE + "\n".join(f"say({x})" for x in srcs)}], nproc=1)["k"]["events"]
    if len(kt) != len(srcs):
        raise pvlib.Broken("reference rendering of the key pool failed")
    KEYTEXT.update({x: e[4:] for x, e in zip(srcs, kt)})
    ki = run_cases([{"id": "k", "src": PRELUDE + "\n".join(f"say(%{{{x}: 0}}.S)" for x in srcs)}], nproc=1)["k"]["events"]
    for x, e in zip(srcs, ki):          # how each key prints inside a map
        txt = json.loads(e[4:]) if e[4:].startswith('"') else e[4:]
        INSPECT[x] = txt[2:-4]
    out = run_cases([{"id": r["id"], "src": r["src"]} for r in reqs] + [{"id": "ref", "src": PRELUDE + OPERANDS}], label="C09")
    ref_operands = out["ref"]["events"][-1][4:]
    names = {"obj": ["keys", "values", "items", "keys(private)", "values(private)", "items(private)", "iteration", "index", "call", "structure", "print"],
             "map": ["keys", "values", "items", "iteration", "len", "index", "structure", "print"]}
    nontrivial = comparisons = discarded = 0
    for i, c in enumerate(cases):
        o = out[str(i)]
        lit = reqs[i]["lit"]
        if pvlib.is_host_crash(o["end"]):
            ck.reject("C09:host-crash", f"{lit}: {o['end']}", {"src": reqs[i]["src"]})
            continue
        exp = expect(c)
        ev = [e[4:] for e in o["events"] if e.startswith("out:")]
        if len(ev) >= 2:
            again, operands = ev[-2], ev[-1]
            ev = ev[:-2]
            if operands != ref_operands:
                ck.reject(f"C09:{c['kind']}:operand-changed:spreads={'+'.join(c['spreads']) or '-'}", f"after {lit} the ** operands read {operands}, before: {ref_operands}",
                          {"src": reqs[i]["src"], "observed": operands, "expected": ref_operands})
            elif ev and again != ev[-2]:
                ck.reject(f"C09:{c['kind']}:second-evaluation-differs", f"{lit} evaluated twice gives {ev[-2]} then {again}", {"src": reqs[i]["src"]})
        dup = len(c["pairs"]) + sum({"M1": 4, "M2": 3, "O1": 3, "O2": 3, "M3": 3}[s] for s in c["spreads"]) > len(c["all"])
        nontrivial += 1 if dup else 0
        if o["end"].startswith(("discarded:", "fuel:")):      # not evaluated to the end (deadline under load): nothing to judge
            discarded += 1
            continue
        if len(ev) != len(exp):
            ck.reject(f"C09:{c['kind']}:aborted", f"{lit}: program ended with {o['end']} after {len(ev)} accessors", {"src": reqs[i]["src"], "observed": o["end"], "events": ev})
            continue
        for nm, want, got in zip(names[c["kind"]], exp, ev):
            comparisons += 1
            if nm == "print":
                body = json.loads(got) if got.startswith('"') else got
                inner = body[body.index("{") + 1: body.rindex("}")]
                got_pairs = sorted(split_top(inner))
                if c["kind"] == "obj":
                    want_pairs = sorted(f'"{name(p["k"])}": {v(p["v"])}' for p in c["all"])
                    want_pairs_pub = sorted(f'"{name(p["k"])}": {v(p["v"])}' for p in c["listed"])
                    ok = got_pairs in (want_pairs, want_pairs_pub)
                else:
                    want_pairs = sorted(f'{INSPECT.get(p["k"]["s"], p["k"]["s"]).replace("{a: 1}", chr(123) + chr(34) + "a" + chr(34) + ": 1" + chr(125))}: {v(p["v"])}' for p in c["all"])
                    ok = got_pairs == want_pairs
                if not ok:
                    ck.reject(f"C09:{c['kind']}:print", f"{lit} prints {body} but holds {want_pairs}", {"src": reqs[i]["src"], "printed": body, "pairs": want_pairs})
            elif nm == "index" and "?" in want and [g for g, w in zip(split_top(got[1:-1]), split_top(want[1:-1])) if w != "?"] == [w for w in split_top(want[1:-1]) if w != "?"] \
                    and len(split_top(got[1:-1])) == len(split_top(want[1:-1])):
                pass
            elif got != want:
                shape = "dup" if dup else "nodup"
                ck.reject(f"C09:{c['kind']}:{nm}:{shape}:spreads={'+'.join(c['spreads']) or '-'}", f"{lit}: {nm} gives {got}, the model gives {want}",
                          {"src": reqs[i]["src"], "accessor": nm, "observed": got, "expected": want})
    ck.cov["discarded"] = discarded
    if discarded > max(20, len(cases) // 20):
        raise pvlib.Broken(f"{discarded} of {len(cases)} literal programs were not evaluated to the end: the machine is too loaded to judge")
    ck.sample({"literal": reqs[len(cases) // 2]["lit"], "events": out[str(len(cases) // 2)]["events"][:4]})
    ck.cov["evaluations"] = comparisons
    ck.cov["distinct_nontrivial"] = nontrivial
    ck.cov["traces_validated_against_impl"] = len(cases)
    ck.cov["exhaustive"] = True
    ck.cov["rule"] = ("object literals: every sequence of <= MaxPairs pairs over names {a, b, _p, a!, _p!} x ** operands {-, O1, O2, O1 O2, O2 O1}; map literals: every sequence "
                      "of <= MaxPairs pairs over 20 keys (incl. a descendant of the int 5 next to 5, and 'len', which names a property of maps), any one explicit value being nil, (ints, strs, floats incl. two that print alike, a range, descendants of [1] and (1:2) that == accepts, nil, bools, arrays incl. [1] twice-equal, object) x ** operands {-, M1, O1, M1 O1, O2 M1, M1 M2, M2 M1, M2 O2 M1, M3, M3 M1, M2 M3} (M3 built by Arr#M with a repeated array key); "
                      "MaxPairs 2 quick / 3 thorough; accessors keys/values/items(/private), iteration, len, index for every pool key, structure, printed pairs; "
                      "non-trivial = literals with at least one duplicate key")
    ck.assumptions = ["`m[k]` for an ABSENT key that names one of the map's own properties is left open (the statement only says it is not nil-by-rule)"]
    return ck.finish()


def replay(path):
    c = json.load(open(path))["case"]
    o = run_cases([{"id": "r", "src": c["src"]}], nproc=1)["r"]
    print(o["events"], o["end"])
    print("expected", c.get("accessor"), c.get("expected"))
    return 0

"""pv selftest: demonstrates that each trace specification is bound to what it validates - a faithful recording is accepted and the
same recording with one field corrupted (or one event removed) is rejected.  Not a registered check; run with `python3 pv.py selftest`."""
import copy, json
import pvlib
from pvlib import run_tlc, run_cases, payloads, ndjson
from checks import panlang
from checks.panlang import *


def expect(name, ok_when_faithful, ok_when_corrupted):
    status = "ok" if ok_when_faithful and not ok_when_corrupted else "FAILED"
    print(f"[selftest] {name}: faithful accepted={ok_when_faithful}, corrupted accepted={ok_when_corrupted} -> {status}")
    return status == "ok"


def run():
    good = True
    # ---- Trace_Eval: a recorded run, then the same run with one event changed
    body = [Asg("a", Int(1)), Asg("f", Fn(["x"], [Asg("b", Inf("+", Id("x"), Id("a"))), Probe(1), Id("b")])), Say(Call(Id("f"), [Int(2)]))]
    o = run_cases([{"id": "p", "src": panlang.program_src(body)}], nproc=1)["p"]
    row = {"id": "p", "prog": panlang.make_prog(body), "ev": o["events"], "end": o["end"], "msg": ""}
    bad = copy.deepcopy(row)
    bad["id"] = "q"
    bad["ev"][0] = bad["ev"][0].replace("b=3", "b=4")
    vs = {v["id"]: v["s"] for v in payloads(run_tlc("Trace_Eval", files={"eval.ndjson": ndjson([row, bad])}, workers=2), "V ")}
    good &= expect("Trace_Eval (probe frame value changed)", vs["p"] == "ok", vs["q"] == "ok")
    # ---- Trace_C10
    from checks import c10
    r1 = {"id": "a", "op": "//", "a": c10.big(-7), "b": c10.big(2), "k": "int", "r": c10.big(-4), "kind": "", "fm": c10.big(0), "fe": 0}
    r2 = dict(r1, id="b", r=c10.big(-3))
    vs = {v["id"]: v["ok"] for v in payloads(run_tlc("Trace_C10", files={"c10.ndjson": ndjson([r1, r2])}, workers=2), "V ")}
    good &= expect("Trace_C10 (-7 // 2 recorded as -3)", vs["a"], vs["b"])
    # ---- Trace_C20: remove the read-lock acquisition before a table read
    evs = [(1, "AutoRLock", ""), (1, "AutoRead", "symHashTable@readSymHash"), (1, "AutoRUnlock", ""), (2, "AutoLock", ""), (2, "AutoWrite", "symHashTable@writeSymHash"), (2, "AutoWrite", "strTable@writeSymHash"), (2, "AutoUnlock", "")]
    def rows(es):
        return [{"nproc": 2, "g": 0, "ev": "header", "tab": "", "var": ""}] + [{"nproc": 0, "g": g, "ev": e, "tab": t, "var": t.split("@")[0]} for g, e, t in es]
    def accepted(es):
        t = run_tlc("Trace_C20", files={"c20.ndjson": ndjson(rows(es))}, workers=1, prefix=("V ",))
        return any(s.startswith("V accepted") for s in t.lines)
    good &= expect("Trace_C20 (RLock event removed)", accepted(evs), accepted(evs[1:]))
    good &= expect("Trace_C20 (write under read lock)", accepted(evs), accepted(evs[:1] + [(1, "AutoWrite", "strTable@x")] + evs[2:]))
    good &= expect("Trace_C20 (second table written in another critical section)", accepted(evs),
                   accepted(evs[:5] + [(2, "AutoUnlock", ""), (2, "AutoLock", "")] + evs[5:]))
    # ---- Trace_C06: an existing fingerprint changes
    ok_rows = [{"id": "a", "snaps": [["h1", "h2"], ["h1", "h2", "h3"]]}, {"id": "b", "snaps": [["h1", "h2"], ["h1", "hX", "h3"]]}]
    vs = {v["id"]: v["broken"] for v in payloads(run_tlc("Trace_C06", files={"c06.ndjson": ndjson(ok_rows)}, workers=2), "V ")}
    good &= expect("Trace_C06 (fingerprint of an existing value changed)", vs["a"] == 0, vs["b"] == 0)
    # ---- Trace_C19
    rws = [{"id": "a", "obs": ["o1", "o2"], "fresh": ["o1", "o2"], "shared": ["s", "s", "s"]}, {"id": "b", "obs": ["o1", "oX"], "fresh": ["o1", "o2"], "shared": ["s", "s", "s"]},
           {"id": "c", "obs": ["o1", "o2"], "fresh": ["o1", "o2"], "shared": ["s", "s", "t"]}]
    vs = {v["id"]: (v["obs"], v["shared"]) for v in payloads(run_tlc("Trace_C19", files={"c19.ndjson": ndjson(rws)}, workers=2), "V ")}
    good &= expect("Trace_C19 (observation differs from fresh)", vs["a"] == (0, 0), vs["b"] == (0, 0))
    good &= expect("Trace_C19 (shared projection changed)", vs["a"] == (0, 0), vs["c"] == (0, 0))
    # ---- Trace_C16
    a = [{"k": "IDENT", "t": "x"}, {"k": "RET", "t": ""}, {"k": "IDENT", "t": "y"}, {"k": "AST", "t": "ast:x\ny"}]
    b = [{"k": "IDENT", "t": "x"}, {"k": "RET", "t": ""}, {"k": "IDENT", "t": "yy"}, {"k": "AST", "t": "ast:x\ny"}]
    rws = [{"id": "a", "mode": "layout", "a": a, "b": a, "got": 0, "want": 0}, {"id": "b", "mode": "layout", "a": a, "b": b, "got": 0, "want": 0}]
    vs = {v["id"]: v["ok"] for v in payloads(run_tlc("Trace_C16", files={"c16.ndjson": ndjson(rws)}, workers=2), "V ")}
    good &= expect("Trace_C16 (token text changed under padding)", vs["a"], vs["b"])
    # ---- PanTruth
    rws = [{"id": "a", "b": "T", "obs": ["T"] * 10}, {"id": "b", "b": "T", "obs": ["T"] * 4 + ["F"] + ["T"] * 5}]
    vs = {v["id"]: v["ok"] for v in payloads(run_tlc("PanTruth", files={"c12.ndjson": ndjson(rws)}, workers=2), "V ")}
    good &= expect("PanTruth.Agree (one construct decides differently)", vs["a"], vs["b"])
    # ---- Trace_C17 floats
    from checks import c17
    import math
    def frow(i, s, x):
        m, e2 = math.frexp(x)
        return {"id": i, "cs": list(s.replace(".", "")), "e10": -len(s.split(".")[1]), "k": "float", "fm": c17.big(int(m * 2**53)), "fe": e2 - 53}
    vs = {v["id"]: v["ok"] for v in payloads(run_tlc("Trace_C17", files={"c17_floats.ndjson": ndjson([frow("a", "0.1", 0.1), frow("b", "0.1", 0.1000000000000001)])}, workers=2), "V ")}
    good &= expect("Trace_C17 (0.1 recorded one ulp off)", vs["a"], vs["b"])
    print("[selftest]", "all bindings demonstrated" if good else "SOME SELFTESTS FAILED")
    return 0 if good else 2

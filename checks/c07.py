"""C07 fail-stop: a raise injected at every syntactic position of every host construct, nested in calls and under handlers;
the recorded run (markers before/after, outcome, what the handler received) is validated against PanEval, in which every
construct evaluates its children in order and returns the first error unchanged."""
import pvlib
from pvlib import Check
from checks import evalfam, evalcheck


def pvlib_quote(x):
    """the worker's rendering of a str (Go strconv.Quote) for the plain-ASCII texts used here"""
    return '"' + x.replace("\\", "\\\\").replace('"', '\\"').replace("\t", "\\t") + '"'


def run():
    ck = Check("C07")
    thorough = ck.tier == "thorough"
    fam = evalfam.c07_family(thorough)
    res, st = evalcheck.run_family(ck, "C07", fam, "injected",
                                   signature=lambda tag, r: "C07:" + ":".join(tag.split(":")[i] for i in (0, 1, 3, 4)) + ":" +
                                   evalcheck.first_diff(r["observed"], r.get("predicted")))
    ck.cov["injected"] = st
    leaked = 0
    for (tag, _), r in zip(fam, res.values()):
        if any("<RAISED" in e for e in r["observed"]["ev"]) or "<RAISED" in r["observed"]["end"]:
            leaked += 1
            ck.reject("C07:leaked-error-object:" + tag.split(":")[0], f"{r['src']!r}: a raised error object is stored inside a value: {r['observed']}",
                      {"src": r["src"], "observed": r["observed"]})
    # a raise inside an iterator body after its yield (PanIter, body "raisingrecur"): the next / the walk that meets it raises, nothing is yielded
    from pvlib import run_tlc, run_cases, payloads
    from checks import c14
    t = run_tlc("MC_C14", defines={"Body": '"raisingrecur"', "MaxOps": "3", "Lim": str(c14.LIM)}, timeout_s=600)
    if t.violation:
        raise pvlib.Broken("PanIter property violated in the model (raisingrecur): " + t.violation)
    ck.add_tlc(t, "MC_C14 raisingrecur MaxOps=3")
    icases = payloads(t, "CASE ")
    ireqs, iexp = [], []
    for i, c in enumerate(icases):
        src, expect = c14.program(c)
        ireqs.append({"id": f"i{i}", "src": src, "fuel": 20000, "deadline_ms": 3000})
        iexp.append(expect)
    iout = run_cases(ireqs, label="C07 iterator bodies")
    for i, c in enumerate(icases):
        ev = iout[f"i{i}"]["events"]
        for k, ((what, want), got) in enumerate(zip(iexp[i], ev + ["<missing>"] * len(iexp[i]))):
            if got != want:
                ck.reject(f"C07:iterator-body:{what.split('.')[-1].lstrip('xy')}", f"{ireqs[i]['src']!r}: observation {k + 1} ({what}) is {got}, PanIter gives {want}",
                          {"src": ireqs[i]["src"], "observed": got, "expected": want})
                break
    ck.cov["iterator_body_histories"] = len(icases)
    # a raise in a parameter expression of a function / iterator literal (evaluated when the literal is): the literal's statement fails
    praise = [("Err.new(\"boom\")", "err:Err:boom"), ("1 / 0", "err:ZeroDivisionErr:cannot be divided by 0"), ("undefinedname + 1", "err:NameErr:name `undefinedname` is not defined"),
              ("1.nosuchprop", "err:NoPropErr:property `nosuchprop` is not defined.")]
    preqs, pexp = [], []
    for rsrc, want in praise:
        for shape in ("{{|{r}| 5}}", "{{|a, {r}| a}}", "<{{|{r}| yield 1}}>", "m{{|{r}| 5}}", "{{|x| {{|{r}| x}}}}(1)", "[1, 2]@{{|e| {{|{r}| e}}}}", "{{f: {{|{r}| 5}}}}"):
            preqs.append({"id": f"p{len(preqs)}", "src": f"say(70)\nr := {shape.format(r=rsrc)}\nsay(71)\nr"})
            pexp.append(want)
    pout = run_cases(preqs, label="C07 parameter expressions")
    for rq, want in zip(preqs, pexp):
        o = pout[rq["id"]]
        if o["events"] != ["out:70"] or o["end"] != want:
            ck.reject("C07:param-expression", f"{rq['src']!r}: {o['events']} {o['end']}; the raise in the parameter expression must end the statement with {want}",
                      {"src": rq["src"], "observed": [o["events"], o["end"]], "expected": [["out:70"], want]})
    ck.cov["parameter_expression_programs"] = len(preqs)
    # a raise while a LAZY source computes an element, consumed through every library method written over iterators (chain, zip, withI, ...):
    # run the consumer with a quiet source first; if that run asks the source for the element in question, the run with the raising source
    # must be the same up to that point and then end with exactly that error (under try: the handler holds it)
    sources = [("lazymap", "[1, 2, 3].lazyMap {{|x| say(x); {r}x}}"), ("iterlit", "<{{|x| say(x); {r}yield x if x < 4; recur(x + 1)}}>.new(1)"),
               ("while", "(1:9).while {{|x| say(x); {r}x < 4}}")]
    consumers = [".A", ".chain([10, 20]).A", ".append(9).A", ".prepend(0).A", "@{|e| e}", "$(0)+", ".sum", ".withI.A", ".zip([7, 8, 9]).A", ".acc {|a, e| e}.A", ".until {|e| e > 5}.A",
                 ".while {|e| e < 5}.A", ".doUntil {|e| e > 5}.A", ".doWhile {|e| e < 5}.A", ".select {|e| true}", ".exclude {|e| false}", ".map {|e| e}", ".reduce({|a, e| e})", ".last",
                 ".max", ".min", ".tally", ".keyBy {|e| e}", ".chunk(2).A", ".all? {|e| true}", ".any? {|e| false}", ".find {|e| e == 3}", ".index(3)", ".indices(3)", ".rindex(3)", ".avg",
                 ".flipflop(1, 3)", ".empty?", ".lazyMap {|e| e}.A", ".chain([10]).chain([20]).A", ".{|it| [0].chain(it, [5]).A}", ".{|it| [0].zip(it).A}", ".A.len", "=@{|e| e}", "~@{|e| e}.len",
                 "&@{|e| e}", ".withI.lazyMap {|p| p}.A", ".{|it| [it.next, it.next, it.next]}", ".append(9).withI.A", ".prepend(0).chain([5]).sum"]
    kinds = [("Err", "raise Err.new(\"boom\") if x == 2; ", "err:Err:boom"), ("div0", "1 / 0 if x == 2; ", "err:ZeroDivisionErr:cannot be divided by 0"),
             ("name", "undefinedname if x == 2; ", "err:NameErr:name `undefinedname` is not defined")]
    lreqs, lmeta = [], []
    for sname, stext in sources:
        for cons in consumers:
            for handler in ("none", "try"):
                for kname, ktext, kend in [("quiet", "", "")] + kinds:
                    body = f"it := {stext.format(r=ktext)}\nsay(70)\nres := it{cons}\nsay(71)\nres"
                    if handler == "try":
                        body = f"w := {{|| it := {stext.format(r=ktext)}; say(70); res := it{cons}; say(71); res}}\nsay(nil.try.{{|u| w()}}.A)\nsay(72)"
                    lreqs.append({"id": f"L{len(lreqs)}", "src": body, "fuel": 60000, "deadline_ms": 4000})
                    lmeta.append((sname, cons, handler, kname, kend))
    lout = run_cases(lreqs, label="C07 lazy sources")
    quiet = {}
    lazy_judged = 0
    for rq, (sname, cons, handler, kname, kend) in zip(lreqs, lmeta):
        o = lout[rq["id"]]
        if kname == "quiet":
            quiet[(sname, cons, handler)] = o
            continue
        qo = quiet[(sname, cons, handler)]
        if qo["end"].startswith(("discarded:", "fuel:")) or o["end"].startswith(("discarded:", "fuel:")) or "out:2" not in qo["events"]:
            continue          # the consumer never asks for that element: nothing to say
        lazy_judged += 1
        prefix = qo["events"][:qo["events"].index("out:2") + 1]
        if handler == "none":
            ok = o["events"] == prefix and o["end"] == kend
            want = [prefix, kend]
        else:
            kind, msg = kend.split(":", 2)[1:]
            held = f"out:[nil, <err {kind}: {msg}>]"
            ok = o["events"] == prefix + [held, "out:72"]
            want = [prefix + [held, "out:72"], "*"]
        if not ok:
            ck.reject(f"C07:lazy-source:{sname}:{cons.split('(')[0].split(' ')[0]}:{handler}", f"{rq['src']!r}: the source raises while it computes its second element; observed {o['events']} {o['end']}, "
                      f"expected {want}", {"src": rq["src"], "observed": [o["events"], o["end"]], "expected": want, "quiet_run": qo["events"]})
    ck.cov["lazy_source_programs_judged"] = lazy_judged
    # "the same message is delivered": messages that carry the user's own text (raise X.new(text), conversions and unpackings that quote the value)
    # must carry it verbatim, whatever characters it has - and the handler gets exactly the text an unhandled failure reports
    texts = ["50%d%s100%", "%", "%%", "100%!", "a%vb", "%[1]d", "q`uote", "{}", "hash#sign", "%!s(MISSING)"]
    forms = [("{v}.I", "ValueErr"), ("{v}.F", "ValueErr"), ("[*{v}]", "TypeErr"), ("raise Err.new({v})", "Err"), ("raise ValueErr.new({v})", "ValueErr"), ("assertEq({v}, 1)", "AssertionErr"),
             ("1 + {v}", "TypeErr"), ("{{|x| x}}(**{v})", "TypeErr"), ("JSON.dec(\"@\" + {v})", "ValueErr"), ("f := {{|| raise TypeErr.new({v})}}; f()", "TypeErr"),
             ("[1, 2]@{{|e| raise Err.new({v}) if e == 2}}", "Err"), ("defer 1; raise NameErr.new({v})", "NameErr")]
    mreqs, mmeta = [], []
    for t in texts:
        lit = '"' + t + '"'
        for f, kind in forms:
            src = f.format(v=lit)
            mreqs.append({"id": f"M{len(mreqs)}", "src": src})
            mreqs.append({"id": f"M{len(mreqs)}", "src": f"e := nil.try.{{|u| {{|| {src}}}()}}.err; [e.type._name, e.msg]"})
            mmeta.append((t, src, kind))
    mout = run_cases(mreqs, label="C07 messages with the user's text")
    for k, (t, src, kind) in enumerate(mmeta):
        top, held = mout[f"M{2 * k}"]["end"], mout[f"M{2 * k + 1}"]["end"]
        if top.startswith(("discarded:", "fuel:")) or held.startswith(("discarded:", "fuel:")):
            continue
        plain = t
        msg = top.split(":", 2)[2] if top.startswith("err:") and top.count(":") >= 2 else None
        ok = msg is not None and top.startswith(f"err:{kind}:") and plain in msg and held == "val:[" + pvlib_quote(kind) + ", " + pvlib_quote(msg) + "]"
        if not ok:
            ck.reject(f"C07:message-text:{src.split('(')[0].split(' ')[0][:12]}", f"{src!r}: unhandled it ends with {top}; a handler receives {held}; the message must carry {plain!r} verbatim and be the same in both",
                      {"src": src, "observed": [top, held], "text": plain})
    ck.cov["message_text_programs"] = len(mmeta)
    # every built-in error kind, raised by the program itself: the kind that is delivered (to the top, to try, to catch) is the kind that was raised
    kinds_ = ["Err", "AssertionErr", "NameErr", "NoPropErr", "NotImplementedErr", "StopIterErr", "SyntaxErr", "TypeErr", "ValueErr", "ZeroDivisionErr", "FileNotFoundErr"]
    kreqs = []
    for K in kinds_:
        kreqs.append({"id": f"k{K}.top", "src": f'f := {{|| raise {K}.new("m")}}; f()'})
        kreqs.append({"id": f"k{K}.try", "src": f'e := nil.try.{{|u| raise {K}.new("m")}}.err; [e.type._name, e.type == {K}, e.kindOf?({K}), e.msg]'})
        kreqs.append({"id": f"k{K}.catch", "src": f'[nil.try.{{|u| raise {K}.new("m")}}.catch({K}){{|x| "caught"}}.val, nil.try.{{|u| raise {K}.new("m") if true}}.ignore({K}).A]'})
        kreqs.append({"id": f"k{K}.guard", "src": f'g := {{|c| raise {K}.new("m") if c; 1}}; [g(false), nil.try.{{|u| g(true)}}.err.type._name]'})
    kout = run_cases(kreqs, label="C07 raised kinds")
    for K in kinds_:
        want = {"top": f"err:{K}:m", "try": f'val:["{K}", true, true, "m"]', "catch": 'val:["caught", [nil, nil]]', "guard": f'val:[1, "{K}"]'}
        for form, w in want.items():
            got = kout[f"k{K}.{form}"]["end"]
            if got != w and not got.startswith(("discarded:", "fuel:")):
                ck.reject(f"C07:raised-kind:{K}:{form}", f"{kreqs[[r['id'] for r in kreqs].index(f'k{K}.{form}')]['src']!r} gives {got}, expected {w}",
                          {"src": kreqs[[r["id"] for r in kreqs].index(f"k{K}.{form}")]["src"], "observed": got, "expected": w})
    ck.cov["raised_kind_programs"] = len(kreqs)
    # "... or else ends the program with that error", where the program is a run of the test driver over a directory: a file that raises
    # makes the run end with that error (reported on stderr, status 1), wherever the file stands among passing files
    raisers = [('raise Err.new("boom")', "Err: boom"), ("1 / 0", "ZeroDivisionErr: cannot be divided by 0"), ("undefinedname + 1", "NameErr: name `undefinedname` is not defined"),
               ("assertEq(1, 2)", "AssertionErr: 1 != 2"), ('f := {|| raise ValueErr.new("deep")}; [1, 2]@{|x| f()}', "ValueErr: deep")]
    passing = ['assertEq(1, 1)', '"quiet"', 'assert(true)']
    treqs, twant = [], {}
    for k, (rs, msg) in enumerate(raisers):
        for shape, progs in (("first", [rs, passing[0]]), ("middle", [passing[1], rs, passing[2]]), ("last", [passing[0], passing[1], rs]), ("only", [rs])):
            rid = f"t{k}.{shape}"
            treqs.append({"id": rid, "mode": "session", "embed": "runtest", "progs": progs, "helpers": [""] * len(progs), "shared": {}, "stdin": "", "deadline_ms": 20000})
            twant[rid] = (progs, msg)
    tout = run_cases(treqs, label="C07 test-driver runs", isolate=True)
    for rid, (progs, msg) in twant.items():
        o = tout[rid]
        obs = (o.get("extra") or {}).get("obs") or []
        if str(o["end"]).startswith(("discarded:", "fuel:")) or not obs:
            if pvlib.is_host_crash(str(o["end"])):
                ck.reject("C07:test-driver:host-crash", f"test run over {progs}: {o['end']}", {"programs": progs, "observed": o["end"]})
            continue
        tail = obs[-1]
        if "\x1dexit:1" not in tail or msg not in tail:
            ck.reject(f"C07:test-driver:{rid.split('.')[1]}", f"a test run over the files {progs}: the file that raises `{msg}` does not end the run with that error (status 1, the error reported): {tail[-200:]!r}",
                      {"programs": progs, "observed": obs, "expected": f"stderr naming {msg}, exit:1"})
    ck.cov["test_driver_runs"] = len(treqs)
    reached = sum(1 for r in res.values() if r["status"] == "ok" and "out:70" in r["observed"]["ev"] and "out:71" not in r["observed"]["ev"])
    ck.cov["evaluations"] = len(fam)
    ck.cov["distinct_nontrivial"] = reached
    ck.cov["traces_validated_against_impl"] = st["ok"] + st["mismatch"]
    ck.cov["exhaustive"] = True
    ck.cov["rule"] = (f"{len(evalfam.HOSTS)} host constructs (operands, elements, *spread, pair values, range bounds, positional / keyword / **arguments, keyword "
                      "defaults, receiver, callee, condition/branches, embedded-string parts, assignment, index, literal call, jump guard, nesting) x every child "
                      "position x raise kinds (Err.new, 1/0, undefined name, missing property) x nesting (top, function, method, literal call, function with "
                      "defer) x handler (none, try, thoughtful chain); histories of 3 operations over an iterator whose recur argument raises after the yield (PanIter); 3 lazy sources x 45 library consumers x 3 raise kinds x (none, try), judged against the quiet run of the same consumer; 20 runs of the test driver over directories in which one file raises; non-trivial = accepted runs in which the statement was entered (marker 70) and did "
                      "not complete (no marker 71)")
    ck.assumptions = ["list/reduce chain positions are covered by C04's chain machine", "conversion hooks (B, S, ==) are never the raise site"]
    if st["ok"] + st["mismatch"] < len(fam) * 0.9:
        raise pvlib.Broken(f"too many programs unsupported/discarded: {st}")
    return ck.finish()


def replay(path):
    import json
    c = json.load(open(path))["case"]
    if "programs" in c:          # a run of the test driver
        from pvlib import run_cases
        o = run_cases([{"id": "r", "mode": "session", "embed": "runtest", "progs": c["programs"], "helpers": [""] * len(c["programs"]), "shared": {}, "stdin": "", "deadline_ms": 20000}],
                      nproc=1, isolate=True)["r"]
        print("files:", c["programs"], "\nrun:", (o.get("extra") or {}).get("obs"), "\nexpected:", c.get("expected"))
        return 0
    from checks.c03 import replay as rp
    return rp(path)

"""Program families for the evaluator properties (inputs of PanEval / Trace_Eval)."""
import itertools
from checks.panlang import *


# ===================================================================== C03
def c03_binding_grid():
    """arity mismatches, keyword layouts, unpacking, \\-variables"""
    progs = []
    pnames = ["p", "q", "r"]
    for np_ in range(0, 4):
        for na in range(0, 5):
            ps = pnames[:np_]
            avs = [Argv(f"\\{k}") for k in range(1, min(na, 4) + 1)] + ([Argv("\\")] if na > 0 else [])
            body = [Probe(1), Arr(*[Id(x) for x in ps], *avs, Argv("\\0"))]
            args = [Int(10 + k) for k in range(na)]
            progs.append(("arity", [Asg("f", Fn(ps, body)), Call(Id("f"), args)]))
            progs.append(("arity-spread", [Asg("f", Fn(ps, body)), Asg("xs", Arr(*args)), Call(Id("f"), [Spread(Id("xs"))])]))
            if na >= 1:
                progs.append(("arity-method", [Asg("o", Obj(("m", Fn(ps, body)))), PCall(Id("o"), "m", args[1:])]))
    for na in range(8, 14):          # many positional arguments: \N for every N received, \0, beyond the declared parameters
        for np_ in (0, 2, na):
            ps = [f"p{k}" for k in range(np_)]
            body = [Arr(*[Argv(f"\\{k}") for k in range(1, na + 1)], Argv("\\0"), Argv("\\"))]
            args = [Int(100 + k) for k in range(na)]
            progs.append(("arity-many", [Asg("f", Fn(ps, body)), Call(Id("f"), args)]))
            progs.append(("arity-many-spread", [Asg("f", Fn(ps, body)), Asg("xs", Arr(*args[2:])), Call(Id("f"), args[:2] + [Spread(Id("xs"))])]))
            progs.append(("arity-many-nested", [Asg("outer", Fn(["a"], [Asg("inner", Fn(ps, body)), Arr(Call(Id("inner"), args), Argv("\\0"))])),
                                                Call(Id("outer"), [Int(k) for k in range(1, na + 2)])]))
    kparams = [[], [("k", Int(7))], [("k", Int(7)), ("j", Str("d"))]]
    passed = [[], [("k", Int(1))], [("j", Str("x"))], [("k", Int(1)), ("j", Str("x"))], [("z", Int(3))], [("j", Str("x")), ("k", Int(1))],
              [("k", Int(1)), ("k", Int(2))]]
    for kp in kparams:
        for pw in passed:
            for lay in (0, 1, 2):
                for na in (0, 1, 2):
                    reads = [Id(k) for k, _ in kp] + [Argv("\\" + k) for k, _ in pw] + [Argv("\\_")]
                    body = [Probe(1), Arr(Id("p"), *reads)]
                    progs.append(("kwargs", [Asg("f", Fn(["p"], body, kps=kp)), Call(Id("f"), [Int(10 + k) for k in range(na)], kw=pw, lay=lay)]))
            progs.append(("kwargs-dspread", [Asg("f", Fn(["p"], [Probe(1), Arr(Id("p"), *[Id(k) for k, _ in kp], Argv("\\_"))], kps=kp)),
                                             Asg("o", Obj(*pw)) if pw else Asg("o", Obj()),
                                             Call(Id("f"), [Int(1), DSpread(Id("o"))], kw=[("k", Int(5))] if kp else [])]))
    # histories of calls with one or two **expansions of shared objects: what a call receives depends only on what is written there
    objs = {"a": Obj(("x", Int(1))), "b": Obj(("y", Int(2))), "c": Obj(("x", Int(7)), ("z", Int(3)))}
    exps = [[n] for n in objs] + [[m, n] for m in objs for n in objs if m != n]
    show = Fn([], [Arr(Argv("\\_"), Id("x"), Id("y"))], kps=[("x", Int(0)), ("y", Int(0))])
    for e1 in exps:
        for e2 in exps:
            body = [Asg(n, o) for n, o in objs.items()] + [Asg("f", show)]
            body.append(Say(Call(Id("f"), [DSpread(Id(n)) for n in e1])))
            body.append(Say(Arr(Id("a"), Id("b"), Id("c"))))
            body.append(Say(Call(Id("f"), [DSpread(Id(n)) for n in e2])))
            body.append(Say(Call(Id("f"), [DSpread(Id(e1[0]))])))
            body.append(Arr(Id("a"), Id("b"), Id("c")))
            progs.append(("dspread-history", body))
    # argument lists that are alive at the same time and expand the same array (every length: backing stores with and without spare room)
    allargs = Fn([], [Argv("\\0")])
    for n in range(1, 10):
        xs = Arr(*[Int(k) for k in range(1, n + 1)])
        for shape in range(6):
            inner = Call(Id("last"), [Spread(Id("xs")), Int(20)] if shape != 4 else [Int(20), Spread(Id("xs"))])
            args = {0: [Spread(Id("xs")), Int(10), inner], 1: [Spread(Id("xs")), inner, Int(10)], 2: [Spread(Id("xs")), Int(10), Int(11), inner, Int(12)],
                    3: [Int(9), Spread(Id("xs")), Int(10), inner], 4: [Spread(Id("xs")), Int(10), inner],
                    5: [Spread(Id("xs")), Int(10), Call(Id("last"), [Spread(Id("xs")), Int(20), Call(Id("last"), [Spread(Id("xs")), Int(30), Int(31)])])]}[shape]
            body = [Asg("xs", xs), Asg("pack", Fn(["a"], [Probe(1), Arr(Argv("\\0"), Id("a"), Argv("\\%d" % (n + 1)))])), Asg("last", allargs),
                    Say(Call(Id("pack"), args)), Say(Id("xs")), Say(PCall(Id("xs"), "m", [Spread(Id("xs")), Int(10), inner]) if False else Id("xs")),
                    Call(Id("pack"), [Spread(Id("xs")), Int(40)])]
            progs.append(("spread-nested", body))
    # closures made from ONE literal at different moments: each keeps the keyword defaults evaluated when it was made
    for use in range(4):
        mk = Fn(["n"], [Fn(["p"], [Arr(Id("p"), Id("d"), Id("e"), Argv("\\_"))], kps=[("d", Inf("*", Id("n"), Int(10))), ("e", Inf("+", Id("n"), Id("base")))])])
        body = [Asg("base", Int(100)), Asg("mk", mk), Asg("a", Call(Id("mk"), [Int(1)])), Asg("base", Int(200)), Asg("b", Call(Id("mk"), [Int(2)]))]
        if use == 0:
            body += [Say(Call(Id("a"), [Int(0)])), Say(Call(Id("b"), [Int(0)])), Say(Call(Id("a"), [Int(0)], kw=[("d", Int(5))])), Call(Id("b"), [Int(0)], kw=[("e", Int(6))])]
        elif use == 1:
            body += [Say(Call(Id("b"), [Int(0)])), Say(Call(Id("a"), [Int(0)])), Asg("c", Call(Id("mk"), [Int(3)])), Arr(Call(Id("c"), [Int(0)]), Call(Id("a"), [Int(0)]))]
        elif use == 2:
            body += [Asg("fs", LCall(Arr(Int(4), Int(5), Int(6)), Fn(["k"], [Call(Id("mk"), [Id("k")])]), main="@")),
                     Say(LCall(Id("fs"), Fn(["g"], [Call(Id("g"), [Int(0)])]), main="@")), Call(Id("a"), [Int(0)])]
        else:
            body += [Asg("o", Obj(("m", Fn(["q"], [Arr(Id("q"), Id("w"))], kps=[("w", Id("base"))], method=True)))), Asg("base", Int(300)),
                     Asg("o2", Obj(("m", Fn(["q"], [Arr(Id("q"), Id("w"))], kps=[("w", Id("base"))], method=True)))),
                     Say(PCall(Id("o"), "m", [Int(1)])), Say(PCall(Id("o2"), "m", [Int(1)])), Call(Id("a"), [Int(0)])]
        progs.append(("closure-kwdefault", body))
    return progs


def rename(node, m):
    """the same program with variable / parameter / keyword names replaced (m: old -> new); property names of calls stay"""
    if isinstance(node, list):
        return [rename(x, m) for x in node]
    if not isinstance(node, dict):
        return node
    out = {k: rename(v, m) for k, v in node.items()}
    t = node.get("t")
    if t in ("id", "asg", "casg", "vcall"):
        out["n"] = m.get(node["n"], node["n"])
    elif t == "argv" and node["n"][1:] in m:
        out["n"] = "\\" + m[node["n"][1:]]
    elif t == "fn":
        out["ps"] = [m.get(x, x) for x in node["ps"]]
    if "k" in node and isinstance(node["k"], str) and "v" in node:       # keyword parameters, passed keywords, pairs of object literals
        out["k"] = m.get(node["k"], node["k"])
    return out


# keyword names that are also properties every object inherits from Obj / BaseObj: a keyword is a variable of the call, never a property lookup
PROPLIKE = [("max", "min"), ("keys", "first"), ("p", "S"), ("new", "bear"), ("len", "A"), ("which", "proto"), ("map", "index"), ("values", "sum"),
            # the names written like literals are variables of the global scope: a parameter or keyword of that name shadows them like any other
            ("true", "false"), ("nil", "true"), ("false", "nil")]


def c03_proplike_names():
    progs = []
    n = 0
    for tag, body in c03_binding_grid():
        if tag in ("kwargs", "kwargs-dspread", "closure-kwdefault"):
            a, b = PROPLIKE[n % len(PROPLIKE)]
            n += 1
            progs.append((tag + "-proplike", rename(body, {"k": a, "j": b, "d": a, "e": b, "w": a})))
    return progs


def c03_scope_family():
    """closures: free variables, shadowing, local / compound assignment, reassignment after creation, siblings, recursion"""
    progs = []
    feats = list(itertools.product([0, 1], repeat=6))
    for (shadow, local, compound, reassign, sibling, nested) in feats:
        inner = []
        if local:
            inner.append(Asg("a", Inf("+", Id("x"), Int(100))))
        if compound:
            inner.append(CAsg("b", "+", Int(10)))
        inner.append(Probe(1))
        if nested:
            inner.append(Asg("h", Fn(["y"], [Asg("c", Inf("+", Id("y"), Id("a"))), Probe(2), Arr(Id("a"), Id("b"), Id("c"))])))
            inner.append(Call(Id("h"), [Int(1000)]))
        else:
            inner.append(Arr(Id("a"), Id("b"), Id("x")))
        params = ["x"] + (["a"] if shadow else [])
        body = [Asg("a", Int(1)), Asg("b", Int(2)), Asg("f", Fn(params, inner))]
        if sibling:
            body.append(Asg("g", Fn(["x"], [Asg("a", Int(77)), Asg("b", Int(88)), Probe(3), Call(Id("f"), [Inf("+", Id("x"), Int(1))])])))
        if reassign:
            body.append(Asg("a", Int(50)))
        call_args = [Int(5)] + ([Int(6)] if shadow else [])
        body.append(Say(Call(Id("g") if sibling else Id("f"), [Int(5)] if sibling else call_args)))
        body.append(Probe(4))
        body.append(Arr(Id("a"), Id("b")))
        progs.append(("scope", body))
    for depth in range(0, 4):
        body = [Asg("acc", Int(0)),
                Asg("f", Fn(["n"], [Asg("acc", Inf("+", Id("acc"), Id("n"))), Probe(1),
                                    If(Inf("<", Id("n"), Int(1)), Id("acc"), Call(Id("f"), [Inf("-", Id("n"), Int(1))]))])),
                Say(Call(Id("f"), [Int(depth)])), Probe(2), Id("acc")]
        progs.append(("recursion", body))
    # receiver first, anonymous chain = \1, index-then-call
    progs.append(("receiver", [Asg("o", Obj(("k", Int(2)), ("m", Fn(["x"], [Probe(1), Inf("+", PCall(None, "k"), Id("x"))], method=True)),
                                         ("f", Fn(["s", "x"], [Probe(2), Arr(PCall(Id("s"), "k"), Id("x"), Argv("\\0"))])))),
                               Say(PCall(Id("o"), "m", [Int(1)])), Say(PCall(Id("o"), "f", [Int(3)])),
                               Say(Call(Idx(Id("o"), Str("m")), [Id("o"), Int(4)])), Say(PCall(Id("o"), "k", [Int(9)]))]))
    # the receiver is the first argument of every property call, also for each element of a list chain, whatever the number of arguments
    for nargs in range(1, 10):
        params = [f"a{k}" for k in range(nargs)]
        meth = Fn(["s"] + params, [Probe(1), Arr(PCall(Id("s"), "v"), *[Id(x) for x in params], Argv("\\1"), Argv("\\0"))])
        body = [Asg("mkm", Fn(["v"], [Obj(("v", Id("v")), ("um", meth))])), Asg("xs", Arr(*[Call(Id("mkm"), [Int(k)]) for k in (1, 2, 3)])),
                Say(PCall(Id("xs"), "um", [Int(10 * (k + 1)) for k in range(nargs)], main="@")),
                Say(PCall(Call(Id("mkm"), [Int(9)]), "um", [Int(10 * (k + 1)) for k in range(nargs)]))]
        progs.append(("receiver-chain-args", body))
    progs.append(("zero-arg-argv", [Asg("outer", Fn(["a", "b"], [Asg("cnt", Fn([], [Argv("\\0")])), Arr(Call(Id("cnt")), Argv("\\0"))])),
                                    Call(Id("outer"), [Int(1), Int(2)])]))
    progs.append(("zero-arg-argv-method", [Asg("o", Obj(("m", Fn(["x"], [Asg("cnt", Fn([], [PCall(Argv("\\0"), "len")])), Call(Id("cnt"))], method=True)))),
                                           PCall(Id("o"), "m", [Int(1)])]))
    return progs


class Gen:
    """seeded random programs over the PanEval fragment"""

    def __init__(self, rng, maxdepth=3):
        self.rng = rng
        self.k = 0
        self.maxdepth = maxdepth

    def fresh_probe(self):
        self.k += 1
        return Probe(self.k)

    def int_expr(self, scope, depth):
        r = self.rng
        ints = [n for n, t in scope.items() if t == "int"]
        fns = [n for n, t in scope.items() if isinstance(t, tuple)]
        c = r.random()
        if depth <= 0 or c < 0.3:
            return Int(r.randint(0, 9)) if not ints or r.random() < 0.4 else Id(r.choice(ints))
        if c < 0.55:
            return Inf(r.choice(["+", "-", "*"]), self.int_expr(scope, depth - 1), self.int_expr(scope, depth - 1))
        if c < 0.8 and fns:
            f = r.choice(fns)
            arity, kws = scope[f]
            na = max(0, arity + r.choice([-1, 0, 0, 0, 1]))
            kw = [(k, self.int_expr(scope, 0)) for k in kws if r.random() < 0.5]
            return Call(Id(f), [self.int_expr(scope, depth - 1) for _ in range(na)], kw=kw, lay=r.choice([0, 0, 1, 2]))
        if c < 0.9:
            return If(Inf(r.choice(["<", "==", ">"]), self.int_expr(scope, 0), self.int_expr(scope, 0)), self.int_expr(scope, depth - 1),
                      self.int_expr(scope, depth - 1))
        return Say(self.int_expr(scope, depth - 1))

    def body(self, scope, depth, nstmts, is_fn):
        r = self.rng
        out = []
        scope = dict(scope)
        for _ in range(nstmts):
            c = r.random()
            if c < 0.35:
                n = r.choice(["a", "b", "c", "d"])
                out.append(Asg(n, self.int_expr(scope, 2)))
                scope[n] = "int"
            elif c < 0.45 and any(t == "int" for t in scope.values()):
                n = r.choice([n for n, t in scope.items() if t == "int"])
                out.append(CAsg(n, r.choice(["+", "-", "*"]), self.int_expr(scope, 1)))
            elif c < 0.7 and depth < self.maxdepth:
                n = r.choice(["f", "g", "h"])
                arity = r.randint(0, 2)
                ps = r.sample(["x", "y", "a", "b"], arity)
                kws = r.sample(["k", "j"], r.randint(0, 1))
                inner_scope = {k: v for k, v in scope.items()}
                for p in ps:
                    inner_scope[p] = "int"
                for k in kws:
                    inner_scope[k] = "int"
                fn = Fn(ps, self.body(inner_scope, depth + 1, r.randint(1, 3), True), kps=[(k, self.int_expr(scope, 0)) for k in kws])
                out.append(Asg(n, fn))
                scope[n] = (arity, kws)
            elif c < 0.85:
                out.append(Say(self.int_expr(scope, 2)))
            else:
                out.append(self.int_expr(scope, 2))
            out.append(self.fresh_probe())
        ints = [n for n, t in scope.items() if t == "int"]
        out.append(Arr(*[Id(n) for n in sorted(ints)[:4]]) if ints else Int(0))
        return out

    def program(self):
        self.k = 0
        return self.body({}, 0, self.rng.randint(3, 6), False)


# ===================================================================== C15
def c15_stmt(kind, k, ctx):
    m = Say(Int(k))
    if kind == "mark":
        return m
    if kind == "defer":
        return Jump("defer", Say(Int(100 + k)))
    if kind == "defer-t":
        return Jump("defer", Say(Int(100 + k)), Bool(True))
    if kind == "defer-f":
        return Jump("defer", Say(Int(100 + k)), Bool(False))
    if kind == "defer-raise":
        return Jump("defer", Raise("Err", f"d{k}"))
    if kind == "return":
        return Jump("return", Int(k))
    if kind == "return-t":
        return Jump("return", Int(k), Bool(True))
    if kind == "return-f":
        return Jump("return", Int(k), Bool(False))
    if kind == "raise":
        return Raise("Err", f"r{k}")
    if kind == "raise-stopiter":
        return Raise("StopIterErr", f"s{k}")
    if kind == "raise-div0":
        return Inf("/", Int(k), Int(0))
    if kind == "raise-name":
        return Id("undefinedname")
    if kind == "call-stopiter":
        return Call(Id("gstop"))
    if kind == "defer-flag":            # the guard is evaluated when the statement is reached, not at exit
        return Jump("defer", Say(Int(100 + k)), Id("flag"))
    if kind == "defer-notflag":
        return Jump("defer", Say(Int(100 + k)), Pre("!", Id("flag")))
    if kind == "flag-off":
        return Asg("flag", Bool(False))
    if kind == "defer-sayguard":
        return Jump("defer", Say(Int(100 + k)), Say(Bool(True)))
    if kind == "defer-callok":          # deferred expressions that call functions with defers of their own
        return Jump("defer", Call(Id("gok")))
    if kind == "defer-callmany":
        return Jump("defer", Call(Id("gmany")))
    if kind == "defer-callbad":
        return Jump("defer", Call(Id("gbad")))
    if kind == "call-ok":
        return Call(Id("gok"))
    if kind == "call-raise":
        return Call(Id("gbad"))
    raise ValueError(kind)


C15_KINDS = ["mark", "defer", "defer-t", "defer-f", "defer-raise", "return", "return-t", "return-f", "raise", "raise-stopiter", "raise-div0",
             "raise-name", "call-ok", "call-raise", "call-stopiter", "defer-flag", "defer-notflag", "flag-off", "defer-sayguard",
             "defer-callok", "defer-callmany", "defer-callbad"]


def c15_program(kinds, form):
    body = [Asg("flag", Bool(True))] + [c15_stmt(kd, i + 1, form) for i, kd in enumerate(kinds)] + [Int(99)]
    if form.startswith("bare"):          # the body is exactly these statements: one-statement bodies, bodies that end with a defer
        body = [c15_stmt(kd, i + 1, form) for i, kd in enumerate(kinds)]
    pre = [Asg("gok", Fn([], [Jump("defer", Say(Int(201))), Say(Int(202)), Jump("return", Int(203)), Say(Int(204))])),
           Asg("gbad", Fn([], [Jump("defer", Say(Int(301))), Jump("defer", Say(Int(302)), Bool(True)), Raise("Err", "nested"), Say(Int(303))])),
           Asg("gstop", Fn([], [Jump("defer", Say(Int(501))), Raise("StopIterErr", "inner stop"), Say(Int(502))])),
           Asg("gmany", Fn([], [Jump("defer", Say(Int(601))), Jump("defer", Say(Int(602))), Jump("defer", Say(Int(603))), Jump("defer", Say(Int(604))), Say(Int(605))]))]
    if form == "bare-func":
        return pre + [Asg("flag", Bool(True)), Asg("f", Fn([], body)), Say(Arr(Call(Id("f")))), Say(Str("after"))]
    if form == "bare-stmtcall":       # the call is a statement of another function: whatever it returns must not be treated as that function's defer
        return pre + [Asg("flag", Bool(True)), Asg("f", Fn([], body)), Asg("w", Fn([], [Call(Id("f")), Say(Int(402)), Call(Id("f")), Int(403)])), Say(Call(Id("w"))), Say(Str("after"))]
    if form == "bare-literal":
        return pre + [Asg("flag", Bool(True)), Say(Arr(LCall(Int(1), Fn(["x"], body)))), Say(Str("after"))]
    if form == "func":
        return pre + [Asg("f", Fn([], body)), Say(Call(Id("f"))), Say(Str("after"))]
    if form == "method":
        return pre + [Asg("o", Obj(("m", Fn([], body, method=True)))), Say(PCall(Id("o"), "m")), Say(Str("after"))]
    if form == "literal":
        return pre + [Say(LCall(Int(1), Fn(["x"], body))), Say(Str("after"))]
    if form == "try":
        return pre + [Asg("f", Fn([], body)), Say(Try(Nil(), Fn(["x"], [Call(Id("f"))]), "A")), Say(Str("after"))]
    if form == "nested":
        return pre + [Asg("f", Fn([], body)), Asg("w", Fn([], [Jump("defer", Say(Int(401))), Asg("v", Call(Id("f"))), Say(Int(402)), Id("v")])),
                      Say(Call(Id("w"))), Say(Str("after"))]
    raise ValueError(form)


def c15_family(n_all_forms, n_func_only):
    progs = []
    for n in range(1, n_func_only + 1):
        for kinds in itertools.product(C15_KINDS, repeat=n):
            forms = ["func", "method", "literal", "try", "nested"] if n <= n_all_forms else ["func"]
            for form in forms:
                progs.append((f"{form}:{','.join(kinds)}", c15_program(kinds, form)))
            if n <= n_all_forms:
                for form in ("bare-func", "bare-stmtcall", "bare-literal"):
                    progs.append((f"{form}:{','.join(kinds)}", c15_program(kinds, form)))
    return progs


# ===================================================================== C07 / C08: hosts with ordered children
def _f3():
    return Fn(["x", "y", "z"], [Arr(Id("x"), Id("y"), Id("z"), Id("k"), Id("j"))], kps=[("k", Int(0)), ("j", Int(0))])


HOSTS = [
    # (name, arity, builder(children) -> (prelude statements, expression))
    ("infix+", 2, lambda c: ([], Inf("+", c[0], c[1]))),
    ("infix==", 2, lambda c: ([], Inf("==", c[0], c[1]))),
    ("infix-nested", 3, lambda c: ([], Inf("*", Inf("+", c[0], c[1]), c[2]))),
    ("and", 2, lambda c: ([], Inf("&&", c[0], c[1]))),
    ("prefix-", 1, lambda c: ([], Pre("-", c[0]))),
    ("prefix!", 1, lambda c: ([], Pre("!", c[0]))),
    ("arr", 3, lambda c: ([], Arr(c[0], c[1], c[2]))),
    ("arr-spread", 4, lambda c: ([], Arr(c[0], Spread(Arr(c[1], c[2])), c[3]))),
    ("obj", 3, lambda c: ([], Obj(("a", c[0]), ("b", c[1]), ("c", c[2])))),
    ("obj-unsorted", 3, lambda c: ([], Obj(("c", c[0]), ("a", c[1]), ("b", c[2])))),
    ("obj-dup", 3, lambda c: ([], Obj(("a", c[0]), ("a", c[1]), ("b", c[2])))),
    ("range", 3, lambda c: ([], Range(c[0], c[1], c[2]))),
    ("args", 3, lambda c: ([Asg("f", _f3())], Call(Id("f"), [c[0], c[1], c[2]]))),
    ("args-kw", 4, lambda c: ([Asg("f", _f3())], Call(Id("f"), [c[0], c[1]], kw=[("k", c[2]), ("j", c[3])]))),
    ("args-kw-first", 4, lambda c: ([Asg("f", _f3())], Call(Id("f"), [c[0], c[1]], kw=[("j", c[2]), ("k", c[3])], lay=1))),
    ("args-kw-between", 4, lambda c: ([Asg("f", _f3())], Call(Id("f"), [c[0], c[1]], kw=[("k", c[2]), ("j", c[3])], lay=2))),
    ("args-kw-dup", 3, lambda c: ([Asg("f", _f3())], Call(Id("f"), [c[0]], kw=[("k", c[1]), ("k", c[2])]))),
    ("args-kw-ml1", 4, lambda c: ([Asg("f", _f3())], dict(Call(Id("f"), [c[0]], kw=[("k", c[1]), ("j", c[2]), ("i", c[3])]), ml=1))),
    ("args-kw-ml2", 4, lambda c: ([Asg("f", _f3())], dict(Call(Id("f"), [c[0]], kw=[("j", c[1]), ("k", c[2]), ("i", c[3])]), ml=2))),
    ("args-kw-ml3", 4, lambda c: ([Asg("f", _f3())], dict(Call(Id("f"), [c[0]], kw=[("i", c[1]), ("j", c[2]), ("k", c[3])]), ml=3))),
    ("fn-kwdefaults", 3, lambda c: ([], Call(Fn(["x"], [Arr(Id("x"), Id("k"), Id("j"))], kps=[("k", c[0]), ("j", c[1])]), [c[2]]))),
    ("args-spread", 3, lambda c: ([Asg("f", _f3())], Call(Id("f"), [c[0], Spread(Arr(c[1], c[2]))]))),
    ("args-dspread", 3, lambda c: ([Asg("f", _f3())], Call(Id("f"), [c[0], DSpread(Obj(("k", c[1]))), DSpread(Obj(("j", c[2])))]))),
    ("args-prefixed", 3, lambda c: ([Asg("f", _f3())], Call(Id("f"), [Pre("-", c[0]), Pre("!", c[1]), Pre("-", Inf("+", c[2], Int(1)))]))),
    ("args-prefixed-kw", 3, lambda c: ([Asg("f", _f3())], Call(Id("f"), [Pre("-", c[0])], kw=[("k", Pre("-", c[1])), ("j", Pre("!", c[2]))]))),
    ("method-args-prefixed", 2, lambda c: ([], PCall(Int(10), "+", [Pre("-", c[0])]) if False else Arr(PCall(Int(10), "+", [Pre("-", c[0])]), PCall(Int(10), "-", [Pre("-", c[1])])))),
    ("arr-prefixed", 3, lambda c: ([], Arr(Pre("-", c[0]), Pre("!", c[1]), Pre("-", c[2])))),
    ("obj-prefixed", 2, lambda c: ([], Obj(("a", Pre("-", c[0])), ("b", Pre("!", c[1]))))),
    ("args-dspread-dup", 4, lambda c: ([Asg("f", _f3())], Call(Id("f"), [c[0], DSpread(Obj(("k", c[1]))), DSpread(Obj(("k", c[2]), ("j", c[3])))]))),
    ("args-dspread-dup-kw", 4, lambda c: ([Asg("f", _f3())], Call(Id("f"), [c[0], DSpread(Obj(("j", c[1]))), DSpread(Obj(("k", c[2]), ("j", c[3])))], kw=[("k", Int(5))]))),
    ("method-dspread-dup", 3, lambda c: ([Asg("o", Obj(("m", Fn(["x"], [Arr(Id("x"), Id("k"))], kps=[("k", Int(0))], method=True))))],
                                         PCall(Id("o"), "m", [c[0], DSpread(Obj(("k", c[1]))), DSpread(Obj(("k", c[2])))]))),
    ("method", 3, lambda c: ([Asg("o", Obj(("m", Fn(["x", "y"], [Arr(Id("x"), Id("y"))], method=True))))], PCall(Say(Id("o")), "m", [c[1], c[2]]) if c[0] is None else
                             PCall(Inf("||", c[0], Id("o")), "m", [c[1], c[2]]))),
    ("callee", 2, lambda c: ([Asg("g", Fn(["x"], [Id("x")]))], Call(Inf("&&", c[0], Id("g")), [c[1]]))),
    ("if-then", 2, lambda c: ([], If(Inf("||", c[0], Bool(True)), c[1], Say(Int(90))))),
    ("if-else", 2, lambda c: ([], If(Inf("&&", c[0], Bool(False)), Say(Int(90)), c[1]))),
    ("estr", 3, lambda c: ([], EStr("a", c[0], "-", c[1], "-", c[2], "z"))),
    ("assign", 1, lambda c: ([], Asg("v", c[0]))),
    ("casg", 1, lambda c: ([Asg("v", Int(1))], CAsg("v", "+", c[0]))),
    ("index", 2, lambda c: ([], Idx(Arr(c[0], Int(7)), Inf("*", c[1], Int(0))))),
    ("lcall", 2, lambda c: ([], LCall(c[0], Fn(["x"], [Arr(Id("x"), c[1])])))),
    ("jump-guard", 2, lambda c: ([], Call(Fn([], [Jump("return", c[1], Inf("||", c[0], Bool(True))), Int(0)])))),
    ("nested", 4, lambda c: ([Asg("f", _f3())], Inf("+", c[0], PCall(Call(Id("f"), [Arr(c[1], c[2]), c[3]]), "len")))),
]
def _sel(c):
    return [If(Inf("==", Id("x"), Int(1)), c[0], If(Inf("==", Id("x"), Int(2)), c[1], c[2]))]


HOSTS += [
    ("chain-list-lit", 3, lambda c: ([], LCall(Arr(Int(1), Int(2), Int(3)), Fn(["x"], _sel(c)), main="@"))),
    ("chain-strict-lit", 3, lambda c: ([], LCall(Arr(Int(1), Int(2), Int(3)), Fn(["x"], _sel(c)), main="@", add="="))),
    ("chain-lonely-var", 3, lambda c: ([Asg("g", Fn(["x"], _sel(c)))], VCall(Arr(Int(1), Int(2), Int(3)), "g", main="@", add="&"))),
    ("chain-reduce-lit", 3, lambda c: ([], LCall(Arr(Int(1), Int(2), Int(3)), Fn(["acc", "x"], [Arr(Id("acc"), _sel(c)[0])]), main="$", carg=Int(0)))),
    ("chain-list-prop", 3, lambda c: ([Asg("o", Obj(("um", Fn(["x"], _sel(c), method=True))))],
                                      LCall(Arr(Int(1), Int(2), Int(3)), Fn(["x"], [PCall(Id("o"), "um", [Id("x")])]), main="@"))),
    ("chain-arg", 2, lambda c: ([], LCall(Arr(c[0]), Fn(["x"], [Id("x")]), main="@", carg=Arr(c[1])))),
    ("chain-arg-var-list", 2, lambda c: ([Asg("g", Fn(["x"], [Id("x")]))], VCall(Arr(c[0]), "g", main="@", carg=Arr(c[1])))),
    ("chain-arg-var-reduce", 2, lambda c: ([Asg("g", Fn(["acc", "x"], [Arr(Id("acc"), Id("x"))]))], VCall(Arr(c[0]), "g", main="$", carg=c[1]))),
    ("chain-arg-var-scalar", 2, lambda c: ([Asg("g", Fn(["x"], [Id("x")]))], VCall(c[0], "g", main=".", carg=c[1]))),
    ("chain-arg-lit-reduce", 2, lambda c: ([], LCall(Arr(c[0]), Fn(["acc", "x"], [Arr(Id("acc"), Id("x"))]), main="$", carg=c[1]))),
    ("chain-arg-prop-args", 3, lambda c: ([Asg("o", Obj(("um", Fn(["x", "y"], [Arr(Id("x"), Id("y"))], method=True))))],
                                          PCall(Arr(Inf("&&", c[0], Id("o"))), "um", [c[2], Int(5)], main="@", carg=Arr(c[1])))),
    ("chain-arg-prop-reduce-args", 3, lambda c: ([], PCall(Arr(c[0]), "+", [], main="$", carg=c[1]) if False else
                                                 PCall(Arr(Int(1), Int(2)), "+", [Spread(Arr())] if False else [], main="$", carg=Inf("+", c[0], Inf("+", c[1], c[2]))))),
    ("chain-arg-prop-scalar-args", 3, lambda c: ([Asg("o", Obj(("um", Fn(["x"], [Id("x")], method=True))))],
                                                 PCall(Inf("&&", c[0], Id("o")), "um", [c[2]], main=".", carg=c[1]))),
    # parts whose conversion to a str runs user code (an S method that reports): evaluation and conversion of part k precede part k + 1
    ("estr-converting", 3, lambda c: ([Asg("mks", Fn(["k", "v"], [Obj(("S", Fn([], [Say(Id("k")), Str("s")], method=True)))]))],
                                      EStr("a", Call(Id("mks"), [Int(11), c[0]]), "-", c[1], "-", Call(Id("mks"), [Int(13), c[2]]), "z"))),
    ("estr5", 5, lambda c: ([], EStr("a", c[0], "b", c[1], "c", c[2], "d", c[3], "e", c[4], "f"))),
    ("estr4", 4, lambda c: ([], EStr(c[0], c[1], "-", c[2], c[3]))),
]
# calls that the additional context skips or replaces: the arguments written at the call are still evaluated, once, in order
_um2 = lambda: Asg("o", Obj(("um", Fn(["x"], [Arr(Id("x"), Id("k"))], kps=[("k", Int(0))], method=True))))
HOSTS += [
    ("lonely-nil-args", 3, lambda c: ([_um2()], PCall(Inf("&&", c[0], Nil()), "um", [c[1]], kw=[("k", c[2])], add="&"))),
    ("lonely-nil-carg", 3, lambda c: ([_um2()], PCall(Inf("&&", c[0], Nil()), "um", [c[2]], add="&", carg=c[1]))),
    ("lonely-value-args", 3, lambda c: ([_um2()], PCall(Inf("&&", c[0], Id("o")), "um", [c[1]], kw=[("k", c[2])], add="&"))),
    ("thoughtful-failing-args", 3, lambda c: ([_um2()], PCall(Inf("&&", c[0], Id("o")), "nosuchprop", [c[1]], kw=[("k", c[2])], add="~"))),
    ("lonely-list-nil-args", 3, lambda c: ([_um2()], PCall(Arr(Nil(), Inf("&&", c[0], Id("o")), Nil()), "um", [c[1]], kw=[("k", c[2])], main="@", add="&"))),
    ("lonely-list-allnil-args", 2, lambda c: ([_um2()], PCall(Arr(Nil(), Nil()), "um", [c[0]], kw=[("k", c[1])], main="@", add="&"))),
    ("list-empty-args", 2, lambda c: ([_um2()], PCall(Arr(), "um", [c[0]], kw=[("k", c[1])], main="@"))),
    ("reduce-empty-args", 3, lambda c: ([_um2()], PCall(Arr(), "um", [c[1]], kw=[("k", c[2])], main="$", carg=c[0]))),
]
# the same chain hosts over receivers that are not plain arrays (their elements are 1, 2, 3 as well)
for _rt, _rv in (("range", lambda: Range(Int(1), Int(4), Nil())), ("int", lambda: Int(3)), ("view", lambda: View(Arr(Int(9)), Arr(Int(1), Int(2), Int(3)))),
                 ("range-step", lambda: Range(Int(1), Int(6), Int(2)))):
    _sel2 = (lambda c: [If(Inf("==", Id("x"), Int(1)), c[0], If(Inf("==", Id("x"), Int(2 if True else 0)), c[1], c[2]))]) if _rt != "range-step" else \
            (lambda c: [If(Inf("==", Id("x"), Int(1)), c[0], If(Inf("==", Id("x"), Int(3)), c[1], c[2]))])
    HOSTS += [
        (f"chain-list-lit-{_rt}", 3, lambda c, rv=_rv, sel=_sel2: ([], LCall(rv(), Fn(["x"], sel(c)), main="@"))),
        (f"chain-lonely-var-{_rt}", 3, lambda c, rv=_rv, sel=_sel2: ([Asg("g", Fn(["x"], sel(c)))], VCall(rv(), "g", main="@", add="&"))),
        (f"chain-reduce-lit-{_rt}", 3, lambda c, rv=_rv, sel=_sel2: ([], LCall(rv(), Fn(["acc", "x"], [Arr(Id("acc"), sel(c)[0])]), main="$", carg=Int(0)))),
        (f"chain-reduce-var-{_rt}", 3, lambda c, rv=_rv, sel=_sel2: ([Asg("g", Fn(["acc", "x"], [Arr(Id("acc"), sel(c)[0])]))], VCall(rv(), "g", main="$", carg=Int(0)))),
        (f"chain-reduce-lonely-lit-{_rt}", 3, lambda c, rv=_rv, sel=_sel2: ([], LCall(rv(), Fn(["acc", "x"], [Arr(Id("acc"), sel(c)[0])]), main="$", add="&", carg=Int(0)))),
        (f"chain-reduce-prop-{_rt}", 3, lambda c, rv=_rv, sel=_sel2: ([Asg("a0", Obj(("t", Int(0)), ("ustep", Fn(["x"], [Obj(("t", sel(c)[0]), ("ustep", Idx(Id("self"), Str("ustep"))))], method=True))))],
                                                                    PCall(PCall(rv(), "ustep", [], main="$", carg=Id("a0")), "t"))),
    ]
RAISERS = [("Err", lambda: Raise("Err", "boom")), ("StopIterErr", lambda: Raise("StopIterErr", "mine")), ("div0", lambda: Inf("/", Int(1), Int(0))), ("name", lambda: Id("undefinedname")),
           ("noprop", lambda: PCall(Int(1), "nosuchprop"))]
WRAPS = ["top", "func", "method", "literal", "func-defer"]
HANDLERS = ["none", "try", "thoughtful"]


def wrap(pre, expr, how, handler):
    stmts = list(pre) + [Say(Int(70)), Asg("r", expr), Say(Int(71)), Id("r")]
    if how == "top" and handler == "none":
        return stmts + [Say(Str("after"))]
    if how in ("top", "func"):
        inner = [Asg("w", Fn([], stmts)), ]
        callx = Call(Id("w"))
    elif how == "method":
        inner = [Asg("wo", Obj(("w", Fn([], stmts, method=True))))]
        callx = PCall(Id("wo"), "w")
    elif how == "literal":
        inner = []
        callx = LCall(Int(0), Fn(["u"], stmts))
    else:
        inner = [Asg("w", Fn([], [Jump("defer", Say(Int(72)))] + stmts))]
        callx = Call(Id("w"))
    if handler == "none":
        return inner + [Say(callx), Say(Str("after"))]
    if handler == "try":
        return inner + [Say(Try(Nil(), Fn(["u"], [callx]), "A")), Say(Str("after"))]
    # thoughtful scalar chain: the receiver replaces a failed (or nil) result
    return inner + [Asg("h", Obj(("go", Fn([], [callx], method=True)))), Say(PCall(Id("h"), "go", add="~")), Say(Str("after"))]


def c07_family(thorough):
    progs = []
    for name, n, build in HOSTS:
        for j in range(n):
            for rk, mk in RAISERS:
                kids = [Say(Int(k + 1)) for k in range(n)]
                kids[j] = mk()
                pre, expr = build(kids)
                combos = [(w, h) for w in WRAPS for h in HANDLERS] if thorough or rk == "Err" else [("top", "none"), ("func", "try")]
                if rk == "StopIterErr" and not name.startswith("chain") and not thorough:
                    continue
                for w, h in combos:
                    progs.append((f"{name}:{j}:{rk}:{w}:{h}", wrap(pre, expr, w, h)))
    return progs


def c08_family():
    progs = []
    for name, n, build in HOSTS:
        kids = [Say(Int(k + 1)) for k in range(n)]
        pre, expr = build(kids)
        for w in ("top", "func", "literal"):
            progs.append((f"{name}:{w}", wrap(pre, expr, w, "none")))
    return progs


# ===================================================================== C04 chains
C04_PRELUDE = [
    # element objects: mode 0 value, 1 nil, 2 raise
    Asg("mk", Fn(["v", "mode"], [Obj(("v", Id("v")), ("mode", Id("mode")),
                                     ("um", Fn([], [Say(PCall(Id("self"), "v")),
                                                    If(Inf("==", PCall(Id("self"), "mode"), Int(2)), Raise("Err", "boom"),
                                                       If(Inf("==", PCall(Id("self"), "mode"), Int(1)), Nil(), Inf("*", PCall(Id("self"), "v"), Int(10))))], method=True)),
                                     ("uma", Fn(["a"], [Say(Arr(PCall(Id("self"), "v"), Id("a"))),
                                                        If(Inf("==", PCall(Id("self"), "mode"), Int(2)), Raise("Err", "boom"),
                                                           If(Inf("==", PCall(Id("self"), "mode"), Int(1)), Nil(), Inf("+", PCall(Id("self"), "v"), Id("a"))))], method=True)))])),
    # accumulator objects for reduce: x = 0 -> nil, x < 0 -> raise, else a new accumulator
    Asg("acc0", Obj(("t", Int(0)), ("ustep", Fn(["x"], [Say(Arr(PCall(Id("self"), "t"), Id("x"))),
                                                        If(Inf("<", Id("x"), Int(0)), Raise("Err", "neg"),
                                                           If(Inf("==", Id("x"), Int(0)), Nil(),
                                                              Obj(("t", Inf("+", PCall(Id("self"), "t"), Id("x"))), ("ustep", Idx(Id("self"), Str("ustep"))))))], method=True)))),
]
ELEM = {"v": lambda k: Call(Id("mk"), [Int(k), Int(0)]), "n": lambda k: Call(Id("mk"), [Int(k), Int(1)]),
        "r": lambda k: Call(Id("mk"), [Int(k), Int(2)]), "0": lambda k: Nil(), "N": lambda k: NilNew()}


def c04_family(thorough):
    progs = []
    maxlen = 3 if thorough else 2
    pats = [""] + ["".join(p) for n in range(1, maxlen + 1) for p in itertools.product("vnr0", repeat=n)]
    pats += ["N", "vN", "Nv", "NN", "N0", "nN"]          # nil values that are not the literal's object
    adds = {".": ["", "&", "~"], "@": ["", "&", "~", "="], "$": ["", "&", "~"]}
    # list + scalar chains over element objects, method without / with an extra argument
    for extra in (False, True):
        meth = "uma" if extra else "um"
        args = [Int(100)] if extra else []
        lit = Fn(["x"], [PCall(Id("x"), meth, args)])
        for pat in pats:
            recv = Arr(*[ELEM[c](i + 1) for i, c in enumerate(pat)])
            for add in adds["@"]:
                for carg, ctag in ((None, "-"), (Arr(), "[]"), (Arr(Int(9)), "[9]")):
                    if ctag != "-" and (extra or len(pat) > 2):
                        continue
                    key = f"list:{add}@:{pat}:{ctag}:{meth}"
                    progs.append((key + ":prop", C04_PRELUDE + [Say(PCall(recv, meth, args, main="@", add=add, carg=carg)), Say(Str("after"))]))
                    progs.append((key + ":lit", C04_PRELUDE + [Say(LCall(recv, lit, main="@", add=add, carg=carg)), Say(Str("after"))]))
                    progs.append((key + ":var", C04_PRELUDE + [Asg("g", lit), Say(VCall(recv, "g", main="@", add=add, carg=carg)), Say(Str("after"))]))
        for c in "vnr0N":
            recv = ELEM[c](1)
            for add in adds["."]:
                key = f"scalar:{add}.:{c}:-:{meth}"
                progs.append((key + ":prop", C04_PRELUDE + [Say(PCall(recv, meth, args, add=add)), Say(Str("after"))]))
                progs.append((key + ":lit", C04_PRELUDE + [Say(LCall(recv, lit, add=add)), Say(Str("after"))]))
                progs.append((key + ":var", C04_PRELUDE + [Asg("g", lit), Say(VCall(recv, "g", add=add)), Say(Str("after"))]))
    # reduce chains over ints with accumulator objects
    ipats = [()] + [p for n in range(1, maxlen + 2) for p in itertools.product((1, 2, 0, -1), repeat=n)]
    rlit = Fn(["acc", "x"], [PCall(Id("acc"), "ustep", [Id("x")])])
    for pat in ipats:
        recv = Arr(*[Int(x) for x in pat])
        for add in adds["$"]:
            for carg, ctag in ((Id("acc0"), "acc0"), (None, "-")):
                if ctag == "-" and len(pat) > 2:
                    continue
                key = f"reduce:{add}$:{','.join(map(str, pat))}:{ctag}:ustep"
                progs.append((key + ":prop", C04_PRELUDE + [Say(PCall(recv, "ustep", [], main="$", add=add, carg=carg)), Say(Str("after"))]))
                progs.append((key + ":lit", C04_PRELUDE + [Say(LCall(recv, rlit, main="$", add=add, carg=carg)), Say(Str("after"))]))
                progs.append((key + ":var", C04_PRELUDE + [Asg("g", rlit), Say(VCall(recv, "g", main="$", add=add, carg=carg)), Say(Str("after"))]))
    # the same chains written on a continuation line (multi-line chain tokens): every additional context x main context x with / without chain argument
    for main in ".@$":
        for add in adds[main]:
            for carg, ctag in ((None, "-"), (Arr(Int(9)) if main == "@" else Id("acc0") if main == "$" else Int(5), "arg")):
                if main == "." and ctag == "arg":
                    continue
                for pat in ("v0", "nv", "0r"):
                    if main == "$":
                        recv, meth, args, lit = Arr(Int(1), Int(0), Int(2)) if pat != "0r" else Arr(Int(2), Int(-1)), "ustep", [], rlit if False else None
                    else:
                        recv, meth, args = Arr(*[ELEM[c](i + 1) for i, c in enumerate(pat)]), "um", []
                    if main == ".":
                        recv = ELEM[pat[0]](1)
                    for mlc in (2, 4):
                        key = f"mlchain:{add}{main}:{pat}:{ctag}:{meth}"
                        pc = PCall(recv, meth, args, main=main, add=add, carg=carg)
                        pc["mlc"] = mlc
                        progs.append((key + ":prop", C04_PRELUDE + [Asg("res", pc), Say(Id("res")), Say(Str("after"))]))
                        if main != "$":
                            lc = LCall(recv, Fn(["x"], [PCall(Id("x"), "um", [])]), main=main, add=add, carg=carg)
                        else:
                            lc = LCall(recv, Fn(["acc", "x"], [PCall(Id("acc"), "ustep", [Id("x")])]), main=main, add=add, carg=carg)
                        lc["mlc"] = mlc
                        progs.append((key + ":lit", C04_PRELUDE + [Asg("res", lc), Say(Id("res")), Say(Str("after"))]))
    # methods called with 2..7 positional arguments in list chains over several elements: every element gets the same arguments
    for nargs in range(2, 8):
        params = [f"a{k}" for k in range(nargs)]
        meth = Fn(params, [Arr(PCall(Id("self"), "v"), *[Id(x) for x in params], Argv("\\0"))], method=True)
        mkm = Asg("mkm", Fn(["v"], [Obj(("v", Id("v")), ("umany", meth))]))
        recv = Arr(*[Call(Id("mkm"), [Int(k)]) for k in (1, 2, 3)])
        args = [Int(10 * (k + 1)) for k in range(nargs)]
        lit = Fn(["x"], [PCall(Id("x"), "umany", args)])
        for add in adds["@"]:
            key = f"list:{add}@:many{nargs}:-:umany"
            progs.append((key + ":prop", [mkm, Say(PCall(recv, "umany", args, main="@", add=add))]))
            progs.append((key + ":lit", [mkm, Say(LCall(recv, lit, main="@", add=add))]))
    # reduce chains whose property call has explicit arguments besides the element
    for nargs in (1, 2, 3):
        params = ["x"] + [f"a{k}" for k in range(nargs)]
        step = Fn(params, [Say(Arr(PCall(Id("self"), "t"), *[Id(x) for x in params])),
                           Obj(("t", Inf("+", PCall(Id("self"), "t"), Id("x"))), ("ustep", Idx(Id("self"), Str("ustep"))))], method=True)
        acc = Asg("acc1", Obj(("t", Int(0)), ("ustep", step)))
        args = [Int(100 * (k + 1)) for k in range(nargs)]
        rl = Fn(["acc", "x"], [PCall(Id("acc"), "ustep", [Id("x")] + args)])
        for add in adds["$"]:
            for els in ((1,), (1, 2), (1, 2, 3)):
                recv = Arr(*[Int(e) for e in els])
                key = f"reduce:{add}$:args{nargs}x{len(els)}:acc1:ustep"
                progs.append((key + ":prop", [acc, Say(PCall(recv, "ustep", args, main="$", add=add, carg=Id("acc1")))]))
                progs.append((key + ":lit", [acc, Say(LCall(recv, rl, main="$", add=add, carg=Id("acc1")))]))
    # a reducer with one parameter receives (and may keep) the [acc, elem] pair
    for add in adds["$"]:
        keep = Fn(["p"], [Id("p")])
        progs.append((f"reduce:{add}$:keep-pair:0:pair:lit", [Say(LCall(Arr(Int(1), Int(2), Int(3)), keep, main="$", add=add, carg=Int(0)))]))
        progs.append((f"reduce:{add}$:keep-pair:0:pair:var", [Asg("g", keep), Say(VCall(Arr(Int(1), Int(2), Int(3)), "g", main="$", add=add, carg=Int(0)))]))
        progs.append((f"reduce:{add}$:keep-pair-closure:0:pair:lit", [Asg("c", LCall(Arr(Int(1), Int(2), Int(3)), Fn(["p"], [Fn([], [Id("p")])]), main="$", add=add, carg=Nil())),
                                                                    Say(Call(Id("c")))]))
    # other receivers: int, range, obj, descendants of arrays with an iterator of their own; operator props with an argument
    plus = Fn(["x"], [PCall(Id("x"), "+", [Int(1)])])
    for rtag, recv in (("int3", Int(3)), ("int0", Int(0)), ("range", Range(Int(2), Int(5), Nil())), ("range-step", Range(Int(7), Int(1), Int(-2))),
                       ("arr", Arr(Int(4), Int(5))), ("view-rev", View(Arr(Int(1), Int(2), Int(3)), Arr(Int(30), Int(20), Int(10)))),
                       ("view-filter", View(Arr(Int(1), Int(2), Int(3)), Arr(Int(2)))), ("view-empty", View(Arr(Int(1)), Arr())),
                       ("view-longer", View(Arr(), Arr(Int(7), Int(8))))):
        for add in adds["@"]:
            key = f"list:{add}@:{rtag}:-:+"
            progs.append((key + ":prop", [Say(PCall(recv, "+", [Int(1)], main="@", add=add))]))
            progs.append((key + ":lit", [Say(LCall(recv, plus, main="@", add=add))]))
            progs.append((key + ":var", [Asg("g", plus), Say(VCall(recv, "g", main="@", add=add))]))
        rplus = Fn(["acc", "x"], [PCall(Id("acc"), "+", [Id("x")])])
        for add in adds["$"]:
            for carg, ctag in ((Int(100), "100"), (None, "-")):
                key = f"reduce:{add}$:{rtag}:{ctag}:+"
                progs.append((key + ":prop", [Say(PCall(recv, "+", [], main="$", add=add, carg=carg))]))
                progs.append((key + ":lit", [Say(LCall(recv, rplus, main="$", add=add, carg=carg))]))
                progs.append((key + ":var", [Asg("g", rplus), Say(VCall(recv, "g", main="$", add=add, carg=carg))]))
    # receivers whose iterator reports each element it hands out: element k + 1 is produced after call k, in every form and context
    um = Fn(["x"], [PCall(Id("x"), "um", [])])
    for pat in ("vv", "vnv", "vrv", "v0v"):
        recv = View(Arr(), Arr(*[ELEM[c](i + 1) for i, c in enumerate(pat)]), noisy=True)
        for add in adds["@"]:
            key = f"list:{add}@:noisy-{pat}:-:um"
            progs.append((key + ":prop", C04_PRELUDE + [Say(PCall(recv, "um", [], main="@", add=add)), Say(Str("after"))]))
            progs.append((key + ":lit", C04_PRELUDE + [Say(LCall(recv, um, main="@", add=add)), Say(Str("after"))]))
            progs.append((key + ":var", C04_PRELUDE + [Asg("g", um), Say(VCall(recv, "g", main="@", add=add)), Say(Str("after"))]))
    for pat in ((1, 2), (1, 0, 2), (1, -1, 2), (3,)):
        recv = View(Arr(), Arr(*[Int(x) for x in pat]), noisy=True)
        for add in adds["$"]:
            key = f"reduce:{add}$:noisy-{','.join(map(str, pat))}:acc0:ustep"
            progs.append((key + ":prop", C04_PRELUDE + [Say(PCall(recv, "ustep", [], main="$", add=add, carg=Id("acc0"))), Say(Str("after"))]))
            progs.append((key + ":lit", C04_PRELUDE + [Say(LCall(recv, rlit, main="$", add=add, carg=Id("acc0"))), Say(Str("after"))]))
            progs.append((key + ":var", C04_PRELUDE + [Asg("g", rlit), Say(VCall(recv, "g", main="$", add=add, carg=Id("acc0"))), Say(Str("after"))]))
    o = Obj(("b", Int(1)), ("a", Int(2)))
    progs.append(("list:@:obj:-:len:prop", [Say(PCall(o, "len", [], main="@"))]))
    progs.append(("list:@:obj:-:len:lit", [Say(LCall(o, Fn(["x"], [PCall(Id("x"), "len")]), main="@"))]))
    progs.append(("list:@:obj:{}:pairs:lit", [Say(LCall(o, Fn(["k", "v"], [Arr(Id("k"), Inf("*", Id("v"), Int(2)))]), main="@", carg=Obj()))]))
    # the callee raises StopIterErr itself: it is an error, not the end of the receiver
    stop = Fn(["x"], [If(Inf("==", Id("x"), Int(2)), Raise("StopIterErr", "mine"), Id("x"))])
    for add in adds["@"]:
        progs.append((f"list:{add}@:stopiter:-:raise:lit", [Say(LCall(Arr(Int(1), Int(2), Int(3)), stop, main="@", add=add)), Say(Str("after"))]))
        progs.append((f"list:{add}@:stopiter:-:raise:var", [Asg("g", stop), Say(VCall(Arr(Int(1), Int(2), Int(3)), "g", main="@", add=add)), Say(Str("after"))]))
    for add in adds["$"]:
        rs = Fn(["acc", "x"], [If(Inf("==", Id("x"), Int(2)), Raise("StopIterErr", "mine"), Inf("+", Id("acc"), Id("x")))])
        progs.append((f"reduce:{add}$:stopiter:0:raise:lit", [Say(LCall(Arr(Int(1), Int(2), Int(3)), rs, main="$", add=add, carg=Int(0))), Say(Str("after"))]))
    return progs

"""C15 deferred expressions: every body of n statements over the defer/exit alphabet, in five calling contexts, is run in the
real interpreter and the recorded run is validated against PanEval (defers once, in order, after the body, on every way out)."""
import pvlib
from pvlib import Check
from checks import evalfam, evalcheck


def run():
    ck = Check("C15")
    thorough = ck.tier == "thorough"
    n_all, n_func = (3, 4) if thorough else (2, 3)
    fam = evalfam.c15_family(n_all, n_func)
    res, st = evalcheck.run_family(ck, "C15", fam, "bodies",
                                   signature=lambda tag, r: f"C15:{tag.split(':')[0]}:{evalcheck.first_diff(r['observed'], r.get('predicted'))}:" +
                                   ",".join(sorted(set(tag.split(':')[1].split(',')))))
    ck.cov["bodies"] = st
    nontrivial = sum(1 for (tag, _), r in zip(fam, res.values()) if "defer" in tag and r["status"] == "ok")
    # a body whose defers are pending while ANOTHER program is evaluated from inside it (invite! runs in the caller's scope, eval / import / a chain
    # step in scopes of their own): the pending defers still wait for the end of THEIR body; what the inner program defers runs at ITS end
    from pvlib import run_cases
    inner = [("f := {|| defer say(\"d1\"); say(\"begin\"); invite!(\"dummy_native\"); defer say(\"d2\"); say(\"end\"); message.len}; say(f())", ["begin", "end", "d1", "d2", "23"]),
             ("g := {|| defer say(\"e1\"); invite!(\"dummy\"); defer say(\"e2\"); raise Err.new(\"boom\")}; say(nil.try.{|u| g()}.A)", ["e1", "e2", "[nil, <err Err: boom>]"]),
             ("h := {|| defer say(\"h1\"); say(\"x := 1; defer say(\\\"inner\\\"); x\".eval); defer say(\"h2\"); say(import(\"dummy\").message.len); 7}; say(h())", ["inner", "1", "23", "h1", "h2", "7"]),
             ("k := {|| defer say(\"k1\"); say([1, 2]@{|i| defer say(\"in#{i}\"); i}); defer say(\"k2\"); 9}; say(k())", ["in1", "in2", "[1, 2]", "k1", "k2", "9"]),
             ("m := {|| defer say(\"m1\"); invite!(\"dummy\"); invite!(\"dummy_native\"); defer say(\"m2\"); return 5; defer say(\"never\")}; say(m())", ["m1", "m2", "5"]),
             ("o := {run: m{defer say(\"o1\"); invite!(\"dummy\"); defer say(\"o2\") if true; defer say(\"no\") if false; message.len}}; say(o.run)", ["o1", "o2", "23"])]
    iout = run_cases([{"id": f"n{k}", "src": src} for k, (src, _) in enumerate(inner)], label="C15 inner programs")
    for k, (src, want) in enumerate(inner):
        o = iout[f"n{k}"]
        got = [e[4:].strip('"') if e.startswith('out:"') else e[4:] for e in o["events"] if e.startswith("out:")]
        if not o["end"].startswith(("discarded:", "fuel:")) and got != want:
            ck.reject("C15:inner-program", f"{src!r}: effects {got}, expected {want} (end {o['end'][:80]})", {"src": src, "observed": got, "expected": want, "end": o["end"]})
    ck.cov["inner_program_bodies"] = len(inner)
    ck.cov["evaluations"] = len(fam)
    ck.cov["distinct_nontrivial"] = nontrivial
    ck.cov["traces_validated_against_impl"] = st["ok"] + st["mismatch"]
    ck.cov["exhaustive"] = True
    ck.cov["rule"] = (f"all bodies of 1..{n_func} statements over {evalfam.C15_KINDS} (each followed by a final value), called as function; bodies of "
                      f"1..{n_all} statements also as method, literal call, under try, and inside a function with its own defer; nested callees gok/gbad "
                      "have their own defers; the same bodies bare (exactly these statements: one-statement bodies, bodies ending in a defer) as function, as a statement call inside another function, and as literal call; non-trivial = accepted runs whose body contains a defer")
    ck.assumptions = ["a defer statement has no value: a body that ends with one evaluates to nil (fix 0b66096; before it the internal defer object leaked)"]
    if st["ok"] + st["mismatch"] < len(fam) * 0.95:
        raise pvlib.Broken(f"too many programs unsupported/discarded: {st}")
    return ck.finish()


def replay(path):
    from checks.c03 import replay as rp
    return rp(path)

"""C15 deferred expressions: every body of n statements over the defer/exit alphabet, in five calling contexts, is run in the
real interpreter and the recorded run is validated against PanEval (defers once, in order, after the body, on every way out)."""
import pvlib
from pvlib import Check
from checks import evalfam, evalcheck


def run():
    ck = Check("C15")
    thorough = ck.tier == "thorough"
    n_all, n_func = (3, 4) if thorough else (2, 3)
    fam = evalfam.c15_family(n_all, n_func)
    res, st = evalcheck.run_family(ck, "C15", fam, "bodies",
                                   signature=lambda tag, r: f"C15:{tag.split(':')[0]}:{evalcheck.first_diff(r['observed'], r.get('predicted'))}:" +
                                   ",".join(sorted(set(tag.split(':')[1].split(',')))))
    ck.cov["bodies"] = st
    nontrivial = sum(1 for (tag, _), r in zip(fam, res.values()) if "defer" in tag and r["status"] == "ok")
    ck.cov["evaluations"] = len(fam)
    ck.cov["distinct_nontrivial"] = nontrivial
    ck.cov["traces_validated_against_impl"] = st["ok"] + st["mismatch"]
    ck.cov["exhaustive"] = True
    ck.cov["rule"] = (f"all bodies of 1..{n_func} statements over {evalfam.C15_KINDS} (each followed by a final value), called as function; bodies of "
                      f"1..{n_all} statements also as method, literal call, under try, and inside a function with its own defer; nested callees gok/gbad "
                      "have their own defers; the same bodies bare (exactly these statements: one-statement bodies, bodies ending in a defer) as function, as a statement call inside another function, and as literal call; non-trivial = accepted runs whose body contains a defer")
    ck.assumptions = ["a defer statement has no value: a body that ends with one evaluates to nil (fix 0b66096; before it the internal defer object leaked)"]
    if st["ok"] + st["mismatch"] < len(fam) * 0.95:
        raise pvlib.Broken(f"too many programs unsupported/discarded: {st}")
    return ck.finish()


def replay(path):
    from checks.c03 import replay as rp
    return rp(path)

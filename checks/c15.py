"""C15 deferred expressions: every body of n statements over the defer/exit alphabet, in five calling contexts, is run in the
real interpreter and the recorded run is validated against PanEval (defers once, in order, after the body, on every way out)."""
import pvlib
from pvlib import Check
from checks import evalfam, evalcheck


def run():
    ck = Check("C15")
    thorough = ck.tier == "thorough"
    n_all, n_func = (3, 4) if thorough else (2, 3)
    fam = evalfam.c15_family(n_all, n_func)
    res, st = evalcheck.run_family(ck, "C15", fam, "bodies",
                                   signature=lambda tag, r: f"C15:{tag.split(':')[0]}:{evalcheck.first_diff(r['observed'], r.get('predicted'))}:" +
                                   ",".join(sorted(set(tag.split(':')[1].split(',')))))
    ck.cov["bodies"] = st
    nontrivial = sum(1 for (tag, _), r in zip(fam, res.values()) if "defer" in tag and r["status"] == "ok")
    # a body whose defers are pending while ANOTHER program is evaluated from inside it (invite! runs in the caller's scope, eval / import / a chain
    # step in scopes of their own): the pending defers still wait for the end of THEIR body; what the inner program defers runs at ITS end
    from pvlib import run_cases
    inner = [("f := {|| defer say(\"d1\"); say(\"begin\"); invite!(\"dummy_native\"); defer say(\"d2\"); say(\"end\"); message.len}; say(f())", ["begin", "end", "d1", "d2", "23"]),
             ("g := {|| defer say(\"e1\"); invite!(\"dummy\"); defer say(\"e2\"); raise Err.new(\"boom\")}; say(nil.try.{|u| g()}.A)", ["e1", "e2", "[nil, <err Err: boom>]"]),
             ("h := {|| defer say(\"h1\"); say(\"x := 1; defer say(\\\"inner\\\"); x\".eval); defer say(\"h2\"); say(import(\"dummy\").message.len); 7}; say(h())", ["inner", "1", "23", "h1", "h2", "7"]),
             ("k := {|| defer say(\"k1\"); say([1, 2]@{|i| defer say(\"in#{i}\"); i}); defer say(\"k2\"); 9}; say(k())", ["in1", "in2", "[1, 2]", "k1", "k2", "9"]),
             ("m := {|| defer say(\"m1\"); invite!(\"dummy\"); invite!(\"dummy_native\"); defer say(\"m2\"); return 5; defer say(\"never\")}; say(m())", ["m1", "m2", "5"]),
             ("o := {run: m{defer say(\"o1\"); invite!(\"dummy\"); defer say(\"o2\") if true; defer say(\"no\") if false; message.len}}; say(o.run)", ["o1", "o2", "23"])]
    iout = run_cases([{"id": f"n{k}", "src": src} for k, (src, _) in enumerate(inner)], label="C15 inner programs")
    for k, (src, want) in enumerate(inner):
        o = iout[f"n{k}"]
        got = [e[4:].strip('"') if e.startswith('out:"') else e[4:] for e in o["events"] if e.startswith("out:")]
        if not o["end"].startswith(("discarded:", "fuel:")) and got != want:
            ck.reject("C15:inner-program", f"{src!r}: effects {got}, expected {want} (end {o['end'][:80]})", {"src": src, "observed": got, "expected": want, "end": o["end"]})
    ck.cov["inner_program_bodies"] = len(inner)
    # long bodies: defers far down a body (positions around 64 / 128 / 256 statements) are reached like any other, on every way out
    longs = []
    for n in ((63, 64, 65, 66, 70, 130) if not thorough else (63, 64, 65, 66, 70, 127, 128, 129, 130, 255, 256, 257, 300, 1030)):
        dpos = sorted({0, 1, n // 2, n - 8, n - 3, n - 2} | {q for q in (62, 63, 64, 65, 127, 128, 255, 256) if q < n - 1})
        for way in ("value", "return", "raise", "nested"):
            stmts, want = [], []
            for i in range(n - 1):
                if i in dpos:
                    stmts.append(f'defer say("d{i}")' + (" if true" if i % 3 == 0 else ""))
                elif i % 16 == 5:
                    stmts.append(f'say("s{i}")')
                    want.append(f"s{i}")
                else:
                    stmts.append(f"x{i % 7} := {i}")
            stmts.append({"value": "7", "return": "return 7", "raise": 'raise Err.new("boom")', "nested": "1 / 0"}[way])
            if way == "return":
                stmts.append('defer say("never")')
            want += [f"d{i}" for i in dpos]
            want.append({"value": "[7, nil]", "return": "[7, nil]", "raise": "[nil, <err Err: boom>]", "nested": "[nil, <err ZeroDivisionErr: cannot be divided by 0>]"}[way])
            longs.append((f"long:{n}:{way}", "f := {||\n" + "\n".join(stmts) + "\n}\nsay(nil.try.{|u| f()}.A)", want))
    # a guarded defer whose guard raises: the error ends the body like any other (the defers reached before it run, nothing after it does)
    for gk, (guard, err) in enumerate([("1 / 0", "ZeroDivisionErr: cannot be divided by 0"), ("undefinedname", "NameErr: name `undefinedname` is not defined"), ('gbad()', "Err: bad"),
                                       ("1.nosuchprop", "NoPropErr: property `nosuchprop` is not defined.")]):
        pre = 'gbad := {|| defer say("g"); raise Err.new("bad")}\n'
        gw = ["g"] if guard == "gbad()" else []
        longs.append((f"guard:{gk}:func", pre + f'f := {{|| defer say("d1"); say("a"); defer say("d2") if {guard}; say("never"); defer say("d3"); 7}}\nsay(nil.try.{{|u| f()}}.A)', ["a"] + gw + ["d1", f"[nil, <err {err}>]"]))
        longs.append((f"guard:{gk}:method", pre + f'o := {{run: m{{defer say("d1"); defer say("d2") if {guard}; say("never"); 7}}}}\nsay(nil.try.{{|u| o.run}}.A)', gw + ["d1", f"[nil, <err {err}>]"]))
        longs.append((f"guard:{gk}:nested", pre + f'f := {{|| defer say("d1"); defer say("d2") if {guard}; say("never"); 7}}\nh := {{|| defer say("h1"); r := f(); say("after"); r}}\nsay(nil.try.{{|u| h()}}.A)', gw + ["d1", "h1", f"[nil, <err {err}>]"]))
        longs.append((f"guard:{gk}:unhandled", pre + f'f := {{|| defer say("d1"); defer say("d2") if {guard}; say("never"); 7}}\nf()\nsay("after")', gw + ["d1"]))
    lout = run_cases([{"id": f"l{k}", "src": src, "deadline_ms": 20000} for k, (_, src, _) in enumerate(longs)], label="C15 long bodies and raising guards")
    for k, (tag, src, want) in enumerate(longs):
        o = lout[f"l{k}"]
        got = [e[4:].strip('"') if e.startswith('out:"') else e[4:] for e in o["events"] if e.startswith("out:")]
        if o["end"].startswith(("discarded:", "fuel:")):
            continue
        if pvlib.is_host_crash(o["end"]):
            ck.reject("C15:host-crash", o["end"], {"src": src})
        elif got != want or (tag.endswith(":unhandled") and not o["end"].startswith("err:")):
            ck.reject("C15:" + ":".join(tag.split(":")[::2]), f"{tag}: effects {got[-12:]}, expected {want[-12:]} (end {o['end'][:80]})", {"src": src, "observed": got, "expected": want, "end": o["end"]})
    ck.cov["long_bodies_and_raising_guards"] = len(longs)
    ck.cov["evaluations"] = len(fam)
    ck.cov["distinct_nontrivial"] = nontrivial
    ck.cov["traces_validated_against_impl"] = st["ok"] + st["mismatch"]
    ck.cov["exhaustive"] = True
    ck.cov["rule"] = (f"all bodies of 1..{n_func} statements over {evalfam.C15_KINDS} (each followed by a final value), called as function; bodies of "
                      f"1..{n_all} statements also as method, literal call, under try, and inside a function with its own defer; nested callees gok/gbad "
                      "have their own defers; the same bodies bare (exactly these statements: one-statement bodies, bodies ending in a defer) as function, as a statement call inside another function, and as literal call; bodies of 63..130 (thorough ..1030) statements with defers around positions 64 / 128 / 256 on four ways out; guarded defers whose guard raises (4 kinds x 4 contexts); non-trivial = accepted runs whose body contains a defer")
    ck.assumptions = ["a defer statement has no value: a body that ends with one evaluates to nil (fix 0b66096; before it the internal defer object leaked)"]
    if st["ok"] + st["mismatch"] < len(fam) * 0.95:
        raise pvlib.Broken(f"too many programs unsupported/discarded: {st}")
    return ck.finish()


def replay(path):
    from checks.c03 import replay as rp
    return rp(path)

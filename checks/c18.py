"""C18 equality and ordering laws: the relation table of a value pool is recorded from the real interpreter and the
laws of PanOrder are checked on it by TLC (Trace_C18)."""
import json
import pvlib
from pvlib import Check, run_tlc, run_cases, payloads, ndjson

PRELUDE = ("P := Int.bear; Q := Str.bear; R := Float.bear; P2 := Int.bear({tag: 2}); PA := Arr.bear; P3 := Int.bear; Q3 := Str.bear; R3 := Float.bear; P4 := Int.bear({tag: 2}); "
           "o1 := {a: 1}; E1 := 1.try.nosuch; E2 := \"s\".try.nosuch2; f1 := {|x| x}; fx := 1.5; fy := 2.0; ix := 2; sx := true; ")

# (source, family, python value for classification, proto tag)
POOL = [
    ("0", "int", 0, "Int"), ("1", "int", 1, "Int"), ("-1", "int", -1, "Int"), ("2", "int", 2, "Int"), ("100", "int", 100, "Int"),
    ("4611686018427387904", "int", 2**62, "Int"), ("9223372036854775807", "int", 2**63 - 1, "Int"),
    ("(-9223372036854775807)", "int", -(2**63 - 1), "Int"), ("(-5000000000000000000)", "int", -5 * 10**18, "Int"),
    ("true", "int", 1, "bool"), ("false", "int", 0, "bool"),
    ("P.new(1)", "int", 1, "P"), ("P.new(2)", "int", 2, "P"), ("P.new(-3)", "int", -3, "P"), ("P2.new(2)", "int", 2, "P2"),
    ("P2.new(7)", "int", 7, "P2"),
    ("0.0", "float", 0.0, "Float"), ("1.5", "float", 1.5, "Float"), ("-1.5", "float", -1.5, "Float"), ("2.0", "float", 2.0, "Float"),
    ("1.0e300", "float", 1e300, "Float"), ("0.1", "float", 0.1, "Float"), ("R.new(1.5)", "float", 1.5, "R"), ("R.new(2.5)", "float", 2.5, "R"),
    ('""', "str", "", "Str"), ('"a"', "str", "a", "Str"), ('"b"', "str", "b", "Str"), ('"ab"', "str", "ab", "Str"), ('"A"', "str", "A", "Str"),
    ('"é"', "str", "é", "Str"), ('"10"', "str", "10", "Str"), ('"9"', "str", "9", "Str"), ('Q.new("a")', "str", "a", "Q"),
    ('Q.new("c")', "str", "c", "Q"), ("'sym", "str", "sym", "Str"),
    ("nil", "none", None, ""), ("[]", "none", None, ""), ("[1]", "none", None, ""), ("[1, 2]", "none", None, ""), ("[[1]]", "none", None, ""),
    ('["a"]', "none", None, ""), ("[nil]", "none", None, ""), ("[1.0]", "none", None, ""), ("PA.new([1])", "none", None, ""),
    ("{}", "none", None, ""), ("{a: 1}", "none", None, ""), ("{a: 1, b: 2}", "none", None, ""), ("{a: {b: 1}}", "none", None, ""),
    ("o1.bear", "none", None, ""), ("o1.bear({b: 2})", "none", None, ""), ("{_p: 1}", "none", None, ""), ("{a: 1, _p: 2}", "none", None, ""),
    ("{a: [1, 2]}", "none", None, ""),
    ("%{}", "none", None, ""), ("%{1: 2}", "none", None, ""), ('%{"a": 1}', "none", None, ""), ("%{[1]: 2}", "none", None, ""),
    ("%{1: 2, 3: 4}", "none", None, ""), ("%{3: 4, 1: 2}", "none", None, ""),
    ("(1:2)", "none", None, ""), ("(1:2:3)", "none", None, ""), ("(nil:nil)", "none", None, ""), ('("a":"c")', "none", None, ""),
    ("{|x| x}", "none", None, ""), ("f1", "none", None, ""), ("{|y| y}", "none", None, ""), ("m{1}", "none", None, ""), ("<{|x| yield x}>", "none", None, ""),
    ("1.try", "none", None, ""), ("2.try", "none", None, ""), ('"a".try', "none", None, ""), ("E1", "none", None, ""), ("E2", "none", None, ""),
    ("E1.err", "none", None, ""), ("E2.err", "none", None, ""), ("1.try.nosuch.err", "none", None, ""),
    # the two zeros (equal as numbers, different bit patterns), alone and inside containers
    ("(-0.0)", "float", -0.0, "Float"), ("(0.0 * -1.0)", "float", -0.0, "Float"), ("R.new(-0.0)", "float", -0.0, "R"),
    ("[0.0]", "none", None, ""), ("[-0.0]", "none", None, ""), ("{a: 0.0}", "none", None, ""), ("{a: -0.0}", "none", None, ""),
    # infinities and NaN are reachable by overflow
    ("(1.0e308 * 10.0)", "float", float("inf"), "Float"), ("(-1.0e308 * 10.0)", "float", float("-inf"), "Float"),
    ("(1.0e308 * 10.0 - 1.0e308 * 10.0)", "float", float("nan"), "Float"),
    # strings that are not valid UTF-8 (bitwise not of ASCII): distinct bytes, same text after lossy decoding
    ('(/~"a")', "str", "\x9e", "Str"), ('(/~"b")', "str", "\x9d", "Str"), ('(/~"ab")', "str", "\x9e\x9d", "Str"), ('(/~"a" + "z")', "str", "\x9ez", "Str"),
    # maps built from several ** operands that share keys, next to maps with the same number of keys
    ("%{**%{[1]: 2}, **%{[1]: 2}}", "none", None, ""), ("%{[1]: 2, [2]: 2}", "none", None, ""), ("%{[2]: 2, [1]: 2}", "none", None, ""), ("%{**%{[1]: 2}, **%{[2]: 2}}", "none", None, ""),
    ("%{[1]: 2}", "none", None, ""), ("%{**%{{a: 1}: 2, [1]: 2}, **%{{a: 1}: 2}}", "none", None, ""), ("%{{a: 1}: 2, [1]: 2}", "none", None, ""),
    ("{**{a: 1}, **{a: 1}}", "none", None, ""), ("[%{**%{[1]: 2}, **%{[1]: 2}}]", "none", None, ""), ("[%{[1]: 2, [2]: 2}]", "none", None, ""),
    # neighbouring ints beyond 2**53 (distinct as ints, the same number after conversion to a float)
    ("9007199254740992", "int", 2**53, "Int"), ("9007199254740993", "int", 2**53 + 1, "Int"), ("9223372036854775806", "int", 2**63 - 2, "Int"),
    ("(-9223372036854775806)", "int", -(2**63 - 2), "Int"), ("P.new(9007199254740993)", "int", 2**53 + 1, "P"), ("P.new(9007199254740994)", "int", 2**53 + 2, "P"),
    # instances of SIBLING prototypes that are made separately and look alike (P3 like P, P4 like P2, Q3 like Q, R3 like R)
    ("P3.new(1)", "int", 1, "P3"), ("P3.new(2)", "int", 2, "P3"), ("P4.new(2)", "int", 2, "P4"), ('Q3.new("a")', "str", "a", "Q3"), ("R3.new(1.5)", "float", 1.5, "R3"),
    # values a built-in produced, equal to literals of the pool
    ('("" + "a")', "str", "a", "Str"), ('"A".lc', "str", "a", "Str"), ('["a", "b"].join("")', "str", "ab", "Str"), ("(0 + 1)", "int", 1, "Int"), ("(3 - 1)", "int", 2, "Int"),
    ("(0.5 + 1.0)", "float", 1.5, "Float"), ("(4.0 / 2.0)", "float", 2.0, "Float"), ('"1.5".F', "float", 1.5, "Float"), ('"2".I', "int", 2, "Int"), ("[1, 2].len", "int", 2, "Int"),
    ("([1] + [2])", "none", None, ""), ("(1:3).A", "none", None, ""), ("JSON.dec(`[1, 2]`)", "none", None, ""), ("JSON.dec(`{\"a\": 1}`)", "none", None, ""), ("[['a, 1]].O", "none", None, ""),
    # floats one unit in the last place apart (computed and written), and values made by a prefix operator applied to a VARIABLE (the result is built from the operand)
    ("0.3", "float", 0.3, "Float"), ("(0.1 + 0.2)", "float", 0.1 + 0.2, "Float"), ("(0.3 - 0.2)", "float", 0.3 - 0.2, "Float"), ("1.0000000000000002", "float", 1.0000000000000002, "Float"),
    ("1.0000000000000004", "float", 1.0000000000000004, "Float"), ("(-fx)", "float", -1.5, "Float"), ("(-fy)", "float", -2.0, "Float"), ("(-ix)", "int", -2, "Int"), ("(-sx)", "int", -1, "child-of-true"),
    ("[[1, 2]].M", "none", None, ""), ("{a: 1}.items.O", "none", None, ""), ("%{1: 2}.items.M", "none", None, ""), ("JSON.dec(`null`)", "none", None, ""), ("JSON.dec(`true`)", "int", 1, "bool"),
]
OPS = [("eq", "=="), ("ne", "!="), ("lt", "<"), ("le", "<="), ("gt", ">"), ("ge", ">="), ("cmp", "<=>")]


def code_bool(end):
    return {"val:true": "T", "val:false": "F"}.get(end, "E")


def code_cmp(end):
    return {"val:-1": "-1", "val:0": "0", "val:1": "1"}.get(end, "E")


def run():
    ck = Check("C18")
    thorough = ck.tier == "thorough"
    pool = POOL
    n = len(pool)
    reqs = []
    for i, (sx, fx, vx, px) in enumerate(pool):
        reqs.append({"id": f"v.{i}", "src": PRELUDE + sx})
        for j, (sy, fy, vy, py) in enumerate(pool):
            for name, op in OPS:
                if name in ("lt", "le", "gt", "ge", "cmp") and not ((fx != "none" and fx == fy) or {fx, fy} == {"int", "float"}):
                    continue
                reqs.append({"id": f"{name}.{i}.{j}", "src": PRELUDE + f"x := {sx}; y := {sy}; x {op} y"})
            if fx != "none" and fx == fy:
                reqs.append({"id": f"mx.{i}.{j}", "src": PRELUDE + f"x := {sx}; y := {sy}; [x, y].max"})
                reqs.append({"id": f"mn.{i}.{j}", "src": PRELUDE + f"x := {sx}; y := {sy}; [x, y].min"})
    fam = {}
    for i, p in enumerate(pool):
        fam.setdefault(p[1], []).append(i)
    triples = []
    for f, idxs in fam.items():
        if f == "none":
            continue
        sel = idxs if thorough else idxs[:9]
        for x in sel:
            for lo in sel:
                for hi in sel:
                    triples.append((x, lo, hi))
    for (x, lo, hi) in triples:
        reqs.append({"id": f"btw.{x}.{lo}.{hi}", "src": PRELUDE + f"x := {pool[x][0]}; lo := {pool[lo][0]}; hi := {pool[hi][0]}; x.between?(lo, hi)"})
        reqs.append({"id": f"clip.{x}.{lo}.{hi}", "src": PRELUDE + f"x := {pool[x][0]}; lo := {pool[lo][0]}; hi := {pool[hi][0]}; x.clip(lo, hi)"})
    out = run_cases(reqs, label="C18")
    end = lambda rid: out[rid]["end"]
    late = [r["id"] for r in reqs if out[r["id"]]["end"].startswith(("discarded:", "fuel:"))]
    if late:
        raise pvlib.Broken(f"{len(late)} cells of the relation table were not evaluated (deadline): {late[:3]}")
    canon = [end(f"v.{i}") for i in range(n)]
    for i, c in enumerate(canon):
        if not c.startswith("val:"):
            raise pvlib.Broken(f"pool value {pool[i][0]} does not evaluate: {c}")
    vals = [{"fam": p[1], "nan": isinstance(p[2], float) and p[2] != p[2]} for p in pool]
    rows = []
    for i in range(n):
        for j in range(n):
            same = (pool[i][1] != "none" and pool[i][1] == pool[j][1]) or {pool[i][1], pool[j][1]} == {"int", "float"}
            row = {"eq": code_bool(end(f"eq.{i}.{j}")), "ne": code_bool(end(f"ne.{i}.{j}"))}
            for name in ("lt", "le", "gt", "ge"):
                row[name] = code_bool(end(f"{name}.{i}.{j}")) if same else "E"
            row["cmp"] = code_cmp(end(f"cmp.{i}.{j}")) if same else "E"
            for name in ("mx", "mn"):
                if same and pool[i][1] == pool[j][1]:
                    r = end(f"{name}.{i}.{j}")
                    isx, isy = r == canon[i], r == canon[j]
                    row[name] = "xy" if isx and isy else "x" if isx else "y" if isy else "?"
                else:
                    row[name] = "?"
            rows.append(row)
    t3 = []
    for (x, lo, hi) in triples:
        r = end(f"clip.{x}.{lo}.{hi}")
        t3.append({"x": x + 1, "lo": lo + 1, "hi": hi + 1, "btw": code_bool(end(f"btw.{x}.{lo}.{hi}")),
                   "cx": r == canon[x], "clo": r == canon[lo], "chi": r == canon[hi]})
    files = {"c18_vals.ndjson": ndjson(vals), "c18_pairs.ndjson": ndjson(rows), "c18_triples.ndjson": ndjson(t3)}
    res = run_tlc("Trace_C18", files=files, timeout_s=1500)
    ck.add_tlc(res, "Trace_C18")
    fails = payloads(res, "V ")
    nontriv = sum(1 for i in range(n) for j in range(n) if rows[i * n + j]["eq"] == "T" and i != j) + \
        sum(1 for r in rows if r["lt"] == "T")
    for f in fails:
        law, x, y, z = f["law"], f["x"] - 1, f["y"] - 1, f["z"] - 1
        px, py = pool[x], pool[y]
        isnan = lambda q: isinstance(q[2], float) and q[2] != q[2]
        if isnan(px) or isnan(py) or (z >= 0 and isnan(pool[z])):
            sig = "C18:nan-ordering"
        elif law in ("trichotomy", "unions", "cmp-agrees") and px[1] == py[1] and px[2] == py[2] and px[3] != py[3] and \
                rows[x * n + y]["cmp"] == "0" and rows[x * n + y]["eq"] == "F":
            sig = "C18:trichotomy:equal-value-different-proto"
        elif law == "mixed-trichotomy" and px[2] == py[2] and rows[x * n + y]["cmp"] == "0" and rows[x * n + y]["eq"] == "F":
            sig = "C18:trichotomy:float-vs-int-equal-value"
        elif law == "transitive" and any(pool[a][2] == pool[b][2] and pool[a][3] != pool[b][3] for a, b in ((x, y), (y, z), (x, z))):
            sig = "C18:trichotomy:equal-value-different-proto"
        else:
            sig = f"C18:{law}:{px[1]}/{px[3]}:{py[1]}/{py[3]}" if px[1] != "none" else f"C18:{law}:{px[0]}:{py[0]}"
        cell = rows[x * n + y]
        ck.reject(sig, f"law {law} fails for x={px[0]}, y={py[0]}" + (f", z={pool[z][0]}" if z >= 0 else "") + f": {cell}",
                  {"law": law, "x": px[0], "y": py[0], "z": pool[z][0] if z >= 0 else None, "cell_xy": cell,
                   "cell_yx": rows[y * n + x], "prelude": PRELUDE})
    ck.sample({"x": pool[1][0], "y": pool[9][0], "cell": rows[1 * n + 9]})
    ck.sample({"x": pool[11][0], "y": pool[12][0], "cell": rows[11 * n + 12]})
    ck.sample({"x": pool[45][0], "y": pool[48][0], "cell": rows[45 * n + 48]})
    ck.cov["evaluations"] = len(reqs)
    ck.cov["distinct_nontrivial"] = nontriv
    ck.cov["traces_validated_against_impl"] = 1
    ck.cov["table"] = {"values": n, "pairs": n * n, "ordered_triples_between_clip": len(t3)}
    ck.cov["rule"] = (f"pool of {n} values (every built-in data type, nested containers, bear children, typed descendants via new, "
                      "booleans, functions, Either/error values); all ordered pairs x (==, !=), same-family pairs x (<,<=,>,>=,<=>,max,min), "
                      "same-family triples for transitivity (all) and between?/clip; non-trivial = pairs of distinct pool entries that "
                      "compare equal plus pairs in strict order")
    ck.assumptions = ["int-vs-str and the other cross-family comparisons raise TypeErr and are outside the ordered-family laws"]
    return ck.finish()


def replay(path):
    d = json.load(open(path))["case"]
    srcs = {op: d["prelude"] + f"x := {d['x']}; y := {d['y']}; x {sym} y" for op, sym in OPS}
    out = run_cases([{"id": k, "src": v} for k, v in srcs.items()], nproc=1)
    print({k: out[k]["end"] for k in srcs})
    print("re-run `python3 pv.py C18` for the verdict on the whole table")
    return 0

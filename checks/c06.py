"""C06 immutability: histories of operations over live values are run in the real interpreter; after every operation the worker
fingerprints every live value; TLC validates the recorded fingerprint log against PanHeap.AppendOnly (trace validation)."""
import hashlib, json
import pvlib
from pvlib import Check, run_tlc, run_cases, payloads, ndjson

POOL = [("a3", "[1, 2, 3]", "Arr"), ("a5", "[1, 2, 3, 4, 5]", "Arr"), ("a6", "[6, 5, 4, 3, 2, 1]", "Arr"), ("a7", "[[1], [2, 3], 4, 5, 6, 7, 8]", "Arr"), ("a0", "[]", "Arr"),
        ("s1", '"hello"', "Str"), ("s2", '"ab,cd"', "Str"), ("o1", "{x: 1, y: 2}", "Obj"), ("o2", "o1.bear({z: 3})", "Obj"), ("o3", "{y: 5, w: [1, 2, 3]}", "Obj"),
        ("m1", "%{1: 'a, \"k\": 'b, [1]: 'c}", "Map"), ("r1", "(1:10:2)", "Range"), ("f1", "{|x| x + 1}", "Func"), ("e1", "1.try.nosuchprop.err", "Err"),
        ("v1", "1.try", "EitherVal"), ("n1", "5", "Int"), ("q1", "1.5", "Float"),
        # a str that is the start of a str range, an int descendant that is a bound of an int range
        ("s3", '"ab"', "Str"), ("r2", '(s3:"af")', "Range"), ("b1", "2.bear({q: 1})", "Int"), ("r3", "(b1:4)", "Range"), ("r4", "(true:3)", "Range"),
        # two equal maps with several non-scalar keys (comparisons walk them pairwise), and containers holding them
        ("m2", "%{[1]: 'a, [2]: 'b, [3]: 'c, [4, 4]: 'd}", "Map"), ("m3", "%{[1]: 'a, [2]: 'b, [3]: 'c, [4, 4]: 'd}", "Map"), ("m4", "%{[3]: 'c, [1]: 'a, 7: 'e, [2]: 'b}", "Map")]
# what the interpreter's own accessors say about a live value (the worker's fingerprint reads the Go fields; a cache beside them would go unseen)
VIEWS = {"Str": "[{n}.len, {n}.rev, {n}[0], {n}[-1], {n}[1:], {n}@{{|c| c}}, {n}.uc, {n} + \"\"]", "Range": "[{n}.A, {n}.start, {n}.stop, {n}.step, {n}.S, {n}@{{|e| e}}]",
         "Arr": "[{n}.len, {n}.rev, {n}[0], {n}[-1], {n}@{{|e| e}}, {n}.S]", "Obj": "[{n}.keys, {n}.values, {n}.S, {n}.items]", "Map": "[{n}.keys, {n}.values, {n}.S, {n}.len]",
         "Int": "[{n} + 0, {n}.S, {n}.proto == Int]"}
PROTOS = {"Arr": ["Arr", "Iterable", "Obj", "BaseObj"], "Str": ["Str", "Comparable", "Iterable", "Obj", "BaseObj"], "Obj": ["Obj", "Iterable", "BaseObj"],
          "Map": ["Map", "Iterable", "Obj", "BaseObj"], "Range": ["Range", "Iterable", "Obj", "BaseObj"], "Func": ["Func", "Obj", "BaseObj"], "Err": ["Err", "Obj", "BaseObj"],
          "EitherVal": ["EitherVal", "Either", "Wrappable", "Obj", "BaseObj"], "Int": ["Int", "Num", "Comparable", "Obj", "BaseObj"], "Float": ["Float", "Num", "Comparable", "Obj", "BaseObj"]}
SKIP = {"p", "puts", "print", "exit", "assert", "assertEq", "assertRaises", "import", "invite!", "_incBy", "repr", "try", "readline", "readlines", "read",
        "write", "serve", "serveBackground", "eval", "evalEnv", "new", "call", "bear", "_iter", "next", "_name", "tap"}
# operations written out: the ones that build on their operands
TEMPLATES = ["{a} + {b}", "{a} + [4]", "{a} + \"4]\"", "[*{a}, 4]", "[*{a}, *{b}]", "[0, *{a}]", "{a}[1:]", "{a}[::-1]", "{a}[{b}]", "{a}.at([{b}])", "{a} * 2", "{{**{a}, k: 1}}", "{{k: 1, **{a}}}", "{{**{a}, **{b}}}", "%{{**{a}, 9: 9}}",
             "%{{**{a}, **{b}}}", "{a}.bear({{q: 1}})", "{a}.bro({{q: 1}})", "{a}.patch(x: 9)", "{a}.del('x)", "{a}@{{|x| x}}", "{a}@([9]){{|x| x}}", "{a}$([]){{|acc, x| [*acc, x]}}",
             "{{|k: 0| \\_}}(**{a}, **{b})", "{{|x| \\0}}(*{a}, *{b})", "{{|k: 0| [k, \\_]}}(**{a})", "{a}.push(7)", "{a}.unshift(7)", "{a}.assign(0, 7)", "{a}.sort", "{a}.rev", "{a}.uniq",
             "{a}.concat({b})", "{a}.flatten", "{a}.zip({b})", "{a}.uc", "{a} / \",\"", "{a}.sub(\"l\", \"L\")", "{a}.S", "{a}.A", "{a}.O", "{a}.M", "{a}.items", "{a}.keys", "{a}.values",
             "nil.try.{{|u1| raise {a}}}.err", "nil.try.{{|u1| {{|| raise {a}}}()}}.A", "{a}.try.abandon", "Either.newErr(Err, \"m\").catch(Err){{|e| raise {a}}}",
             "{a}$(nil){{|p| p}}", "{a}${{\\}}", "{a}$([]){{|p| {{|| p}}}}", "{a}@{{|x| [x]}}", "{a}~@{{|x| nil}}", "[{a}, {b}].max", "{a}.clip({b}, {b})",
             # values that become live in the middle of an evaluation (keep(x) snapshots the heap at that moment and returns x)
             "{a}$(nil){{|p| keep(p)}}", "{a}${{keep(\\)}}", "{a}$([]){{|acc, x| keep([*acc, x])}}", "{a}@{{|x| keep([x, {b}])}}", "{a}@{{|x| keep(x)}}", "{a}~$(nil){{|p| keep(p)}}",
             "{a}$(nil)^keep", "{a}@^keep", "keep({a}) + keep({b})", "keep({a}).push(keep({b}))", "{{|*xs| keep(xs)}}(*{a}, *{b})@{{|x| keep(x)}}", "{{|**o| keep(o)}}(**{a}, **{b}).bear({{q: keep(\\)}})",
             "{a}.A@{{|x| keep(x)}}.sort", "{a}.A$(keep([])){{|acc, x| keep(acc + [x])}}", "%{{**{a}}}.items@{{|kv| keep(kv)}}.M", "{a}.items@{{|kv| keep(kv)}}.O",
             "{a}.try.fmap{{|x| keep(x)}}.fmap{{|x| keep([x])}}.A", "keep({a}.try).or({b})", "keep(\"#{{keep({a})}}#{{keep({b})}}\")",
             "{a}(1)", "{a}({b})", "{a}(1, 2, k: 3)", "{a}.call({b}, {b})", "[{b}]@{{|x| {a}(x)}}", "{b}.{{|x| {a}(x)}}",
             "{a} == {b}", "{a} != {b}", "[{a}] == [{b}]", "{{k: {a}}} == {{k: {b}}}", "%{{1: {a}}} == %{{1: {b}}}", "[{a}, {b}].has?({b})", "{a} === {b}", "{a}.case(%{{{b}: 1}})",
             "[{a}, {b}].uniq", "[{a}, {b}].index({b})", "[{b}, {a}].tally",
             # a literal's own non-scalar pairs before a `**` operand: some of the operand's pairs are dropped as duplicates, the rest kept
             # one value used as the chain argument of two chains whose results are both still referenced
             "keep({b}@({a}){{|x| x}}) + keep({b}@({a}){{|x| [x]}})", "keep({b}@({a})S) + keep({b}@({a})repr)", "[keep([1]@({a}){{|x| x}}), keep([2, 3]@({a}){{|x| x}}), keep([4]=@({a}){{|x| x}})]",
             "[keep({a}.patch(v: 0)), keep({b}.patch(v: 0)), [{a}, {b}]@patch(v: 0)]",
             # literals made only of three or more ** operands, one of them empty
             "{{**{a}, **{{}}, **{{zz9: 1}}}}", "{{**{a}, **{{}}, **{b}}}", "{{**{{}}, **{a}, **{b}, **{{zz9: 1}}}}", "%{{**{a}, **%{{}}, **%{{[9]: 1, 8: 2}}}}", "[*{a}, *[], *{b}, *[7]]",
             "%{{[1]: 0, **{a}}}", "%{{[2]: 0, [9]: 1, **{a}}}", "%{{**{b}, [2]: 0, **{a}}}", "{{y: 0, **{a}}}", "[*{a}][1:]"]


def hh(s):
    return hashlib.sha1(s.encode()).hexdigest()[:12]


def history_program(ops):
    """ops: list of source expressions over pool / earlier result names (r1, r2, ..)"""
    views = "fp({" + ", ".join(f"{n}: nil.try.{{|u0| {VIEWS[t].format(n=n)}}}.val" for n, _, t in POOL if t in VIEWS) + "})"
    lines = [f"{n} := {src}" for n, src, _ in POOL] + [views]
    for k, e in enumerate(ops):
        lines.append(f"w{k + 1} := nil.try.{{|u0| {e}}}.val")
        lines.append(views)
    return "\n".join(lines)


def surface_ops(surface):
    props = {e["name"]: (e["props"] or []) for e in surface}
    ops = []
    for name, _, ty in POOL:
        seen = set()
        for proto in PROTOS[ty]:
            for p in props.get(proto, []):
                if p in seen or p in SKIP or p.startswith("_"):
                    continue
                seen.add(p)
                call = f"{name}.{p}" if p[0].isalpha() else f"{name}.{p}"
                ops.append(call if p[0].isalpha() else None)
                if p[0].isalpha():
                    for arg, _, _ in POOL[::2]:
                        ops.append(f"{name}.{p}({arg})")
                else:
                    for arg, _, _ in POOL[::2]:
                        ops.append(f"{name} {p} {arg}")
    return [o for o in ops if o]


def run():
    ck = Check("C06")
    thorough = ck.tier == "thorough"
    rng = ck.rng
    surf = run_cases([{"id": "s", "mode": "surface"}], nproc=1)["s"]["extra"]["builtins"]
    single = surface_ops(surf)
    names = [n for n, _, _ in POOL]
    tmpl = []
    for t in TEMPLATES:
        for a in names:
            if "{b}" in t:
                for b in rng.sample(names, 6):
                    tmpl.append(t.format(a=a, b=b))
            else:
                tmpl.append(t.format(a=a))
    histories = []
    # (1) every single operation of the surface / templates, 8 independent operations per program
    allops = single + tmpl
    rng.shuffle(allops)
    for k in range(0, len(allops), 8):
        histories.append(allops[k:k + 8])
    # (2) histories that reuse operands and earlier results: same operation twice on the same operand, then observe
    for t in TEMPLATES:
        for a in names:
            b = rng.choice(names)
            e = t.format(a=a, b=b)
            histories.append([e, e.replace("4]", "5]").replace("7)", "8)").replace("k: 1", "k: 2"), t.format(a="w1", b=a) if "{b}" in t else t.format(a="w1")])
    # (3) seeded random deeper histories
    for _ in range(20000 if thorough else 600):
        h = []
        for step in range(rng.randint(3, 9 if thorough else 6)):
            live = names + [f"w{j + 1}" for j in range(step)]
            t = rng.choice(TEMPLATES)
            h.append(t.format(a=rng.choice(live), b=rng.choice(live)))
        histories.append(h)
    # drop operations that are not syntactically valid (a syntax error would discard the whole history)
    distinct = sorted({e for h in histories for e in h})
    parsed = run_cases([{"id": str(k), "mode": "parse", "src": f"w := nil.try.{{|u0| {e}}}.val"} for k, e in enumerate(distinct)], label="C06 parse")
    valid = {e for k, e in enumerate(distinct) if parsed[str(k)]["end"].startswith("ast:")}
    histories = [[e for e in h if e in valid] for h in histories]
    histories = [h for h in histories if h]
    ck.cov["operations_dropped_as_unparsable"] = len(distinct) - len(valid)
    reqs = [{"id": str(i), "src": history_program(h), "fuel": 300000, "deadline_ms": 5000} for i, h in enumerate(histories)]
    out = run_cases(reqs, label="C06")
    rows, full = [], {}
    discarded = 0
    for i, h in enumerate(histories):
        o = out[str(i)]
        if pvlib.is_host_crash(o["end"]):
            ck.reject("C06:host-crash", o["end"], {"src": reqs[i]["src"]})
            continue
        snaps = [e[3:].split("\x1f") for e in o["events"] if e.startswith("fp:")]
        if len(snaps) < 2:
            discarded += 1
            continue
        # order by creation: pool names first (fixed order), then results w<k> and kept values #k<j> in the order of their first appearance
        order = {n: k for k, n in enumerate(names)}
        def known(entry):
            n = entry.split("=", 1)[0]
            return n in order or (n[0] == "w" and n[1:].isdigit()) or n.startswith("#k") or n.startswith("#v")
        for s in snaps:
            new = [e.split("=", 1)[0] for e in s if known(e) and e.split("=", 1)[0] not in order]
            for n in sorted(new, key=lambda n: (n[0] != "#", (0, n) if n.startswith("#v") else (1, int(n[2:] if n[0] == "#" else n[1:])))):    # within one snapshot: kept values precede the result built from them
                order[n] = len(order)
        snaps = [sorted([e for e in s if known(e)], key=lambda e: order[e.split("=", 1)[0]]) for s in snaps]
        rows.append({"id": str(i), "snaps": [[hh(e) for e in s] for s in snaps]})
        full[str(i)] = snaps
    res = run_tlc("Trace_C06", files={"c06.ndjson": ndjson(rows)}, timeout_s=1700)
    ck.add_tlc(res, "Trace_C06")
    vs = {v["id"]: v["broken"] for v in payloads(res, "V ")}
    if len(vs) != len(rows):
        raise pvlib.Broken("Trace_C06 verdict count mismatch")
    ops_done = 0
    for rid, broken in vs.items():
        snaps = full[rid]
        ops_done += len(snaps) - 1
        if broken:
            a, b = snaps[broken - 1], snaps[broken]
            changed = [(x, y) for x, y in zip(a, b) if x != y]
            var = changed[0][0].split("=", 1)[0] if changed else "?"
            op = histories[int(rid)][broken - 1] if broken - 1 < len(histories[int(rid)]) else "?"
            tyv = next((t for n, _, t in POOL if n == var), "result")
            ck.reject(f"C06:{tyv}-changed-by:{op.split('(')[0].split('.')[-1] if '.' in op else op.split()[0] if op[0].isalpha() else op[:6]}",
                      f"operation {broken} ({op}) changed existing value {var}: {changed[0][0] if changed else ''} -> {changed[0][1] if changed else ''}",
                      {"src": reqs[int(rid)]["src"], "operation": op, "before": changed[0][0] if changed else None, "after": changed[0][1] if changed else None})
    ck.sample({"history": histories[-1], "snapshots": len(full.get(str(len(histories) - 1), []))})
    ck.cov["evaluations"] = ops_done
    ck.cov["distinct_nontrivial"] = sum(1 for h in histories if len(h) >= 3)
    ck.cov["traces_validated_against_impl"] = len(rows)
    ck.cov["discarded"] = discarded
    ck.cov["rule"] = (f"pool of {len(POOL)} live values (arrays of length 3, 5, 6, 7 whose backing arrays have spare capacity, strings, objects shared through bear, "
                      f"map, range, function, error, Either, numbers); (1) every property of every pool value's prototype chain (from the surface dump of the "
                      f"current tree) with 0 and 1 argument + {len(TEMPLATES)} written-out operations, (2) the same operation twice on one operand then on its "
                      "result, (3) seeded random histories of 3..6 operations over pool and earlier results; fingerprints of all live values after every operation; "
                      "non-trivial = histories of >= 3 dependent operations")
    ck.assumptions = ["fingerprints: structure, prototype chain, every entry of the pairs map, function source, error text (worker render, detail mode)",
                      "operations that raise leave nil as their result"]
    return ck.finish()


def replay(path):
    c = json.load(open(path))["case"]
    o = run_cases([{"id": "r", "src": c["src"]}], nproc=1)["r"]
    snaps = [e for e in o["events"] if e.startswith("fp:")]
    print(len(snaps), "snapshots; operation", c.get("operation"))
    return 0

"""C20: no unsynchronised access to the interpreter-wide tables.

Design level: PanSymtab (3 processes, 2 strings, all interleavings) satisfies Exclusion/NoRace/LockDiscipline with the
locked SymHash2Str, and the unlocked variant violates NoRace (non-vacuity).
Binding: the object package is auto-instrumented at build time (harness/cmd/hookgen: an event at every lock
operation and at every statement touching a package-level variable of object/hashtable.go); the events of
interpreter start-up (19 goroutines) and of N concurrent evaluations are validated against PanLockset by Trace_C20.
"""
import json, re
import pvlib
from pvlib import Check, run_tlc, run_cases, ndjson


def programs(rng, ngor, per):
    progs = []
    for g in range(ngor):
        for k in range(per):
            tag = f"{g}_{k}_{rng.randint(0, 10**6)}"
            kind = rng.randint(0, 8)
            if kind == 0:
                progs.append(f"v_{tag} := {k}; o := {{k_{tag}: v_{tag}}}; o.k_{tag} + 1")
            elif kind == 1:
                progs.append(f"\"a := 1; b_{tag} := 2\".evalEnv.keys")
            elif kind == 2:
                progs.append(f"JSON.dec(`{{\"j_{tag}\": 1, \"shared\": 2}}`).keys")
            elif kind == 3:
                progs.append(f"f_{tag} := {{|x_{tag}, kw_{tag}: 1| x_{tag} + kw_{tag}}}; f_{tag}(1, kw_{tag}: 2)")
            elif kind == 4:
                progs.append(f"\"p_{tag} := 1; q := p_{tag}\".evalEnv.items; {{a_{tag}: 1, **{{b_{tag}: 2}}}}.keys")
            elif kind == 5:
                progs.append(f"[1, 2, 3]@{{|e_{tag}| e_{tag} * 2}}.sum; 'sym_{tag}.S")
            elif kind == 6:       # calls with more arguments than any earlier call of the process (argument-variable names \\9, \\10, ...)
                n = 9 + 4 * k + rng.randint(0, 3)
                progs.append("{[\\1, \\%d]}(%s)" % (n, ", ".join(str(i) for i in range(1, n + 1))) + "; {\\0.len}(%s)" % ", ".join(str(i) for i in range(n + 2)))
            elif kind == 7:       # the same symbol converted back to a str by several evaluations, then hashed / compared / used as a key
                progs.append(f"k := \"shared{k} := 1; own_{tag} := 2\".evalEnv.keys; [k[1] == \"shared{k}\", %{{k[1]: 1}}[k[1]], %{{k[0]: 1}}[k[0]], {{shared{k}: 1}}.which(k[1])]")
            else:
                progs.append(f"o := {{shared{k}: 1, b_{tag}: 2}}; o.keys@{{|x| x == 'shared{k}}}; %{{**o}}.keys; JSON.dec(`{{\"shared{k}\": 1}}`).keys[0] == \"shared{k}\"")
    return progs


MOD = "github.com/Syuparn/pangaea/"


def race_rounds(rng, thorough):
    """Barrier rounds for the race-detector channel: every goroutine evaluates the same program at the same moment.
    @G@ is replaced by the goroutine's number (the reference evaluation uses the next number)."""
    rounds = []
    for n in range(9, 49 if thorough else 41):        # calls with more arguments than any earlier call of the process
        rounds.append({"warm": "nil.try.{\\%d}" % n, "prog": "{[\\1, \\%d]}(%s)" % (n, ", ".join(map(str, range(1, n + 1))))})
    for k in range(240 if thorough else 96):
        t = f"r{k}_{rng.randint(0, 10**6)}"
        kind = k % 8
        if kind == 0:      # one symbol, interned earlier, converted back by all and hashed / compared / used as a key for the first time
            rounds.append({"warm": f"c20sym_{t} := 1", "prog": f'k := "c20sym_{t} := 1".evalEnv.keys[0]; [k == "c20sym_{t}", %{{k: 1}}[k], {{c20sym_{t}: 2}}.which(k)]'})
        elif kind == 1:    # all intern the SAME new symbol at once
            rounds.append({"warm": "", "prog": f"same_{t} := 1; {{same_{t}: same_{t}}}.keys"})
        elif kind == 2:    # each interns a new symbol of its own while the others do
            rounds.append({"warm": "", "prog": f"own_{t}_g@G@ := 1; {{own_{t}_g@G@: 2}}.keys"})
        elif kind == 3:    # writers (new JSON keys) against readers (symbols back to strs)
            rounds.append({"warm": f"old_{t} := 1", "prog": f'[JSON.dec(`{{"j_{t}_g@G@": 1, "old_{t}": 2}}`).keys, "old_{t} := 1; b := 2".evalEnv.items]'})
        elif kind == 4:    # keyword arguments and their names
            rounds.append({"warm": "", "prog": f"f := {{|x, kw_{t}: 1, kv_{t}_g@G@: 2| [x, kw_{t}, \\_]}}; f(1, kw_{t}: 3, zz_{t}: 4)"})
        elif kind == 5:    # symbols made from strs at run time
            rounds.append({"warm": "", "prog": f'o := {{a: 1}}.bear; "dyn_{t}".sym?; %{{"dyn_{t}": 1, "dyn_{t}_g@G@": 2}}.O.keys'})
        elif kind == 6:    # shared built-in objects: property lookup, errors, the `_` value
            rounds.append({"warm": "", "prog": f"[1.try.nosuch_{t}.err.S, _, Either.A, nil.try.{{|u| 1 / 0}}.A, Int.keys.len]"})
        else:              # strings shared through the table used as map keys in every evaluation
            rounds.append({"warm": f"sh_{t} := 1", "prog": f'ks := "sh_{t} := 1; o_{t}_g@G@ := 2".evalEnv.keys; m := %{{}}; ks@{{|k| %{{k: 1}}[k]}}; ks@{{|k| k == "sh_{t}"}}'})
    # two roles meeting for many repetitions: one side keeps changing a shared table, the other keeps reading it (a window of a few
    # instructions is only met under sustained overlap)
    for k in range(12 if thorough else 6):
        t = f"s{k}_{rng.randint(0, 10**6)}"
        kind = k % 6
        if kind == 0:      # new symbols interned (JSON keys) while others convert known symbols back to strs (evalEnv / items)
            rounds.append({"warm": f"kn_{t} := 1", "prog": f'JSON.dec(`{{"nk_{t}_g@G@_r@R@": 1}}`).keys', "prog2": f'"kn_{t} := 1; kb := 2".evalEnv.items', "reps": 150})
        elif kind == 1:    # new identifiers evaluated while others import a standard module (Env.Items over its scope)
            rounds.append({"warm": "", "prog": f"id_{t}_g@G@_r@R@ := 1", "prog2": 'import("dummy").keys', "reps": 120})
        elif kind == 2:    # new keyword names / argument counts while others call with known ones
            rounds.append({"warm": "", "prog": f"{{|x, kk_{t}_g@G@_r@R@: 1| \\_}}(1, zz_{t}_r@R@: 2)", "prog2": f"{{|x, kk_{t}: 1| [x, \\_]}}(1, kk_{t}: 3)", "reps": 150})
        elif kind == 3:    # strs turned into symbols at run time while others hash shared strs
            rounds.append({"warm": f"hs_{t} := 1", "prog": f'"dy_{t}_g@G@_r@R@".sym?; %{{"dy_{t}_g@G@_r@R@": 1}}.O.keys', "prog2": f'ks := "hs_{t} := 1".evalEnv.keys; ks@{{|k| %{{k: 1}}[k]}}', "reps": 150})
        elif kind == 4:    # everybody both interns and converts back
            rounds.append({"warm": "", "prog": f'"bo_{t}_g@G@_r@R@ := 1; sh := 2".evalEnv.items', "prog2": "", "reps": 100})
        else:              # property lookups by new names (NoPropErr path interns the name) against lookups of known names
            rounds.append({"warm": "", "prog": f"1.try.np_{t}_g@G@_r@R@.err.msg", "prog2": "[1.S, [1, 2].len, {a: 1}.keys, \"ab\".uc]", "reps": 150})
    return rounds


HTTP_SCRIPT = """http := import("http")
stop := http.S.serve(
  http.S.get("/echo", {|req| http.Response.new(body: req.headers.keys.S, headers: {"X-Seen": req.headers.keys.len.S, "X-%s": "1"})}),
  http.S.post("/json", {|req| JSON.dec(req.body).keys.S}),
  http.S.get("/env", {|req| "hk := 1; hv_%s := 2".evalEnv.keys}),
  http.S.get("/g", {|req| ga%s; gb%s; "ok"}),
  http.S.get("/q", {|req| [req.queries.keys, req.queries.items.len, {|a, b, c, d, e, f, g, h, i, j| \\0.len}(1, 2, 3, 4, 5, 6, 7, 8, 9, 10)].S}),
  background: true, url: ":@PORT@")
"""


def http_phase(rng, nreq, blocking=False, scoped=False):
    """the scenario the property names: handlers of the HTTP server module running concurrently with each other and with the main script"""
    t = str(rng.randint(0, 10**6))
    reqs = []
    for i in range(nreq):
        k = i % 4
        if k == 0:
            reqs.append({"method": "GET", "path": "/echo", "headers": {f"Xfresh{t}x{i}": "1", "Xcommon": "2"}, "body": ""})
        elif k == 1:
            reqs.append({"method": "POST", "path": "/json", "headers": {"Content-Type": "application/json"}, "body": json.dumps({f"jk{t}x{i}": 1, "shared": 2})})
        elif k == 2:
            reqs.append({"method": "GET", "path": "/env", "headers": {}, "body": ""})
        else:
            reqs.append({"method": "GET", "path": f"/q?qk{t}x{i}=1&common=2", "headers": {}, "body": ""})
    # handlers that only read variables of the global scope, interleaved with the others from the first request on, while the main script
    # keeps reassigning those variables (no new symbol on either side) and now and then defines new ones: both go on for the whole phase
    mixed = []
    for r in reqs:
        mixed += [r, {"method": "GET", "path": "/g", "headers": {}, "body": ""}]
    reqs = mixed + [{"method": "GET", "path": "/g", "headers": {}, "body": ""} for _ in range(nreq)]
    main = []
    for i in range(nreq // 2):
        main.append(f"m{t}x{i} := {i}; {{mk{t}x{i}: m{t}x{i}}}.keys; \"mk{t}x{i} := 1\".evalEnv.keys")
        main += [f"ga{t} := ga{t} + 1; gb{t} := [ga{t}]; gc{t} := gb{t}.len" for _ in range(30)]
    script = HTTP_SCRIPT % (t, t, t, t)
    if blocking:          # Server.serve without background: the call never returns, handlers still run on goroutines of their own
        script = script.replace("stop := http.S.serve(", "http.S.serve(").replace("background: true, ", "")
    return {"script": script, "requests": reqs, "main": main, "pre": f"ga{t} := 0; gb{t} := []; gc{t} := 0", "clients": 8, "blocking": blocking, "scoped": scoped}


def top_frame(frames):
    """innermost frame that lies in the interpreter's packages"""
    for f in frames:
        if f.startswith(MOD):
            return f[len(MOD):].split(" ")[0]
    return None


def validate(ck, name, resp):
    ex = resp["extra"]
    evs = ex["startup"] + ex["run"]
    rows = [{"nproc": ex["procs"], "g": 0, "ev": "header", "tab": "", "var": ""}]
    for e in evs:
        g, ev, key = (e.split(" ", 2) + [""])[:3]
        rows.append({"nproc": 0, "g": int(g), "ev": ev, "tab": key, "var": key.split("@")[0]})
    res = run_tlc("Trace_C20", files={"c20.ndjson": ndjson(rows)}, workers=1, timeout_s=1200, prefix=("V ",))
    if res.violation:
        raise pvlib.Broken("Trace_C20 invariant violated: " + res.violation)
    ck.add_tlc(res, f"Trace_C20 {name}")
    accepted = any(s.startswith("V accepted") for s in res.lines)
    consumed = res.distinct - 1
    return accepted, consumed, rows


def lockstate(rows, upto):
    """Recompute the lockset for the report (the verdict is TLC's)."""
    rc, writer = {}, 0
    for r in rows[1:upto]:
        g, ev = r["g"], r["ev"]
        if ev == "AutoRLock":
            rc[g] = rc.get(g, 0) + 1
        elif ev == "AutoRUnlock":
            rc[g] = rc.get(g, 0) - 1
        elif ev == "AutoLock":
            writer = g
        elif ev == "AutoUnlock":
            writer = 0
    return rc, writer


def run():
    ck = Check("C20")
    thorough = ck.tier == "thorough"
    r1 = run_tlc("MC_C20", cfg="MC_C20.cfg")
    if r1.violation:
        raise pvlib.Broken("PanSymtab (locked) violates " + r1.violation)
    ck.add_tlc(r1, "MC_C20 locked, 3 procs x 2 strings")
    r2 = run_tlc("MC_C20", cfg="MC_C20_unlocked.cfg", expect_violation=True)
    if r2.violation != "NoRace":
        raise pvlib.Broken("the unlocked-SymHash2Str variant of PanSymtab no longer violates NoRace (vacuous model)")
    r3 = run_tlc("MC_C20", cfg="MC_C20_split.cfg", expect_violation=True)
    if r3.violation != "ConsistentWhenFree":
        raise pvlib.Broken("the split-publish variant of PanSymtab no longer violates ConsistentWhenFree (vacuous model)")
    ck.cov["nonvacuity"] = "MC_C20_unlocked violates NoRace and MC_C20_split violates ConsistentWhenFree, as expected"
    binary = pvlib.build_worker("hooked")
    info = dict(pvlib.HOOKGEN_INFO)
    if info.get("sites", 0) < 4 or not info.get("locks"):
        raise pvlib.Broken(f"auto-instrumentation found too few sites: {info}")
    ck.cov["instrumentation"] = info
    shapes = [(4, 12), (8, 10), (16, 8)] if not thorough else [(2, 30), (4, 30), (8, 25), (16, 20), (32, 10)] * 4
    nontrivial = 0
    total_events = 0
    for ri, (ngor, per) in enumerate(shapes):
        progs = programs(ck.rng, ngor, per)
        resp = run_cases([{"id": "c", "mode": "conc", "n": ngor, "progs": progs, "deadline_ms": 120000}], binary=binary,
                         nproc=1, label=f"C20 run {ri}")["c"]
        if resp["end"] != "ok":
            if "concurrent map" in resp["end"]:
                ck.reject("C20:fatal:concurrent-map", resp["end"], {"n": ngor, "progs": progs[:5], "end": resp["end"]})
                continue
            raise pvlib.Broken(f"concurrent driver failed: {resp['end']}")
        bad = [e for e in resp["events"] if e.startswith("panic:")]
        for e in bad:
            ck.reject("C20:panic-in-evaluation", e, {"n": ngor, "end": e})
        accepted, consumed, rows = validate(ck, f"n={ngor}", resp)
        if len(rows) - 1 < 100 or not resp["extra"].get("startup"):
            raise pvlib.Broken(f"the instrumented run recorded {len(rows) - 1} events ({len(resp['extra'].get('startup') or [])} at start-up): the hooks are not in the build that ran")
        total_events += len(rows) - 1
        writes = sum(1 for r in rows if r["ev"] == "AutoWrite")
        nontrivial += writes
        ck.sample({"goroutines": ngor, "programs": len(progs), "events": len(rows) - 1, "startup_events": len(resp["extra"]["startup"]),
                   "table_writes": writes, "accepted": accepted, "first_events": [f"{r['g']} {r['ev']} {r['tab']}" for r in rows[1:9]]})
        if not accepted:
            ev = rows[consumed + 1]
            rc, writer = lockstate(rows, consumed + 1)
            held = "W" if writer == ev["g"] else ("R" if rc.get(ev["g"], 0) > 0 else "none")
            sig = f"C20:{ev['ev']}:{ev['tab']}:holding={held}"
            if ev["ev"] == "AutoUnlock" and held == "W":
                sig = "C20:AutoUnlock:tables-published-in-two-critical-sections"
            ck.reject(sig, f"event #{consumed + 1} '{ev['g']} {ev['ev']} {ev['tab']}' is not enabled in PanLockset "
                           f"(goroutine holds {held}; writer={writer})",
                      {"n": ngor, "event_index": consumed + 1, "event": ev, "context": rows[max(1, consumed - 8):consumed + 2],
                       "progs": progs[:6]})
    # ---- second observation channel: production build (no hooks) under the Go race detector, barrier rounds first
    nrace = 0
    shapes2 = [(8, 1)] if not thorough else [(4, 1), (8, 1), (16, 1), (8, 2)]
    for ri, (ngor, _) in enumerate(shapes2):
        rounds = race_rounds(ck.rng, thorough)
        progs = programs(ck.rng, ngor, 10)
        http = http_phase(ck.rng, 200 if thorough else 80)
        http2 = http_phase(ck.rng, 200 if thorough else 80, blocking=True)
        # the same server started by a script whose top level is a scope of its own (an imported module, a file run by `pangaea test`)
        http3 = http_phase(ck.rng, 200 if thorough else 80, scoped=True)
        resp, reports = pvlib.run_race_driver({"n": ngor, "progs": progs, "rounds": rounds, "http": http, "http2": http2, "http3": http3})
        if resp.get("end") != "ok":
            end = resp.get("end", "")
            if "fatal error: concurrent map" in end:      # the Go runtime's own detection of unsynchronised map access: the property's fault itself
                ck.reject("C20:fatal:concurrent-map", end[-600:], {"n": ngor, "end": end[-2000:]})
                continue
            raise pvlib.Broken(f"race driver failed: {end[-800:]}")
        rows = [{"nproc": ngor, "g": 0, "ev": "header", "tab": "", "var": ""}]
        seen = set()
        for rep in reports:
            tops = [(kind, top_frame(fr)) for kind, fr in rep]
            if len(tops) < 2 or any(t is None for _, t in tops):
                continue              # an access outside the interpreter's packages (the driver itself)
            key = "|".join(sorted(f"{k}@{t}" for k, t in tops[:2]))
            if key in seen:
                continue
            seen.add(key)
            rows.append({"nproc": 0, "g": 1, "ev": "Unsync", "tab": key, "var": "", "report": [[k, fr[:6]] for k, fr in rep[:2]]})
        for k, (rd, out) in enumerate(zip(rounds, resp["rounds"])):
            norm = lambda x: re.sub(r"_g\d+", "_gN", x)
            if any(norm(c) != norm(out["ref"]) for c in out["conc"]):
                rows.append({"nproc": 0, "g": 1, "ev": "ResultDiffers", "tab": f"round {k}", "var": "", "report": [rd["prog"], out["conc"], out["ref"]]})
        h = resp.get("http") or {}
        if not str(h.get("start", "")).startswith("val:") or h.get("stop") != "val:nil":
            raise pvlib.Broken(f"the HTTP phase did not run: start={h.get('start')!r} stop={h.get('stop')!r}")
        h2 = resp.get("http2") or {}
        if not str(h2.get("start", "")).startswith("val:"):
            raise pvlib.Broken(f"the blocking-serve HTTP phase did not run: start={h2.get('start')!r}")
        h3 = resp.get("http3") or {}
        if not str(h3.get("start", "")).startswith("val:") or not str(h3.get("stop", "")).startswith("val:"):
            raise pvlib.Broken(f"the scoped-script HTTP phase did not run: start={h3.get('start')!r} stop={h3.get('stop')!r}")
        for hh_, hq in ((h, http), (h2, http2), (h3, http3)):
            for k, (a, b) in enumerate(zip(hh_["conc"], hh_["ref"])):
                if a != b:
                    rows.append({"nproc": 0, "g": 1, "ev": "ResultDiffers", "tab": f"http request {k}", "var": "", "report": [json.dumps(hq["requests"][k]), [a], b]})
        nrace += len(rounds) * ngor + len(progs) + 3 * (len(http["requests"]) + len(http["main"]))
        if len(rows) > 1:
            res = run_tlc("Trace_C20", files={"c20.ndjson": ndjson([{k: v for k, v in r.items() if k != "report"} for r in rows])}, workers=1, timeout_s=600, prefix=("V ",))
            ck.add_tlc(res, f"Trace_C20 race channel n={ngor}")
            if any(s2.startswith("V accepted") for s2 in res.lines):
                raise pvlib.Broken("Trace_C20 accepted a trace with Unsync / ResultDiffers events")
            for r in rows[1:]:
                if r["ev"] == "Unsync":
                    ck.reject(f"C20:unsync:{r['tab']}", f"two evaluations access the same interpreter-wide memory without synchronisation: {r['tab']}",
                              {"n": ngor, "accesses": r["report"]})
                else:
                    ck.reject(f"C20:result-differs:{r['report'][0][:40]}", f"{r['tab']}: concurrent evaluations of {r['report'][0]!r} give {sorted(set(r['report'][1]))}, alone it gives {r['report'][2]!r}",
                              {"n": ngor, "program": r["report"][0], "concurrent": r["report"][1], "alone": r["report"][2]})
    ck.cov["race_channel"] = {"runs": len(shapes2), "concurrent_evaluations": nrace, "build": "production code, no verif tag, go build -race"}
    ck.cov["evaluations"] = total_events + nrace
    ck.cov["distinct_nontrivial"] = nontrivial
    ck.cov["traces_validated_against_impl"] = len(shapes)
    ck.cov["rule"] = ("each trace = lock/table events of interpreter start-up (19 goroutines loading native sources) followed by N "
                      "goroutines evaluating programs that intern fresh symbols (identifiers, object keys, JSON keys, kwargs) and "
                      "convert symbols back (evalEnv keys/items); evaluations = events validated; non-trivial = table write events "
                      "(symbol actually interned under the write lock); second channel: the production build under the Go race detector, "
                      "barrier rounds (all goroutines evaluate the same program at once: calls with 9..40+ arguments, the same symbol converted "
                      "back and hashed, the same / different new symbols interned at once, JSON keys, keywords, run-time symbols, shared "
                      "built-in objects), then the random programs, then three real servers of the http module (serveBackground, the blocking serve, and serveBackground from a script whose top level is a scope of its own - a module, a test file - which goes on assigning the variables its handlers read) each answering 80 (thorough 200) requests from 8 clients (new header / query / JSON names, evalEnv in handlers) while the main script goes on; each race report in the interpreter's packages is an Unsync event, "
                      "which PanLockset never enables")
    ck.assumptions = ["events are emitted by build-time auto-instrumentation of package object (harness/cmd/hookgen) at statement "
                      "granularity; only package-level variables declared in object/hashtable.go are tracked",
                      "lockset discipline is decided per event order recorded under the tracer's mutex; it does not depend on catching a race in the act"]
    return ck.finish()


def replay(path):
    print("C20 replays are schedule-dependent: re-run `python3 pv.py C20`; the recorded event context is in", path)
    return run()

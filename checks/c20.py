"""C20: no unsynchronised access to the interpreter-wide tables.

Design level: PanSymtab (3 processes, 2 strings, all interleavings) satisfies Exclusion/NoRace/LockDiscipline with the
locked SymHash2Str, and the unlocked variant violates NoRace (non-vacuity).
Binding: the object package is auto-instrumented at build time (harness/cmd/hookgen: an event at every lock
operation and at every statement touching a package-level variable of object/hashtable.go); the events of
interpreter start-up (19 goroutines) and of N concurrent evaluations are validated against PanLockset by Trace_C20.
"""
import json
import pvlib
from pvlib import Check, run_tlc, run_cases, ndjson


def programs(rng, ngor, per):
    progs = []
    for g in range(ngor):
        for k in range(per):
            tag = f"{g}_{k}_{rng.randint(0, 10**6)}"
            kind = rng.randint(0, 5)
            if kind == 0:
                progs.append(f"v_{tag} := {k}; o := {{k_{tag}: v_{tag}}}; o.k_{tag} + 1")
            elif kind == 1:
                progs.append(f"\"a := 1; b_{tag} := 2\".evalEnv.keys")
            elif kind == 2:
                progs.append(f"JSON.dec(`{{\"j_{tag}\": 1, \"shared\": 2}}`).keys")
            elif kind == 3:
                progs.append(f"f_{tag} := {{|x_{tag}, kw_{tag}: 1| x_{tag} + kw_{tag}}}; f_{tag}(1, kw_{tag}: 2)")
            elif kind == 4:
                progs.append(f"\"p_{tag} := 1; q := p_{tag}\".evalEnv.items; {{a_{tag}: 1, **{{b_{tag}: 2}}}}.keys")
            else:
                progs.append(f"[1, 2, 3]@{{|e_{tag}| e_{tag} * 2}}.sum; 'sym_{tag}.S")
    return progs


def validate(ck, name, resp):
    ex = resp["extra"]
    evs = ex["startup"] + ex["run"]
    rows = [{"nproc": ex["procs"], "g": 0, "ev": "header", "tab": ""}]
    for e in evs:
        g, ev, key = (e.split(" ", 2) + [""])[:3]
        rows.append({"nproc": 0, "g": int(g), "ev": ev, "tab": key})
    res = run_tlc("Trace_C20", files={"c20.ndjson": ndjson(rows)}, workers=1, timeout_s=1200, prefix=("V ",))
    if res.violation:
        raise pvlib.Broken("Trace_C20 invariant violated: " + res.violation)
    ck.add_tlc(res, f"Trace_C20 {name}")
    accepted = any(s.startswith("V accepted") for s in res.lines)
    consumed = res.distinct - 1
    return accepted, consumed, rows


def lockstate(rows, upto):
    """Recompute the lockset for the report (the verdict is TLC's)."""
    rc, writer = {}, 0
    for r in rows[1:upto]:
        g, ev = r["g"], r["ev"]
        if ev == "AutoRLock":
            rc[g] = rc.get(g, 0) + 1
        elif ev == "AutoRUnlock":
            rc[g] = rc.get(g, 0) - 1
        elif ev == "AutoLock":
            writer = g
        elif ev == "AutoUnlock":
            writer = 0
    return rc, writer


def run():
    ck = Check("C20")
    thorough = ck.tier == "thorough"
    r1 = run_tlc("MC_C20", cfg="MC_C20.cfg")
    if r1.violation:
        raise pvlib.Broken("PanSymtab (locked) violates " + r1.violation)
    ck.add_tlc(r1, "MC_C20 locked, 3 procs x 2 strings")
    r2 = run_tlc("MC_C20", cfg="MC_C20_unlocked.cfg", expect_violation=True)
    if r2.violation != "NoRace":
        raise pvlib.Broken("the unlocked-SymHash2Str variant of PanSymtab no longer violates NoRace (vacuous model)")
    ck.cov["nonvacuity"] = "MC_C20_unlocked violates NoRace as expected"
    binary = pvlib.build_worker("hooked")
    info = dict(pvlib.HOOKGEN_INFO)
    if info.get("sites", 0) < 4 or not info.get("locks"):
        raise pvlib.Broken(f"auto-instrumentation found too few sites: {info}")
    ck.cov["instrumentation"] = info
    shapes = [(4, 12), (8, 10), (16, 8)] if not thorough else [(2, 30), (4, 30), (8, 25), (16, 20), (32, 10)] * 4
    nontrivial = 0
    total_events = 0
    for ri, (ngor, per) in enumerate(shapes):
        progs = programs(ck.rng, ngor, per)
        resp = run_cases([{"id": "c", "mode": "conc", "n": ngor, "progs": progs, "deadline_ms": 120000}], binary=binary,
                         nproc=1, label=f"C20 run {ri}")["c"]
        if resp["end"] != "ok":
            if pvlib.is_host_crash(resp["end"]) and "concurrent map" in resp["end"]:
                ck.reject("C20:fatal:concurrent-map", resp["end"], {"n": ngor, "progs": progs[:5], "end": resp["end"]})
                continue
            raise pvlib.Broken(f"concurrent driver failed: {resp['end']}")
        bad = [e for e in resp["events"] if e.startswith("panic:")]
        for e in bad:
            ck.reject("C20:panic-in-evaluation", e, {"n": ngor, "end": e})
        accepted, consumed, rows = validate(ck, f"n={ngor}", resp)
        total_events += len(rows) - 1
        writes = sum(1 for r in rows if r["ev"] == "AutoWrite")
        nontrivial += writes
        ck.sample({"goroutines": ngor, "programs": len(progs), "events": len(rows) - 1, "startup_events": len(resp["extra"]["startup"]),
                   "table_writes": writes, "accepted": accepted, "first_events": [f"{r['g']} {r['ev']} {r['tab']}" for r in rows[1:9]]})
        if not accepted:
            ev = rows[consumed + 1]
            rc, writer = lockstate(rows, consumed + 1)
            held = "W" if writer == ev["g"] else ("R" if rc.get(ev["g"], 0) > 0 else "none")
            sig = f"C20:{ev['ev']}:{ev['tab']}:holding={held}"
            ck.reject(sig, f"event #{consumed + 1} '{ev['g']} {ev['ev']} {ev['tab']}' is not enabled in PanLockset "
                           f"(goroutine holds {held}; writer={writer})",
                      {"n": ngor, "event_index": consumed + 1, "event": ev, "context": rows[max(1, consumed - 8):consumed + 2],
                       "progs": progs[:6]})
    ck.cov["evaluations"] = total_events
    ck.cov["distinct_nontrivial"] = nontrivial
    ck.cov["traces_validated_against_impl"] = len(shapes)
    ck.cov["rule"] = ("each trace = lock/table events of interpreter start-up (19 goroutines loading native sources) followed by N "
                      "goroutines evaluating programs that intern fresh symbols (identifiers, object keys, JSON keys, kwargs) and "
                      "convert symbols back (evalEnv keys/items); evaluations = events validated; non-trivial = table write events "
                      "(symbol actually interned under the write lock)")
    ck.assumptions = ["events are emitted by build-time auto-instrumentation of package object (harness/cmd/hookgen) at statement "
                      "granularity; only package-level variables declared in object/hashtable.go are tracked",
                      "lockset discipline is decided per event order recorded under the tracer's mutex; it does not depend on catching a race in the act"]
    return ck.finish()


def replay(path):
    print("C20 replays are schedule-dependent: re-run `python3 pv.py C20`; the recorded event context is in", path)
    return run()

"""C05 property resolution: TLC explores every prototype forest built by <= MaxObjs constructor steps (PanProto: Literal /
Bear / Bro with 10 property sets), checks the forest invariants, and emits for every object and lookup name what the
search must find; each forest is replayed as one program in the real interpreter and every query is compared."""
import json
import pvlib
from pvlib import Check, run_tlc, run_cases, payloads

QUERY = ["a", "b", "_p", "zz"]
# the model's abstract names are replayed under several concrete spellings of the same class (public / private): resolution and
# `keys` depend only on the class and on string order, not on the shape of the name (suffixes ! and ?, capitals, digits, underscores)
SPELLINGS = {"a": ["a", "a?", "a!", "Za", "a_1", "k?"], "b": ["b", "b!", "q?", "bB9_", "Z!", "b_?"],
             "_p": ["_p", "_p?", "_q!", "__p", "_P", "_p_1"], "zz": ["zz", "z?", "zz!", "y!", "Zz", "z_"]}


def spelling(i):
    """forest i -> {abstract name: concrete spelling}; forest 0, 6, 12, .. keep the plain names"""
    return {n: alts[(i // (1 + k)) % len(alts)] if i % 6 else alts[0] for k, (n, alts) in enumerate(SPELLINGS.items())}


def prop_src(oid, n, kind):
    if n == "_missing":
        return f"m{{|name, p, q| [\"x{oid}\", self.tag, name, p, q]}}"
    if kind == "val":
        return f"\"v{oid}_{n}\""
    if kind == "raiser":       # a property that IS found; its body fails with a NoPropErr of its own (a name missing on some other object)
        return "m{|p, q| {inner: 1}.nosuch_zq}"
    if kind == "meth":
        return f"m{{|p, q| [\"m{oid}_{n}\", self.tag, p, q]}}"
    return f"{{|x, p, q| [\"f{oid}_{n}\", x.tag, p, q]}}"


def q(s):
    return '"' + s + '"'


def expected(case, o, k, form, spell):
    """canonical text of the [value, error] pair produced by nil.try.{<query>}.A"""
    n = QUERY[k]
    cn = spell[n]
    r = case["res"][o][k]
    tag = case["objs"][o]["efftag"]
    notag = tag == 0 and (r["r"] == "missing" or (r["r"] == "prop" and r["kind"] in ("meth", "fn"))) and form not in ("index", "which")
    if notag:          # the marker functions read the receiver's tag: an object without any tag in its chain raises there
        return "[nil, <err NoPropErr: property `tag` is not defined.>]"
    args = ("nil", "nil") if form in ("read", "chain") else ("7", "8")
    if form == "index":
        if r["r"] != "prop":
            return "[nil, nil]"
        return f"[{q('v%d_%s' % (r['owner'], n))}, nil]" if r["kind"] == "val" else "[<func>, nil]"
    if form == "which":
        return f"[{r['owner']}, nil]" if r["r"] == "prop" else "[nil, nil]"
    if r["r"] == "noprop":
        return f"[nil, <err NoPropErr: property `{cn}` is not defined.>]"
    if r["r"] == "prop" and r["kind"] == "raiser":      # found, so it is what runs: its own failure is the outcome, `_missing` is not asked
        return "[nil, <err NoPropErr: property `nosuch_zq` is not defined.>]"
    if r["r"] == "missing":
        v = f"[{q('x%d' % r['owner'])}, {tag}, {q(cn)}, {args[0]}, {args[1]}]"
    elif r["kind"] == "val":
        v = q(f"v{r['owner']}_{n}")
    else:
        v = f"[{q(('m' if r['kind'] == 'meth' else 'f') + '%d_%s' % (r['owner'], n))}, {tag}, {args[0]}, {args[1]}]"
    if form == "chain":
        v = f"[{v}]"
    return f"[{v}, nil]"


def program(case, spell):
    lines, expect = [], []
    for i, ob in enumerate(case["objs"]):
        oid = i + 1
        props = ", ".join(([f"tag: {oid}"] if ob["tagged"] else []) + [f"{spell.get(p['n'], p['n'])}: {prop_src(oid, p['n'], p['kind'])}" for p in sorted(ob["own"], key=lambda p: p["n"])])
        if ob["rk"] != "obj":
            lines.append(f"o{oid} := " + {"int": "5", "str": '"s"', "arr": "[1, 2]", "nil": "nil"}[ob["rk"]])
        elif ob["how"] == "lit":
            lines.append(f"o{oid} := {{{props}}}")
        elif not props:
            lines.append(f"o{oid} := o{ob['src']}.{ob['how']}" + ("({})" if ob["how"] == "bro" else ""))
        else:
            lines.append(f"o{oid} := o{ob['src']}.{ob['how']}({{{props}}})")
        for nz in case.get("noise", []):
            if nz["at"] == oid:       # an unrelated literal evaluated at this point of the history
                lines.append(f"{{**o{nz['a']}, **o{nz['b']}}}")
                # the same two objects expanded into the keyword arguments of a function call and of a method call
                lines.append(f"{{|zq: 0| zq}}(**o{nz['a']}, **o{nz['b']}); {{zm: m{{|zq: 0| zq}}}}.zm(**o{nz['a']}, **o{nz['b']})")
    n = len(case["objs"])
    BUILTIN_DEPTH = {"obj": 2, "int": 4, "str": 3, "arr": 3, "nil": 3}
    for o in range(n):
        name = f"o{o + 1}"
        ob = case["objs"][o]
        if ob["rk"] != "obj":
            continue                     # the non-object root itself is not queried, only its descendants
        for k, an in enumerate(QUERY):
            qn = spell[an]
            for form, src in (("read", f"{name}.{qn}"), ("call", f"{name}.{qn}(7, 8)"), ("index", f"{name}['{qn}]"),
                              ("which", f"{name}.which('{qn})&.tag"), ("chain", f"[{name}]@{qn}")):
                lines.append(f"say(nil.try.{{|u| {src}}}.A)")
                expect.append((f"{name} {form} {an}", "out:" + expected(case, o, k, form, spell)))
            # the same lookup through the additional chain contexts: lonely (receiver is not nil: an ordinary call) and thoughtful
            # (a failed call - NoPropErr included, after _missing had its chance - is replaced by the receiver)
            e = expected(case, o, k, "call", spell)
            okv = e[1:-len(", nil]")] if e.endswith(", nil]") else None
            back = f"{{|r| 'recv if r == {name} else r}}"
            for form, src, want in (("lonely", f"{name}&.{qn}(7, 8)", e),
                                    ("thoughtful", f"{name}~.{qn}(7, 8).{back}", e if okv else '["recv", nil]'),
                                    ("thoughtfullist", f"[{name}]~@{qn}(7, 8)@{back}", f"[[{okv}], nil]" if okv else '[["recv"], nil]')):
                if form != "lonely" and ob["root"] != "obj":
                    continue          # `r == recv` is not identity for descendants of non-object values (a child of "s" does not == itself)
                lines.append(f"say(nil.try.{{|u| {src}}}.A)")
                expect.append((f"{name} {form} {an}", "out:" + want))
        # names owned ABOVE the forest (by the built-in prototypes of the root): `which` walks the whole chain, through a root that is not an object too
        rootprop, rootowner = {"obj": ("values", "Obj"), "int": ("prime?", "Int"), "str": ("uc", "Str"), "arr": ("join", "Arr"), "nil": ("B", "Nil")}[ob["root"]]
        lines.append(f"say([{name}.which('keys)&._name, {name}.which('proto)&._name, {name}.which('{rootprop})&._name, {name}.which('nosuchname_zq)])")
        expect.append((f"{name} which-builtin", f'out:["Obj", "BaseObj", "{rootowner}", nil]'))
        own_public = sorted((["tag"] if ob["tagged"] else []) + [spell.get(p["n"], p["n"]) for p in case["objs"][o]["own"] if not p["n"].startswith("_")])
        lines.append(f"say({name}.keys)")
        expect.append((f"{name} keys", "out:[" + ", ".join(q(x) for x in own_public) + "]"))
        lines.append(f"say([{name}.ancestors@{{|x| x['tag]}}, {name}.ancestors.len, {name}.proto['tag]])")
        anc = case["anc"][o]
        tags = [case["objs"][a - 1]["efftag"] for a in anc]
        ptag = tags[0] if anc else 0
        nilroot = 1 if any(case["objs"][a - 1]["rk"] == "nil" for a in anc) else 0      # `ancestors` is built with A, a list chain: the value nil itself is squashed out of the list
        expect.append((f"{name} ancestors/proto", f"out:[[{', '.join(str(t) for t in tags if t)}], {len(anc) + BUILTIN_DEPTH[ob['root']] - nilroot}, {ptag if ptag else 'nil'}]"))
        if ob["root"] == "obj":       # kindOf? goes through ==, which is not identity for descendants of non-object values
            lines.append("say([" + ", ".join(f"{name}.kindOf?(o{x + 1})" for x in range(n)) + f", {name}.kindOf?(Obj), {name}.kindOf?(BaseObj)])")
            expect.append((f"{name} kindOf?", "out:[" + ", ".join("true" if b else "false" for b in case["kind"][o]) + ", true, true]"))
    # one list chain over all objects of the forest, with more arguments than the markers name: every receiver gets the same arguments
    objs = [o for o in range(n) if case["objs"][o]["rk"] == "obj"]
    if len(objs) >= 2:
        for k, an in enumerate(QUERY):
            qn = spell[an]
            for extra in ("7, 8, 9", "7, 8, 9, 10, 11"):
                lines.append(f"say(nil.try.{{|u| [{', '.join('o%d' % (o + 1) for o in objs)}]@{qn}({extra})}}.A)")
                each = [expected(case, o, k, "call", spell) for o in objs]
                bad = next((e for e in each if not e.endswith(", nil]")), None)
                want = bad if bad else "[[" + ", ".join(e[1:-len(", nil]")] for e in each) + "], nil]"
                expect.append((f"o{objs[0] + 1} listchain {an}", "out:" + want))
    # re-parenting: an EXISTING object given to bear - `r := oP.bear(oX)` has oX's own properties (the very same table) under the prototype oP.  It comes
    # after every query above, so whatever the implementation remembers about lookups on oX or oP is already there (seed C05-m: a memo keyed by the table)
    for x in objs:
        for par in objs:
            if x == par:
                continue
            lines.append(f"r := o{par + 1}.bear(o{x + 1})")
            for k, an in enumerate(QUERY):
                qn = spell[an]
                rx = case["res"][x][k]
                own = rx["r"] == "prop" and rx["owner"] == x + 1
                lines.append(f"say(nil.try.{{|u| r['{qn}]}}.A)")
                expect.append((f"o{x + 1} reparent-index", "out:" + expected(case, x if own else par, k, "index", spell)))
                rtag = (x + 1) if case["objs"][x]["tagged"] else case["objs"][par]["efftag"]
                if not own or rtag:
                    lines.append(f"say(nil.try.{{|u| r.which('{qn})&.tag}}.A)")
                    expect.append((f"o{x + 1} reparent-which", "out:" + (f"[{rtag}, nil]" if own else expected(case, par, k, "which", spell))))
    return "\n".join(lines), expect


def run():
    ck = Check("C05")
    thorough = ck.tier == "thorough"
    maxobjs = 3
    res = run_tlc("MC_C05", defines={"MaxObjs": str(maxobjs)}, timeout_s=1700)
    if res.violation:
        raise pvlib.Broken("PanProto forest invariant violated in the model: " + res.violation)
    ck.add_tlc(res, f"MC_C05 MaxObjs={maxobjs}")
    cases = payloads(res, "CASE ")
    if len(cases) != res.distinct - 1:
        raise pvlib.Broken(f"TLC printed {len(cases)} forests for {res.distinct} states")
    if not thorough:                      # every forest of <= 2 objects, and a seeded third of the 3-object forests
        cases = [c for c in cases if len(c["objs"]) < 3 or ck.rng.random() < 0.34]
    reqs, exps = [], []
    for i, c in enumerate(cases):
        src, expect = program(c, spelling(i))
        reqs.append({"id": str(i), "src": src})
        exps.append(expect)
    out = run_cases(reqs, label="C05")
    queries = nontrivial = discarded = 0
    for i, c in enumerate(cases):
        o = out[str(i)]
        if pvlib.is_host_crash(o["end"]):
            ck.reject("C05:host-crash", o["end"], {"src": reqs[i]["src"], "observed": o["end"]})
            continue
        ev = o["events"]
        if o["end"].startswith(("discarded:", "fuel:")):      # the worker gave up on the program (deadline under load, fuel): nothing was observed, nothing is judged
            discarded += 1
            continue
        if len(ev) != len(exps[i]) or not o["end"].startswith("val:"):
            ck.reject("C05:program-aborted", f"forest program ended with {o['end']} after {len(ev)} of {len(exps[i])} queries",
                      {"src": reqs[i]["src"], "observed": o["end"], "events": ev[-3:]})
            continue
        for (what, want), got in zip(exps[i], ev):
            queries += 1
            if got != want:
                parts = what.split()
                oi = int(parts[0][1:]) - 1
                kind = "-" if c["objs"][oi]["tagged"] else "untagged"
                kind += "" if c["objs"][oi]["root"] == "obj" else ":root=" + c["objs"][oi]["root"]
                if len(parts) == 3 and parts[1] != "listchain":
                    r = c["res"][oi][QUERY.index(parts[2])]
                    kind += f":{r['r']}/{r['kind']}/{'own' if r['owner'] == oi + 1 else 'inherited'}"
                ck.reject(f"C05:{parts[1]}:{kind}:{c['objs'][oi]['how']}", f"{what}: got {got[4:]}, the forest model gives {want[4:]}",
                          {"src": reqs[i]["src"], "query": what, "observed": got, "expected": want, "forest": c["objs"]})
        if any(r["r"] == "missing" or (r["r"] == "prop" and r["owner"] != oi + 1) for oi, rs in enumerate(c["res"]) for r in rs):
            nontrivial += 1
    ck.cov["discarded"] = discarded
    if discarded > max(20, len(cases) // 20):
        raise pvlib.Broken(f"{discarded} of {len(cases)} forest programs were not evaluated to the end (deadline / fuel): the machine is too loaded to judge")
    ck.cov["forests_with_unrelated_literal"] = sum(1 for c in cases if c.get("noise"))
    ck.sample({"forest": cases[-1]["objs"], "program_head": reqs[-1]["src"].splitlines()[:4], "first_events": out[str(len(cases) - 1)]["events"][:4]})
    ck.cov["evaluations"] = queries
    ck.cov["distinct_nontrivial"] = nontrivial
    ck.cov["traces_validated_against_impl"] = len(cases)
    ck.cov["exhaustive"] = thorough
    ck.cov["rule"] = (f"forests = all histories of <= {maxobjs} constructor steps (literal / bear / bro, 10 property sets over a, b, _p, _missing with kinds value / "
                      "method / function); quick replays every forest of <= 2 objects and a seeded third of the 3-object ones, thorough all; per object and "
                      "name in {a, b, _p, zz}: read, call with arguments, index by symbol, which, list-chain form, lonely and thoughtful (scalar and list) chains; keys, ancestors, proto, kindOf?; "
                      "non-trivial = forests in which some lookup is inherited or goes through _missing")
    ck.assumptions = ["every object carries a unique `tag` so that structural == coincides with identity",
                      "queries run under nil.try.{..}.A so that NoPropErr outcomes are observed without ending the program"]
    return ck.finish()


def replay(path):
    c = json.load(open(path))["case"]
    o = run_cases([{"id": "r", "src": c["src"]}], nproc=1)["r"]
    print(o["events"][:5], o["end"])
    print("expected for", c.get("query"), ":", c.get("expected"))
    return 0

"""C03 lexical scoping and argument binding: recorded runs (probe/out events, outcome) validated against PanEval."""
import pvlib
from pvlib import Check
from checks import evalfam, evalcheck


def run():
    ck = Check("C03")
    thorough = ck.tier == "thorough"
    fam = evalfam.c03_binding_grid() + evalfam.c03_scope_family()
    res1, st1 = evalcheck.run_family(ck, "C03", fam, "families")
    g = evalfam.Gen(ck.rng, maxdepth=4 if thorough else 3)
    rnd = [("random", g.program()) for _ in range(60000 if thorough else 2500)]
    res2, st2 = evalcheck.run_family(ck, "C03", rnd, "random")
    ck.cov["families"] = st1
    ck.cov["random"] = st2
    probes = sum(1 for r in list(res1.values()) + list(res2.values()) if r["status"] == "ok" and
                 any(e.startswith("probe:") and "|" in e[6:].split("|", 1)[1] for e in r["observed"]["ev"]))
    ck.cov["evaluations"] = len(fam) + len(rnd)
    ck.cov["distinct_nontrivial"] = probes
    ck.cov["traces_validated_against_impl"] = st1["ok"] + st2["ok"] + st1["mismatch"] + st2["mismatch"]
    ck.cov["rule"] = ("exhaustive grids: parameter/argument counts 0..3 x 0..4 (plain, *spread, method), keyword parameters x passed keywords x 3 "
                      "layouts x 0..2 positionals, **unpacking; 64 closure scenarios (shadowing, local/compound assignment, reassignment after "
                      "creation, sibling call, nesting), recursion depths 0..3, receiver/anonymous-chain/index-then-call, zero-argument \\\\0; plus seeded "
                      "random nested programs with a probe after every statement. non-trivial = accepted runs in which a probe fired inside a call "
                      "(>= 2 frames visible)")
    ck.assumptions = ["probe(k)/say(x) are harness built-ins injected into the global scope; they receive the caller's environment",
                      "programs outside the PanEval fragment (status unsupported) are discarded, not judged"]
    if st1["ok"] + st1["mismatch"] < len(fam) * 0.9:
        raise pvlib.Broken(f"too many family programs are unsupported/discarded: {st1}")
    return ck.finish()


def replay(path):
    import json
    from pvlib import run_cases
    c = json.load(open(path))["case"]
    o = run_cases([{"id": "r", "src": c["src"]}], nproc=1)["r"]
    print("observed :", o["events"], o["end"])
    print("predicted:", c["predicted"])
    pe = c["predicted"]
    if pe and (o["events"] != pe["ev"] or not o["end"].startswith(pe["end"])):
        print(f"VIOLATION property=C03 replay={path}")
        return 1
    return 0

"""C03 lexical scoping and argument binding: recorded runs (probe/out events, outcome) validated against PanEval."""
import pvlib
from pvlib import Check
from checks import evalfam, evalcheck


def run():
    ck = Check("C03")
    thorough = ck.tier == "thorough"
    fam = evalfam.c03_binding_grid() + evalfam.c03_scope_family() + evalfam.c03_proplike_names()
    res1, st1 = evalcheck.run_family(ck, "C03", fam, "families")
    g = evalfam.Gen(ck.rng, maxdepth=4 if thorough else 3)
    rnd = [("random", g.program()) for _ in range(60000 if thorough else 2500)]
    res2, st2 = evalcheck.run_family(ck, "C03", rnd, "random")
    ck.cov["families"] = st1
    ck.cov["random"] = st2
    probes = sum(1 for r in list(res1.values()) + list(res2.values()) if r["status"] == "ok" and
                 any(e.startswith("probe:") and "|" in e[6:].split("|", 1)[1] for e in r["observed"]["ev"]))
    ck.cov["evaluations"] = len(fam) + len(rnd)
    ck.cov["distinct_nontrivial"] = probes
    ck.cov["traces_validated_against_impl"] = st1["ok"] + st2["ok"] + st1["mismatch"] + st2["mismatch"]
    ck.cov["rule"] = ("exhaustive grids: parameter/argument counts 0..3 x 0..4 (plain, *spread, method), keyword parameters x passed keywords x 3 "
                      "layouts x 0..2 positionals, **unpacking (also with keyword names that are properties of every object: max, keys, p, new, ...); 64 closure scenarios (shadowing, local/compound assignment, reassignment after "
                      "creation, sibling call, nesting), recursion depths 0..3, receiver/anonymous-chain/index-then-call, zero-argument \\\\0; plus seeded "
                      "random nested programs with a probe after every statement. non-trivial = accepted runs in which a probe fired inside a call "
                      "(>= 2 frames visible)")
    # ---- the same scoping when the program is typed into the REPL: one session scope, whatever the grouping of statements into inputs
    defs = [("f := {|| x}", "f()"), ("o := {m: m{x}}", "o.m"), ("f := {|a| x + a}", "f(10)"), ("g := {|| {|| x}}", "g()()"), ("h := {|| x += 1; x}", "[h(), x]"),
            ("k := {|x| {|| x}}(x)", "k()")]
    reassigns = ["x := 2", "x += 5", "7 => x", "x := x * 3; y := x"]
    sessions = []
    for d, use in defs:
        for r in reassigns:
            stmts = ["x := 1", d, r, use, "x"]
            for grouping in ([[0], [1], [2], [3], [4]], [[0, 1], [2], [3], [4]], [[0], [1, 2], [3, 4]], [[0, 1, 2], [3], [4]], [[0, 1], [2, 3], [4]], [[0, 1, 2, 3, 4]]):
                for multi in (False, True):
                    chunks = ["; ".join(stmts[i] for i in g) for g in grouping]
                    if multi:      # multi-line mode: each input is a block of lines
                        lines = ["multi"] + [l for g in grouping for l in [stmts[i] for i in g] + [""]]
                        chunks = [""] + ["".join(stmts[i] + "\n" for i in g) for g in grouping]
                    else:
                        lines = chunks
                    sessions.append((lines, chunks))
    rreqs = [{"id": f"q{k}", "mode": "repl", "stdin": "".join(l + "\n" for l in ls), "fuel": 100000, "deadline_ms": 5000} for k, (ls, _) in enumerate(sessions)]
    rreqs += [{"id": f"h{k}", "mode": "replchunks", "progs": ch, "fuel": 100000, "deadline_ms": 5000} for k, (_, ch) in enumerate(sessions)]
    from pvlib import run_cases
    rout = run_cases(rreqs, label="C03 repl")
    nrepl = 0
    for k, (ls, ch) in enumerate(sessions):
        o, h = rout[f"q{k}"], rout[f"h{k}"]
        if o["end"] != "exit:0" or h["end"] != "ok":
            continue
        text = o["events"][0][3:]
        body = text[text.index(">>> "):]
        want = ">>> " + "".join(e[3:] + (">>> " if ls[0] != "multi" else "<< multi-line mode (read lines until empty line is found) >>\n") for e in h["events"])
        nrepl += 1
        if body != want:
            ck.reject(f"C03:repl:{ls[1 if ls[0] == 'multi' else 0][:12]}", f"typed into the REPL as {ls!r} the session prints {body!r}; evaluated in one scope the inputs give {want!r}",
                      {"lines": ls, "observed": body, "expected": want})
    # iterator bodies are scopes too: every `next` runs the body in the frame made by `new` / the latest `recur`; a function written in the body
    # keeps THAT frame (later frames are new ones), and what the body assigns is gone with its frame.  Expected values follow the statement.
    iter_scopes = [
        ("<{|i| yield {|| i} if i < 3; recur(i+1)}>.new(0).A@{|f| f()}", "val:[0, 1, 2]"),
        ("it := <{|i| yield {|| i} if i < 3; recur(i+1)}>.new(0); f := it.next; g := it.next; [f(), g(), f()]", "val:[0, 1, 0]"),
        ("x := 10; it := <{|i| yield [i, x] if i < 3; x := i + 100; recur(i+1)}>.new(0); [it.next, it.next, it.next, x]", "val:[[0, 10], [1, 10], [2, 10], 10]"),
        ("it := <{|i| yield m{|k| i * k} if i < 3; recur(i+1)}>.new(1); o1 := {m: it.next}; o2 := {m: it.next}; [o1.m(10), o2.m(10), o1.m(1)]", "val:[10, 20, 1]"),
        ("gen := <{|i, acc: 0| yield {|| [i, acc]} if i < 3; recur(i+1, acc: acc + i)}>; a := gen.new(0); fs := [a.next, a.next, a.next]; fs@{|f| f()}", "val:[[0, 0], [1, 0], [2, 1]]"),
        ("it := <{|i| j := i * 2; yield {|| j} if i < 3; recur(i+1)}>.new(0); [it.next, it.next]@{|f| f()}", "val:[0, 2]"),
        ("fs := <{|i| yield {|| i} if i < 4; recur(i+1)}>.new(1)@{|f| f}; fs@{|f| f()}", "val:[1, 2, 3]"),
        ("it := <{|i| yield {|d| i := i + d; i} if i < 9; recur(i+1)}>.new(0); f := it.next; [f(5), f(5), it.next()(0)]", "val:[5, 5, 1]"),
        # parameters, keywords and locals named like the three "literal" names
        ("{|nil| nil}(3)", "val:3"), ("{|true, false| [true, false]}(1, 2)", "val:[1, 2]"), ("{|| false := 'local; false}()", 'val:"local"'), ("{|x, nil: 7| [x, nil]}(1)", "val:[1, 7]"),
        ("{|x, true: 7| [x, true, \\true]}(1, true: 8)", "val:[1, 8, 8]"), ("f := {|nil| {|| nil}}; f(5)()", "val:5"), ("o := {m: m{|false| [self.k, false]}, k: 1}; o.m(9)", "val:[1, 9]"),
        ("[1, 2]@{|nil| nil * 2}", "val:[2, 4]"), ("{|a| nil := a + 1; [nil, nil == 3]}(2)", "val:[3, true]"),
        # every element call of a list / reduce chain is a call of its own: what one element's body assigns is not there for the next one, closures made per element keep their own frame
        ("n := 0; r := [1, 2, 3]@{|x| n := n + x; n}; [r, n]", "val:[[1, 2, 3], 0]"), ("n := 0; r := [1, 2, 3]@{|x| n += x; n}; [r, n]", "val:[[1, 2, 3], 0]"),
        ("fs := [10, 20, 30]@{|x| {|| x}}; fs@{|f| f()}", "val:[10, 20, 30]"), ("fs := [10, 20, 30]@{|x| y := x + 1; {|| y}}; fs@{|f| f()}", "val:[11, 21, 31]"),
        ("[1, 2, 3]@{|x| seen := nil.try.{|u| prev}.val; prev := x; seen}", "val:[]"), ("[1, 2, 3]=@{|x| seen := nil.try.{|u| prev}.val; prev := x; seen}", "val:[nil, nil, nil]"),
        ("[1, 2, 3]$(0){|acc, x| t := acc + x; t}", "val:6"), ("[1, 2, 3]$([]){|acc, x| seen := nil.try.{|u| prev}.val; prev := x; [*acc, seen]}", "val:[nil, nil, nil]"),
        ("g := {|x| c := nil.try.{|u| c}.val; c := x; c}; [1, 2]@^g", "val:[1, 2]"), ("o := {m: m{|d: 0| k := nil.try.{|u| k}.val; k := 1; k}}; [o, o]@m", "val:[1, 1]"),
        ("fs := (1:4)@{|x| {|| x * 2}}; fs@{|f| f()}", "val:[2, 4, 6]"), ("fs := {a: 1, b: 2}@{|k, v| {|| [k, v]}}; fs@{|f| f()}", 'val:[["a", 1], ["b", 2]]'),
    ]
    iout = run_cases([{"id": f"s{k}", "src": src} for k, (src, _) in enumerate(iter_scopes)], label="C03 iterator bodies")
    for k, (src, want) in enumerate(iter_scopes):
        if iout[f"s{k}"]["end"] != want and not iout[f"s{k}"]["end"].startswith(("discarded:", "fuel:")):
            ck.reject("C03:iterator-body-scope", f"{src!r} gives {iout[f's{k}']['end']}, expected {want}", {"src": src, "observed": iout[f"s{k}"]["end"], "expected": want})
    ck.cov["iterator_body_scope_programs"] = len(iter_scopes)
    # wide calls: positional arguments, parameters and keywords in numbers around every power of two a table or cache might be sized by
    sizes = [63, 64, 65, 66, 127, 128, 129, 255, 256, 257, 1023, 1024, 1025] if thorough else [64, 65, 66, 129, 257, 1025]
    wide = []
    for n in sizes:
        ps = ", ".join(f"p{k}" for k in range(1, n + 1))
        args = ", ".join(str(k) for k in range(1, n + 1))
        wide += [(f"xs := (1:{n + 1}).A; {{|a| [\\1, \\{n - 1}, \\{n}, \\0.len]}}(*xs)", f"val:[1, {n - 1}, {n}, {n}]"),
                 (f"(1:{n + 1}).A.{{|a, b| [a, b, \\0.len, \\{n}]}}", f"val:[1, 2, {n}, {n}]"),
                 (f"{{|{ps}| [p1, p{n}, \\{n}, \\0.len]}}({args})", f"val:[1, {n}, {n}, {n}]"),
                 (f"{{|{ps}| [p1, p{n - 1}, p{n}]}}({', '.join(str(k) for k in range(1, n))})", f"val:[1, {n - 1}, nil]"),
                 (f"o := (1:{n + 1}).A@{{|i| [\"k#{{i}}\", i]}}.O; {{|k1: 0, k{n}: 0, zz: 5| [k1, k{n}, zz, \\_.keys.len, \\k{n - 1}]}}(**o)", f"val:[1, {n}, 5, {n}, {n - 1}]"),
                 (f"f := {{|*rest| rest.len}}; f({args})" if False else f"m := {{um: m{{|a, b| [a, b, \\0.len]}}}}; xs := (1:{n + 1}).A; m.um(*xs)", f"val:[1, 2, {n + 1}]")]
    wout = run_cases([{"id": f"w{k}", "src": src, "fuel": 400000, "deadline_ms": 10000} for k, (src, _) in enumerate(wide)], label="C03 wide calls")
    for k, (src, want) in enumerate(wide):
        if wout[f"w{k}"]["end"] != want and not wout[f"w{k}"]["end"].startswith(("discarded:", "fuel:")):
            ck.reject("C03:wide-call", f"{src[:160]!r}... gives {wout[f'w{k}']['end'][:200]}, expected {want}", {"src": src, "observed": wout[f"w{k}"]["end"][:500], "expected": want})
    ck.cov["wide_call_programs"] = len(wide)
    ck.cov["repl_sessions"] = nrepl
    ck.assumptions = ["probe(k)/say(x) are harness built-ins injected into the global scope; they receive the caller's environment",
                      "programs outside the PanEval fragment (status unsupported) are discarded, not judged"]
    if st1["ok"] + st1["mismatch"] < len(fam) * 0.9:
        raise pvlib.Broken(f"too many family programs are unsupported/discarded: {st1}")
    return ck.finish()


def replay(path):
    import json
    from pvlib import run_cases
    c = json.load(open(path))["case"]
    o = run_cases([{"id": "r", "src": c["src"]}], nproc=1)["r"]
    print("observed :", o["events"], o["end"])
    print("predicted:", c["predicted"])
    pe = c["predicted"]
    if pe and (o["events"] != pe["ev"] or not o["end"].startswith(pe["end"])):
        print(f"VIOLATION property=C03 replay={path}")
        return 1
    return 0
